/-
  The methods of `RationalPolynomial` (kingdon/polynomial.py) as translated from the source are the hand-written model
  `KP.RPoly`.  Uses the equivalences of `SourcePoly.lean` for the `Polynomial` methods they call.
-/
import Kingdon.Lemmas.SourcePoly
namespace Kingdon.SrcPolyEq
open Kingdon KP

/-- `(numer.args, denom.args)` of a model rational polynomial -/
def ratOf (r : RPoly) : Py.Rat := (polyOf r.numer, polyOf r.denom)

theorem ratOf_inj {r s : RPoly} (h : ratOf r = ratOf s) : r = s := by
  cases r; cases s
  simp only [ratOf, Prod.mk.injEq] at h
  rw [polyOf_inj h.1, polyOf_inj h.2]

theorem rat_eq_int_zero (r : RPoly) : SrcPoly.rat_eq_int (ratOf r) 0 = .ok (RPoly.eqZero r) := by
  unfold SrcPoly.rat_eq_int
  simp only [ratOf, poly_eq_int_zero, poly_eq_int_one, Py.andM, bind, Except.bind, pure, Except.pure, RPoly.eqZero]
  cases KP.eqZero r.numer <;> simp
theorem rat_eq_int_one (r : RPoly) : SrcPoly.rat_eq_int (ratOf r) 1 = .ok (RPoly.eqOne r) := by
  unfold SrcPoly.rat_eq_int
  simp only [ratOf, poly_eq_int_zero, poly_eq_int_one, Py.andM, bind, Except.bind, pure, Except.pure, RPoly.eqOne, KP.eqOne]
  cases isOne r.numer <;> cases isOne r.denom <;> simp
theorem rat_eq_eq (r s : RPoly) : SrcPoly.rat_eq (ratOf r) (ratOf s) = .ok (RPoly.eq r s) := by
  unfold SrcPoly.rat_eq RPoly.eq
  simp only [rat_eq_int_zero, rat_eq_int_one, bind, Except.bind]
  unfold RPoly.eqOne RPoly.eqZero
  simp only [ratOf, poly_eq_int_zero, poly_eq_int_one, poly_eq_eq, Py.andM, pure, Except.pure, KP.eqOne]
  cases KP.eqZero s.numer <;> cases KP.eqZero r.numer <;> cases isOne r.numer <;> cases isOne r.denom <;>
    cases isOne s.numer <;> cases isOne s.denom <;> cases KP.eq r.numer s.numer <;> rfl

/-! ### auxiliary lemmas (in their own namespace, so that they cannot clash with helpers of `SourcePoly.lean`) -/
namespace RatAux

theorem polyOf_length (p : Poly) : (polyOf p).length = p.length := List.length_map _
theorem ofNat_beq (a b : Nat) : (Int.ofNat a == Int.ofNat b) = (a == b) := by
  rw [Bool.eq_iff_iff]; simp only [beq_iff_eq]; exact Int.ofNat_inj
theorem ebind_ok {ε α β} (a : α) (f : α → Except ε β) : Except.bind (Except.ok a) f = f a := rfl

/-- the python `str` atom of a model variable name -/
def strA (s : String) : Py.Atom := .str s.toList

theorem getItem_nat {α : Type} (l : List α) (j : Nat) (h : j < l.length) :
    Py.getItem l (Int.ofNat j) = .ok l[j] := by
  unfold Py.getItem Py.normIdx
  simp [h, pure, Except.pure]

theorem drop_cons_info {α} (l : List α) (n : Nat) (x : α) (t : List α) (h : l.drop n = x :: t) :
    ∃ hn : n < l.length, l[n] = x ∧ l.drop (n + 1) = t := by
  have hn : n < l.length := by
    rcases Nat.lt_or_ge n l.length with h' | h'
    · exact h'
    · rw [List.drop_eq_nil_of_le h'] at h; cases h
  rw [List.drop_eq_getElem_cons hn] at h
  injection h with h1 h2
  exact ⟨hn, h1, h2⟩

abbrev LoopSt := Py.Mono × Py.Mono × Int × Int × Py.Atom × Py.Atom

/-- the body of the common-factor loop of `rat_mul`, as elaborated (state: `nnn, nnd, p1, p2, f1, f2`) -/
def loopBody (fl1 fl2 : Py.Mono) (_x : Nat) (__s : LoopSt) : Py.M (ForInStep LoopSt) :=
  if (!(decide (__s.snd.snd.fst < Int.ofNat (List.length fl1)) ||
        decide (__s.snd.snd.snd.fst < Int.ofNat (List.length fl2)))) = true then
    Except.ok (ForInStep.done
      (__s.fst, __s.snd.fst, __s.snd.snd.fst, __s.snd.snd.snd.fst, __s.snd.snd.snd.snd.fst, __s.snd.snd.snd.snd.snd))
  else
    Except.bind
      (if decide (__s.snd.snd.fst < Int.ofNat (List.length fl1)) = true then Py.getItem fl1 __s.snd.snd.fst
       else Except.ok Py.Atom.none)
      fun f1 =>
      Except.bind
        (if decide (__s.snd.snd.snd.fst < Int.ofNat (List.length fl2)) = true then Py.getItem fl2 __s.snd.snd.snd.fst
         else Except.ok Py.Atom.none)
        fun f2 =>
        if (f1 == f2) = true then
          Except.ok (ForInStep.yield (__s.fst, __s.snd.fst, __s.snd.snd.fst + 1, __s.snd.snd.snd.fst + 1, f1, f2))
        else
          Except.bind
            (Py.orM f2.isNone (if (!f1.isNone) = true then f1.lt f2 else Except.ok false))
            fun c =>
            if c = true then
              Except.ok (ForInStep.yield (__s.fst ++ [f1], __s.snd.fst, __s.snd.snd.fst + 1, __s.snd.snd.snd.fst, f1, f2))
            else
              Except.ok (ForInStep.yield (__s.fst, __s.snd.fst ++ [f2], __s.snd.snd.fst, __s.snd.snd.snd.fst + 1, f1, f2))


theorem ofNat_lt_iff (p n : Nat) : decide (Int.ofNat p < Int.ofNat n) = decide (p < n) := by
  simp only [decide_eq_decide]; exact Int.ofNat_lt
theorem ofNat_succ (p : Nat) : Int.ofNat p + 1 = Int.ofNat (p + 1) := rfl

theorem strA_beq (x y : String) : (strA x == strA y) = (x == y) := by
  rw [Bool.eq_iff_iff]
  simp [strA, String.toList_inj]
theorem strA_lt (x y : String) : Py.Atom.lt (strA x) (strA y) = .ok (decide (x < y)) := by
  simp only [strA, Py.Atom.lt, pure, Except.pure, String.lt_iff]

theorem step_done (fl1 fl2 : Py.Mono) (x : Nat) (k1 k2 : Py.Mono) (p1 p2 : Nat) (f1 f2 : Py.Atom)
    (h1 : fl1.length ≤ p1) (h2 : fl2.length ≤ p2) :
    loopBody fl1 fl2 x (k1, k2, Int.ofNat p1, Int.ofNat p2, f1, f2) =
      .ok (.done (k1, k2, Int.ofNat p1, Int.ofNat p2, f1, f2)) := by
  have e1 : decide (p1 < fl1.length) = false := by simp; omega
  have e2 : decide (p2 < fl2.length) = false := by simp; omega
  simp only [loopBody, ofNat_lt_iff, e1, e2]
  rfl

theorem step_right (fl1 fl2 : Py.Mono) (x : Nat) (k1 k2 : Py.Mono) (p1 p2 : Nat) (f1 f2 : Py.Atom)
    (y : String) (t : Py.Mono) (h1 : fl1.length ≤ p1) (h2 : fl2.drop p2 = strA y :: t) :
    loopBody fl1 fl2 x (k1, k2, Int.ofNat p1, Int.ofNat p2, f1, f2) =
      .ok (.yield (k1, k2 ++ [strA y], Int.ofNat p1, Int.ofNat (p2 + 1), .none, strA y)) := by
  obtain ⟨hn, hy, _⟩ := drop_cons_info _ _ _ _ h2
  have e1 : decide (p1 < fl1.length) = false := by simp; omega
  have e2 : decide (p2 < fl2.length) = true := by simp; omega
  simp only [loopBody, ofNat_lt_iff, e1, e2, getItem_nat _ _ hn, hy]
  rfl

theorem step_left (fl1 fl2 : Py.Mono) (x : Nat) (k1 k2 : Py.Mono) (p1 p2 : Nat) (f1 f2 : Py.Atom)
    (a : String) (t : Py.Mono) (h1 : fl1.drop p1 = strA a :: t) (h2 : fl2.length ≤ p2) :
    loopBody fl1 fl2 x (k1, k2, Int.ofNat p1, Int.ofNat p2, f1, f2) =
      .ok (.yield (k1 ++ [strA a], k2, Int.ofNat (p1 + 1), Int.ofNat p2, strA a, .none)) := by
  obtain ⟨hn, hy, _⟩ := drop_cons_info _ _ _ _ h1
  have e1 : decide (p1 < fl1.length) = true := by simp; omega
  have e2 : decide (p2 < fl2.length) = false := by simp; omega
  simp only [loopBody, ofNat_lt_iff, e1, e2, getItem_nat _ _ hn, hy]
  rfl

theorem step_both (fl1 fl2 : Py.Mono) (x : Nat) (k1 k2 : Py.Mono) (p1 p2 : Nat) (f1 f2 : Py.Atom)
    (a b : String) (t1 t2 : Py.Mono) (h1 : fl1.drop p1 = strA a :: t1) (h2 : fl2.drop p2 = strA b :: t2) :
    loopBody fl1 fl2 x (k1, k2, Int.ofNat p1, Int.ofNat p2, f1, f2) =
      .ok (.yield (if a == b then (k1, k2, Int.ofNat (p1 + 1), Int.ofNat (p2 + 1), strA a, strA b)
        else if a < b then (k1 ++ [strA a], k2, Int.ofNat (p1 + 1), Int.ofNat p2, strA a, strA b)
        else (k1, k2 ++ [strA b], Int.ofNat p1, Int.ofNat (p2 + 1), strA a, strA b))) := by
  obtain ⟨hn1, hy1, _⟩ := drop_cons_info _ _ _ _ h1
  obtain ⟨hn2, hy2, _⟩ := drop_cons_info _ _ _ _ h2
  have e1 : decide (p1 < fl1.length) = true := by simp; omega
  have e2 : decide (p2 < fl2.length) = true := by simp; omega
  simp only [loopBody, ofNat_lt_iff, e1, e2, getItem_nat _ _ hn1, getItem_nat _ _ hn2, hy1, hy2, strA_beq, ebind_ok,
    Bool.or_self, Bool.not_true, Bool.false_eq_true, ↓reduceIte]
  cases hab : (a == b)
  · have : (strA b).isNone = false := rfl
    have : (strA a).isNone = false := rfl
    simp only [Py.orM, *, Bool.not_false, ↓reduceIte, strA_lt, ebind_ok, Bool.false_eq_true]
    by_cases hlt : a < b <;> simp only [hlt, decide_true, decide_false, ↓reduceIte, Bool.false_eq_true] <;> rfl
  · rfl

theorem cancelVars_nil_left (b : List String) : RPoly.cancelVars [] b = ([], b) := by
  unfold RPoly.cancelVars; rfl
theorem cancelVars_nil_right (a : List String) : RPoly.cancelVars a [] = (a, []) := by
  cases a <;> (unfold RPoly.cancelVars; rfl)
theorem cancelVars_cons (x y : String) (a b : List String) :
    RPoly.cancelVars (x :: a) (y :: b) =
      if x == y then RPoly.cancelVars a b
      else if x < y then (x :: (RPoly.cancelVars a (y :: b)).1, (RPoly.cancelVars a (y :: b)).2)
      else ((RPoly.cancelVars (x :: a) b).1, y :: (RPoly.cancelVars (x :: a) b).2) := by
  rw [RPoly.cancelVars]

theorem drop_nil_len {α} (l : List α) (n : Nat) (h : l.drop n = []) : l.length ≤ n := by
  simpa using h

theorem forIn_step_yield {σ : Type} (x : Nat) (l : List Nat) (init b : σ) (f : Nat → σ → Py.M (ForInStep σ))
    (h : f x init = .ok (.yield b)) : forIn (x :: l) init f = forIn l b f := by
  rw [List.forIn_cons, h]; rfl
theorem forIn_step_done {σ : Type} (x : Nat) (l : List Nat) (init b : σ) (f : Nat → σ → Py.M (ForInStep σ))
    (h : f x init = .ok (.done b)) : forIn (x :: l) init f = .ok b := by
  rw [List.forIn_cons, h]; rfl

theorem loop_spec (fl1 fl2 : Py.Mono) (l : List Nat) :
    ∀ (a b : List String) (k1 k2 : Py.Mono) (p1 p2 : Nat) (f1 f2 : Py.Atom),
      fl1.drop p1 = a.map strA → fl2.drop p2 = b.map strA → a.length + b.length ≤ l.length →
      ∃ (q1 q2 : Nat) (g1 g2 : Py.Atom), fl1.length ≤ q1 ∧ fl2.length ≤ q2 ∧
        forIn l ((k1, k2, Int.ofNat p1, Int.ofNat p2, f1, f2) : LoopSt) (loopBody fl1 fl2) =
          .ok (k1 ++ (RPoly.cancelVars a b).1.map strA, k2 ++ (RPoly.cancelVars a b).2.map strA,
            Int.ofNat q1, Int.ofNat q2, g1, g2) := by
  induction l with
  | nil =>
    intro a b k1 k2 p1 p2 f1 f2 h1 h2 hl
    rw [List.length_nil] at hl
    have ha : a = [] := List.eq_nil_of_length_eq_zero (by omega)
    have hb : b = [] := List.eq_nil_of_length_eq_zero (by omega)
    subst ha; subst hb
    refine ⟨p1, p2, f1, f2, drop_nil_len _ _ h1, drop_nil_len _ _ h2, ?_⟩
    simp [cancelVars_nil_left, pure, Except.pure]
  | cons x l ih =>
    intro a b k1 k2 p1 p2 f1 f2 h1 h2 hl
    rw [List.length_cons] at hl
    cases a with
    | nil =>
      cases b with
      | nil =>
        refine ⟨p1, p2, f1, f2, drop_nil_len _ _ h1, drop_nil_len _ _ h2, ?_⟩
        rw [forIn_step_done _ _ _ _ _ (step_done _ _ _ _ _ _ _ _ _ (drop_nil_len _ _ h1) (drop_nil_len _ _ h2))]
        simp [cancelVars_nil_left]
      | cons y b =>
        rw [forIn_step_yield _ _ _ _ _ (step_right _ _ _ _ _ _ _ _ _ y _ (drop_nil_len _ _ h1) h2)]
        obtain ⟨_, _, h2'⟩ := drop_cons_info _ _ _ _ h2
        obtain ⟨q1, q2, g1, g2, hq1, hq2, h⟩ := ih [] b k1 (k2 ++ [strA y]) p1 (p2 + 1) .none (strA y) h1 h2'
          (by simp only [List.length_cons, List.length_nil] at hl ⊢; omega)
        refine ⟨q1, q2, g1, g2, hq1, hq2, ?_⟩
        rw [h]
        simp [cancelVars_nil_left]
    | cons xa a =>
      cases b with
      | nil =>
        rw [forIn_step_yield _ _ _ _ _ (step_left _ _ _ _ _ _ _ _ _ xa _ h1 (drop_nil_len _ _ h2))]
        obtain ⟨_, _, h1'⟩ := drop_cons_info _ _ _ _ h1
        obtain ⟨q1, q2, g1, g2, hq1, hq2, h⟩ := ih a [] (k1 ++ [strA xa]) k2 (p1 + 1) p2 (strA xa) .none h1' h2
          (by simp only [List.length_cons, List.length_nil] at hl ⊢; omega)
        refine ⟨q1, q2, g1, g2, hq1, hq2, ?_⟩
        rw [h]
        simp [cancelVars_nil_right]
      | cons y b =>
        have hstep := step_both fl1 fl2 x k1 k2 p1 p2 f1 f2 xa y _ _ h1 h2
        rw [cancelVars_cons]
        obtain ⟨_, _, h1'⟩ := drop_cons_info _ _ _ _ h1
        obtain ⟨_, _, h2'⟩ := drop_cons_info _ _ _ _ h2
        simp only [List.length_cons] at hl
        cases hab : (xa == y)
        · by_cases hlt : xa < y
          · simp only [hab, hlt, ↓reduceIte, Bool.false_eq_true] at hstep ⊢
            rw [forIn_step_yield _ _ _ _ _ hstep]
            obtain ⟨q1, q2, g1, g2, hq1, hq2, h⟩ := ih a (y :: b) (k1 ++ [strA xa]) k2 (p1 + 1) p2 (strA xa) (strA y) h1' h2
              (by simp only [List.length_cons]; omega)
            refine ⟨q1, q2, g1, g2, hq1, hq2, ?_⟩
            rw [h]
            simp
          · simp only [hab, hlt, ↓reduceIte, Bool.false_eq_true] at hstep ⊢
            rw [forIn_step_yield _ _ _ _ _ hstep]
            obtain ⟨q1, q2, g1, g2, hq1, hq2, h⟩ := ih (xa :: a) b k1 (k2 ++ [strA y]) p1 (p2 + 1) (strA xa) (strA y) h1 h2'
              (by simp only [List.length_cons]; omega)
            refine ⟨q1, q2, g1, g2, hq1, hq2, ?_⟩
            rw [h]
            simp
        · simp only [hab, ↓reduceIte] at hstep ⊢
          rw [forIn_step_yield _ _ _ _ _ hstep]
          exact ih a b k1 k2 (p1 + 1) (p2 + 1) (strA xa) (strA y) h1' h2' (by omega)

theorem atomsOf_drop_one (m : Mono) : (atomsOf m).drop 1 = m.vars.map strA := rfl
theorem atomsOf_length (m : Mono) : (atomsOf m).length = m.vars.length + 1 := by
  simp [atomsOf]

/-- the common-factor loop with its fuel check and the construction of the result, on two embedded monomials -/
theorem mul_tail (f1 f2 : Mono) :
    Except.bind
      (forIn (List.range ((atomsOf f1).length + (atomsOf f2).length))
        (([Py.Atom.num f1.coeff], [Py.Atom.num f2.coeff], 1, 1, Py.Atom.none, Py.Atom.none) : LoopSt)
        (loopBody (atomsOf f1) (atomsOf f2)))
      (fun __s =>
        if (decide (__s.snd.snd.fst < Int.ofNat (List.length (atomsOf f1))) ||
            decide (__s.snd.snd.snd.fst < Int.ofNat (List.length (atomsOf f2)))) = true then
          Except.bind (throw "FUEL") fun (_ : PUnit) => Except.ok (([__s.fst], [__s.snd.fst]) : Py.Rat)
        else Except.ok ([__s.fst], [__s.snd.fst])) =
    Except.ok ([atomsOf ⟨f1.coeff, (RPoly.cancelVars f1.vars f2.vars).1⟩],
      [atomsOf ⟨f2.coeff, (RPoly.cancelVars f1.vars f2.vars).2⟩]) := by
  obtain ⟨q1, q2, g1, g2, hq1, hq2, h⟩ := loop_spec (atomsOf f1) (atomsOf f2)
    (List.range ((atomsOf f1).length + (atomsOf f2).length)) f1.vars f2.vars
    [Py.Atom.num f1.coeff] [Py.Atom.num f2.coeff] 1 1 .none .none (atomsOf_drop_one f1) (atomsOf_drop_one f2)
    (by simp only [List.length_range, atomsOf_length]; omega)
  have h' : forIn (List.range ((atomsOf f1).length + (atomsOf f2).length))
        (([Py.Atom.num f1.coeff], [Py.Atom.num f2.coeff], 1, 1, Py.Atom.none, Py.Atom.none) : LoopSt)
        (loopBody (atomsOf f1) (atomsOf f2)) = _ := h
  rw [h', ebind_ok]
  have e1 : decide (q1 < (atomsOf f1).length) = false := by simp; omega
  have e2 : decide (q2 < (atomsOf f2).length) = false := by simp; omega
  simp only [ofNat_lt_iff, e1, e2]
  rfl

theorem ofNat_beq_one (a : Nat) : (Int.ofNat a == 1) = (a == 1) := ofNat_beq a 1
theorem if_ok_and (a b : Bool) :
    (if a = true then (Except.ok b : Py.M Bool) else Except.ok false) = Except.ok (a && b) := by cases a <;> rfl
theorem getItem_single {α : Type} (x : α) : Py.getItem [x] 0 = .ok x := rfl
theorem getItem_atomsOf_zero (m : Mono) : Py.getItem (atomsOf m) 0 = .ok (.num m.coeff) :=
  getItem_nat (atomsOf m) 0 (by rw [atomsOf_length]; omega)

theorem add_tail (nn nd : Poly) :
    (if KP.eqZero nn = true then Except.ok (([], [[Py.Atom.num 1]]) : Py.Rat)
    else
      (if (nn.length == nd.length) = true then Except.ok (KP.eq nn nd) else Except.ok false : Py.M Bool).bind fun v =>
        if v = true then Except.ok ([[Py.Atom.num 1]], [[Py.Atom.num 1]])
        else Except.ok (polyOf nn, polyOf nd)) =
    Except.ok (polyOf (if KP.eqZero nn = true then RPoly.zero
            else if (nn.length == nd.length && KP.eq nn nd) = true then RPoly.one
              else { numer := nn, denom := nd }).numer,
        polyOf (if KP.eqZero nn = true then RPoly.zero
            else if (nn.length == nd.length && KP.eq nn nd) = true then RPoly.one
              else { numer := nn, denom := nd }).denom) := by
  cases KP.eqZero nn
  · cases (nn.length == nd.length)
    · rfl
    · cases KP.eq nn nd <;> rfl
  · rfl

theorem add_main (r s : RPoly) : SrcPoly.rat_add (ratOf r) (ratOf s) = .ok (ratOf (RPoly.add r s)) := by
  unfold SrcPoly.rat_add RPoly.add
  simp only [rat_eq_int_zero, bind, ebind_ok, pure, Except.pure]
  cases h1 : RPoly.eqZero s
  · cases h2 : RPoly.eqZero r
    · simp only [ratOf, poly_eq_eq, polyOf_length, ofNat_beq, Py.andM, poly_add_eq, poly_mul_eq, poly_eq_int_zero, pure,
        Except.pure, ebind_ok]
      cases h3 : (r.denom.length == s.denom.length) <;> cases h4 : KP.eq r.denom s.denom <;>
        simp only [↓reduceIte, Bool.false_eq_true, Bool.false_and, Bool.and_self, Bool.and_false, ebind_ok] <;>
        exact add_tail _ _
    · simp
  · simp

theorem mul_main (r s : RPoly) : SrcPoly.rat_mul (ratOf r) (ratOf s) = .ok (ratOf (RPoly.mul r s)) := by
  unfold SrcPoly.rat_mul RPoly.mul
  simp only [rat_eq_int_zero, rat_eq_int_one, bind, ebind_ok, pure, Except.pure]
  simp only [ratOf, poly_eq_eq, polyOf_length, ofNat_beq, ofNat_beq_one, Py.andM, poly_mul_eq, poly_eq_int_zero, pure,
    Except.pure, if_ok_and, ebind_ok]
  generalize KP.mul r.numer s.numer = numer
  generalize KP.mul r.denom s.denom = denom
  cases h1 : RPoly.eqZero r <;> simp only [↓reduceIte, Bool.false_eq_true]
  cases h2 : RPoly.eqZero s <;> simp only [↓reduceIte, Bool.false_eq_true]
  cases h3 : RPoly.eqOne s <;> simp only [↓reduceIte, Bool.false_eq_true]
  cases h4 : RPoly.eqOne r <;> simp only [↓reduceIte, Bool.false_eq_true]
  cases h5 : KP.eqZero numer <;> simp only [↓reduceIte, Bool.false_eq_true]
  · cases h6 : (numer.length == denom.length && KP.eq numer denom) <;> simp only [↓reduceIte, Bool.false_eq_true]
    · rcases numer with _ | ⟨f1, _ | ⟨f1', n'⟩⟩
      · rfl
      · rcases denom with _ | ⟨f2, _ | ⟨f2', d'⟩⟩
        · rfl
        · simp only [polyOf, List.map_cons, List.map_nil, getItem_single, getItem_atomsOf_zero, ebind_ok]
          exact mul_tail f1 f2
        · rfl
      · rfl
    · rfl
  · rfl

/-- `rat_mul_int` is `rat_mul` after the binding `other = RationalPolynomial([[other]])` -/
theorem rat_mul_int_unfold (self : Py.Rat) (n : Int) :
    SrcPoly.rat_mul_int self n = SrcPoly.rat_mul self ([[Py.Atom.num n]], [[Py.Atom.num 1]]) := rfl

end RatAux

theorem rat_add_eq (r s : RPoly) : SrcPoly.rat_add (ratOf r) (ratOf s) = .ok (ratOf (RPoly.add r s)) :=
  RatAux.add_main r s

/-- `r * s`, including the common-factor removal loop (terminates within `len(fl1) + len(fl2)` iterations) -/
theorem rat_mul_eq (r s : RPoly) : SrcPoly.rat_mul (ratOf r) (ratOf s) = .ok (ratOf (RPoly.mul r s)) :=
  RatAux.mul_main r s
/-- `r * n` with a python int: `other = RationalPolynomial([[n]])` -/
theorem rat_mul_int_eq (r : RPoly) (n : Int) :
    SrcPoly.rat_mul_int (ratOf r) n = .ok (ratOf (RPoly.mul r (RPoly.ofPoly [⟨n, []⟩]))) := by
  rw [RatAux.rat_mul_int_unfold]
  exact rat_mul_eq r (RPoly.ofPoly [⟨n, []⟩])

/-- `r.inv()`: the python int `0` for a zero argument (`none`), the swapped pair otherwise -/
theorem rat_inv_eq (r : RPoly) : SrcPoly.rat_inv (ratOf r) = .ok ((RPoly.inv r).map ratOf) := by
  unfold SrcPoly.rat_inv
  simp only [rat_eq_int_zero, bind, Except.bind, RPoly.inv]
  cases RPoly.eqZero r <;> simp [ratOf, pure, Except.pure]
theorem rat_neg_eq (r : RPoly) : SrcPoly.rat_neg (ratOf r) = .ok (ratOf (RPoly.neg r)) := by
  unfold SrcPoly.rat_neg
  simp only [ratOf, poly_neg_eq, bind, Except.bind, pure, Except.pure, RPoly.neg]
theorem rat_sub_eq (r s : RPoly) : SrcPoly.rat_sub (ratOf r) (ratOf s) = .ok (ratOf (RPoly.sub r s)) := by
  unfold SrcPoly.rat_sub
  simp only [rat_neg_eq, rat_add_eq, bind, Except.bind, RPoly.sub]
theorem rat_div_eq (r s : RPoly) : SrcPoly.rat_div (ratOf r) (ratOf s) = .ok (ratOf (RPoly.div r s)) := by
  unfold SrcPoly.rat_div
  simp only [rat_inv_eq, bind, Except.bind, RPoly.div]
  cases h : RPoly.inv s with
  | none =>
    simp only [Option.map, rat_mul_int_eq, RPoly.mul]
    have : RPoly.eqZero (RPoly.ofPoly [⟨0, []⟩]) = true := by decide
    simp only [this]
    cases RPoly.eqZero r <;> simp
  | some si => simp only [Option.map, rat_mul_eq]
theorem rat_rdiv_int_eq (r : RPoly) (n : Int) : SrcPoly.rat_rdiv_int (ratOf r) n = .ok (ratOf (RPoly.rdivInt n r)) := by
  unfold SrcPoly.rat_rdiv_int
  simp only [ratOf, poly_mul_int_eq, bind, Except.bind, pure, Except.pure, RPoly.rdivInt]
theorem rat_bool_eq (r : RPoly) : SrcPoly.rat_bool (ratOf r) = .ok (RPoly.toBool r) := by
  unfold SrcPoly.rat_bool
  simp only [ratOf, poly_bool_eq, RPoly.toBool]

end Kingdon.SrcPolyEq

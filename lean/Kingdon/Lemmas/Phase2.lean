import Kingdon.Lemmas.SwapBlades
import Mathlib.Data.List.Perm.Basic
import Mathlib.Data.List.InsertIdx
namespace Kingdon

theorem insertIdx_append_length (pre l : List Nat) (c : Nat) :
    (pre ++ l).insertIdx pre.length c = pre ++ c :: l := by
  induction pre with
  | nil => simp
  | cons a pre ih => simp [List.insertIdx_succ_cons, ih]

theorem phase2_sound (sig : List Int) : ∀ (tgt pre rest : List Nat) (sw : Nat),
    (pre ++ rest).Nodup → Valid sig (pre ++ rest) → tgt.Perm rest →
    ∃ n, phase2 (pre ++ rest) tgt pre.length sw = (pre ++ tgt, sw + n) ∧
      evalWord sig (pre ++ rest) = SB.smul ((-1) ^ n) (evalWord sig (pre ++ tgt)) := by
  intro tgt
  induction tgt with
  | nil =>
    intro pre rest sw _ _ hp
    have : rest = [] := by simpa using hp.symm.eq_nil
    subst this
    exact ⟨0, by simp [phase2], by simp [SB.one_smul]⟩
  | cons c t ih =>
    intro pre rest sw hnd hv hp
    have hc : c ∈ rest := hp.subset (by simp)
    obtain ⟨r1, r2, rfl⟩ := List.append_of_mem hc
    have hcpre : c ∉ pre := by
      intro h; exact (List.nodup_append.mp hnd).2.2 c h c (by simp) rfl
    have hr : (r1 ++ c :: r2).Nodup := (List.nodup_append.mp hnd).2.1
    have hcr1 : c ∉ r1 := by
      intro h; exact (List.nodup_append.mp hr).2.2 c h c (by simp) rfl
    have hidx : (pre ++ (r1 ++ c :: r2)).idxOf c = pre.length + r1.length := by
      rw [List.idxOf_append_of_notMem hcpre, List.idxOf_append_of_notMem hcr1]; simp
    have hpt : t.Perm (r1 ++ r2) := by
      have : (c :: t).Perm (c :: (r1 ++ r2)) := hp.trans List.perm_middle
      exact List.Perm.cons_inv this
    have herase : (pre ++ (r1 ++ c :: r2)).eraseIdx (pre.length + r1.length) = pre ++ (r1 ++ r2) := by
      have : pre ++ (r1 ++ c :: r2) = (pre ++ r1) ++ c :: r2 := by simp
      rw [this, List.eraseIdx_append_of_length_le (by simp)]; simp
    have hins : (pre ++ (r1 ++ r2)).insertIdx pre.length c = (pre ++ [c]) ++ (r1 ++ r2) := by
      rw [insertIdx_append_length]; simp
    have hnd' : ((pre ++ [c]) ++ (r1 ++ r2)).Nodup := by
      have : ((pre ++ [c]) ++ (r1 ++ r2)).Perm (pre ++ (r1 ++ c :: r2)) := by
        simp only [List.append_assoc, List.singleton_append]
        exact List.Perm.append_left pre List.perm_middle.symm
      exact this.nodup_iff.mpr hnd
    have hv' : Valid sig ((pre ++ [c]) ++ (r1 ++ r2)) := by
      intro x hx; apply hv x
      simp only [List.mem_append, List.mem_singleton, List.mem_cons] at hx ⊢; tauto
    obtain ⟨n, e1, e2⟩ := ih (pre ++ [c]) (r1 ++ r2) (sw + r1.length) hnd' hv' hpt
    refine ⟨r1.length + n, ?_, ?_⟩
    · simp only [phase2, hidx, herase, hins]
      have : pre.length + r1.length - pre.length = r1.length := by omega
      rw [this]
      have hl : (pre ++ [c]).length = pre.length + 1 := by simp
      rw [hl] at e1; rw [e1]; simp; omega
    · have hcl : c < sig.length := hv c (by simp)
      have hv1 : Valid sig r1 := fun x hx => hv x (by simp [hx])
      rw [move_front' sig c pre r1 r2 hcl hv1 hcr1]
      have : pre ++ c :: (r1 ++ r2) = (pre ++ [c]) ++ (r1 ++ r2) := by simp
      rw [this, e2, SB.smul_smul]
      have : pre ++ [c] ++ t = pre ++ c :: t := by simp
      rw [this, Int.pow_add]

/-- The string algorithm of kingdon computes the Clifford product of two blade words:
    `e_{b1} e_{b2} = (-1)^swaps * prod(sig[eliminated]) * e_{target}`. -/
theorem swapBlades_sound (sig : List Int) (b1 b2 target : List Nat)
    (h1 : b1.Nodup) (hv1 : Valid sig b1) (hv2 : Valid sig b2)
    (ht : target.Perm (phase1 b1 b2 0 []).1) :
    let r := swapBlades b1 b2 target
    r.2.1 = target ∧
    evalWord sig (b1 ++ b2) = SB.smul ((-1) ^ r.1 * prodSig sig r.2.2) (evalWord sig target) := by
  obtain ⟨n, new, e1, e2, e3, e4, e5⟩ := phase1_sound sig b2 b1 0 [] h1 hv1 hv2
  obtain ⟨m, f1, f2⟩ := phase2_sound sig target [] (phase1 b1 b2 0 []).1 (phase1 b1 b2 0 []).2.1
    (by simpa using e3) (by simpa using e4) ht
  simp only [List.nil_append, List.length_nil] at f1 f2
  simp only [swapBlades, f1]
  refine ⟨trivial, ?_⟩
  rw [e5, f2, SB.smul_smul, e1, e2]
  congr 1
  simp [Int.pow_add]; grind

end Kingdon

/-
  The translated naming part of `Algebra.__post_init__` (the `if self.basis: … else: …` statement that builds
  `start_index`, `canon2bin` and `bin2canon`) computes the model's configuration `Cfg.default` / `Cfg.custom`.
-/
import Kingdon.Lemmas.SourceBase
import Kingdon.Lemmas.CfgSign
import Kingdon.Lemmas.SourceMatrix
import Kingdon.Lemmas.SourceBlades
import Kingdon.Lemmas.SourceLinear
import Kingdon.Lemmas.Keys
namespace Kingdon.SrcEq
open Kingdon

/-! ### `sorted` -/
section sorted
variable {α κ : Type} [Py.PyOrd κ] (key : α → κ)

theorem insertByKey_perm (x : α) (l : List α) : (Py.insertByKey key x l).Perm (x :: l) := by
  induction l with
  | nil => exact List.Perm.refl _
  | cons y ys ih =>
    simp only [Py.insertByKey]
    split
    · exact List.Perm.refl _
    · exact (List.Perm.cons y ih).trans (List.Perm.swap x y ys)

theorem foldl_insertByKey_perm (l acc : List α) :
    (l.foldl (fun acc x => Py.insertByKey key x acc) acc).Perm (acc ++ l) := by
  induction l generalizing acc with
  | nil => simp
  | cons x l ih =>
    rw [List.foldl_cons]
    refine (ih _).trans ?_
    refine ((insertByKey_perm key x acc).append_right l).trans ?_
    simpa using (List.perm_middle (l₁ := acc) (l₂ := l) (a := x)).symm

theorem sorted_perm (l : List α) : (Py.sorted key l).Perm l := by
  simpa [Py.sorted] using foldl_insertByKey_perm key l []

theorem insertByKey_pairwise (le : α → α → Prop) (P : α → Prop)
    (htot : ∀ a b, le a b ∨ le b a) (htr : ∀ a b c, le a b → le b c → le a c)
    (hk : ∀ x y, P x → P y → (Py.PyOrd.lt (key x) (key y) = true ↔ ¬ le y x))
    (x : α) (l : List α) (hx : P x) (hl : ∀ y ∈ l, P y) (hs : l.Pairwise le) :
    (Py.insertByKey key x l).Pairwise le := by
  induction l with
  | nil => simp [Py.insertByKey]
  | cons y ys ih =>
    have hy := hl y (by simp)
    rw [List.pairwise_cons] at hs
    simp only [Py.insertByKey]
    split
    · next hlt =>
      have hxy : le x y := by
        rcases htot x y with h | h
        · exact h
        · exact absurd h ((hk x y hx hy).mp hlt)
      refine List.Pairwise.cons ?_ (List.Pairwise.cons hs.1 hs.2)
      intro z hz
      rcases List.mem_cons.mp hz with rfl | hz
      · exact hxy
      · exact htr _ _ _ hxy (hs.1 z hz)
    · next hlt =>
      have hyx : le y x := by
        by_contra hn
        exact hlt ((hk x y hx hy).mpr hn)
      refine List.Pairwise.cons ?_ (ih (fun z hz => hl z (by simp [hz])) hs.2)
      intro z hz
      rcases List.mem_cons.mp ((insertByKey_perm key x ys).mem_iff.mp hz) with rfl | hz
      · exact hyx
      · exact hs.1 z hz

theorem sorted_pairwise (le : α → α → Prop) (P : α → Prop)
    (htot : ∀ a b, le a b ∨ le b a) (htr : ∀ a b c, le a b → le b c → le a c)
    (hk : ∀ x y, P x → P y → (Py.PyOrd.lt (key x) (key y) = true ↔ ¬ le y x))
    (l : List α) (hl : ∀ y ∈ l, P y) : (Py.sorted key l).Pairwise le := by
  have aux : ∀ (l acc : List α), (∀ y ∈ l, P y) → (∀ y ∈ acc, P y) → acc.Pairwise le →
      (l.foldl (fun acc x => Py.insertByKey key x acc) acc).Pairwise le := by
    intro l
    induction l with
    | nil => intro acc _ _ h; exact h
    | cons x l ih =>
      intro acc h1 h2 h3
      rw [List.foldl_cons]
      apply ih _ (fun y hy => h1 y (by simp [hy]))
      · intro y hy
        rcases List.mem_cons.mp ((insertByKey_perm key x acc).mem_iff.mp hy) with rfl | hy
        · exact h1 _ (by simp)
        · exact h2 y hy
      · exact insertByKey_pairwise key le P htot htr hk x acc (h1 x (by simp)) h2 h3
  exact aux l [] hl (by simp) List.Pairwise.nil

theorem insertByKey_last (x : α) (l : List α) (h : ∀ y ∈ l, Py.PyOrd.lt (key x) (key y) = false) :
    Py.insertByKey key x l = l ++ [x] := by
  induction l with
  | nil => rfl
  | cons y ys ih =>
    simp only [Py.insertByKey, h y (by simp), Bool.false_eq_true, if_false, List.cons_append]
    rw [ih (fun z hz => h z (by simp [hz]))]

theorem sorted_id (l : List α) (h : l.Pairwise (fun a b => Py.PyOrd.lt (key b) (key a) = false)) :
    Py.sorted key l = l := by
  have aux : ∀ (l acc : List α), (acc ++ l).Pairwise (fun a b => Py.PyOrd.lt (key b) (key a) = false) →
      l.foldl (fun acc x => Py.insertByKey key x acc) acc = acc ++ l := by
    intro l
    induction l with
    | nil => intro acc _; simp
    | cons x l ih =>
      intro acc h
      rw [List.foldl_cons, insertByKey_last key x acc]
      · rw [ih _ (by simpa using h)]; simp
      · intro y hy
        rw [List.pairwise_append] at h
        exact h.2.2 y hy x (by simp)
  simpa [Py.sorted] using aux l [] (by simpa using h)

theorem sorted_map {β : Type} (f : β → α) (l : List β) :
    Py.sorted key (l.map f) = (Py.sorted (fun b => key (f b)) l).map f := by
  have ins : ∀ (x : β) (acc : List β), Py.insertByKey key (f x) (acc.map f) =
      (Py.insertByKey (fun b => key (f b)) x acc).map f := by
    intro x acc
    induction acc with
    | nil => rfl
    | cons y ys ih =>
      simp only [List.map_cons, Py.insertByKey]
      split
      · rfl
      · rw [ih]; rfl
  have aux : ∀ (l acc : List β), (l.map f).foldl (fun acc x => Py.insertByKey key x acc) (acc.map f) =
      (l.foldl (fun acc x => Py.insertByKey (fun b => key (f b)) x acc) acc).map f := by
    intro l
    induction l with
    | nil => intro acc; rfl
    | cons x l ih => intro acc; rw [List.map_cons, List.foldl_cons, List.foldl_cons, ins, ih]
  exact aux l []

end sorted

/-! ### dictionaries -/

theorem dictGet?_of_mem {κ ν : Type} [BEq κ] [LawfulBEq κ] (l : List (κ × ν)) (h : (l.map (·.1)).Nodup)
    (k : κ) (v : ν) (hm : (k, v) ∈ l) : Py.dictGet? l k = some v := by
  induction l with
  | nil => simp at hm
  | cons a l ih =>
    rw [List.map_cons, List.nodup_cons] at h
    unfold Py.dictGet? at ih ⊢
    rw [List.find?_cons]
    rcases List.mem_cons.mp hm with e | hm'
    · subst e; simp
    · have hne : (a.1 == k) = false := by
        simp only [beq_eq_false_iff_ne, ne_eq]
        intro e
        exact h.1 (e ▸ List.mem_map.mpr ⟨(k, v), hm', rfl⟩)
      rw [hne]
      exact ih h.2 hm'


/-! ### the translated statement, cut into its branches -/

/-- the `if self.basis:` branch after its three asserts -/
def namesTail (basis : List (List Char)) (s : Int) : Py.M (Int × Py.Dict (List Char) Int × Py.Dict Int (List Char)) := do
  let vecs := basis.filterMap (fun eJ => if (Py.len eJ == (2 : Int)) = true then some (Py.sliceFrom eJ 1) else none)
  let st ← (if Py.truthy vecs = true then do
      let m ← Py.minStr vecs
      Py.intOfHex m
    else pure s)
  let items ← basis.mapM (fun eJ => do
    let xs ← (Py.sliceFrom eJ 1).mapM (fun v =>
      Py.dictGet (Py.dictOf ((Py.enumerate vecs).map (fun x => (x.2, Py.pow 2 x.1)))) [v])
    pure (eJ, xs.foldl Py.xor 0))
  pure (st, Py.dictOf items, Py.dictOf ((Py.sorted (fun x => x.2) (Py.dictOf items)).map (fun x => (x.2, x.1))))

theorem post_init_else (d s : Int) :
    Src.post_init_names [] d s = .ok (s,
      Py.dictOf (Py.sorted (fun x => (Py.len x.1, x.1)) (Py.dictOf ((Py.dictOf ((Py.range 0 (Py.pow 2 d)).map (fun eJ => (eJ,
        ['e'] ++ (List.filterMap (fun x =>
            if Py.truthy (Py.bitLength (Py.land eJ (Py.pow 2 x))) = true then
              some (Py.hexStr (Py.bitLength (Py.land eJ (Py.pow 2 x)) + s - 1)) else none) (Py.range 0 d)).flatten)))).map
          (fun x => (x.2, x.1))))),
      Py.dictOf ((Py.range 0 (Py.pow 2 d)).map (fun eJ => (eJ,
        ['e'] ++ (List.filterMap (fun x =>
            if Py.truthy (Py.bitLength (Py.land eJ (Py.pow 2 x))) = true then
              some (Py.hexStr (Py.bitLength (Py.land eJ (Py.pow 2 x)) + s - 1)) else none) (Py.range 0 d)).flatten)))) := by
  rfl

theorem post_init_assert2 (basis : List (List Char)) (d s : Int) (h0 : Py.truthy basis = true)
    (h1 : (Py.len basis == Py.pow 2 d) = true) (h2 : (basis == Py.sorted Py.len basis) = false) :
    Src.post_init_names basis d s = .error "AssertionError" := by
  unfold Src.post_init_names
  simp only [h0, h1, h2, if_true, Bool.not_true, Bool.not_false, Bool.false_eq_true, if_false]
  rfl

theorem post_init_if (basis : List (List Char)) (d s : Int) (h0 : Py.truthy basis = true)
    (h1 : (Py.len basis == Py.pow 2 d) = true) (h2 : (basis == Py.sorted Py.len basis) = true)
    (bs : List Bool) (h3 : basis.mapM (fun eJ => do pure ((← Py.getItem eJ (0 : Int)) == 'e')) = (pure bs : Py.M _))
    (h4 : bs.all id = true) :
    Src.post_init_names basis d s = namesTail basis s := by
  unfold Src.post_init_names namesTail
  simp only [h0, h1, h2, h3, h4, if_true, Bool.not_true, Bool.false_eq_true, if_false, pure_bind]
  split
  · simp only [bind_assoc]
  · rfl

/-! ### the asserts -/

theorem truthy_map_pyName (basis : List (List Nat)) (hne : basis ≠ []) : Py.truthy (basis.map pyName) = true := by
  cases basis with
  | nil => exact absurd rfl hne
  | cons a l => rfl

theorem len_eq_pow (basis : List (List Nat)) (d : Nat) (hlen : basis.length = 2 ^ d) :
    (Py.len (basis.map pyName) == Py.pow 2 (Int.ofNat d)) = true := by
  rw [pow_two_ofNat]
  simp [Py.len, hlen]

theorem lt_len_iff (a b : List Char) : Py.PyOrd.lt (Py.len a) (Py.len b) = true ↔ ¬ b.length ≤ a.length := by
  show decide (Int.ofNat a.length < Int.ofNat b.length) = true ↔ _
  simp only [decide_eq_true_eq, Int.ofNat_eq_natCast]
  omega

theorem length_pyName (n : List Nat) : (pyName n).length = n.length + 1 := by simp [pyName]

/-- a basis that is not ordered by grade is rejected (`assert self.basis == sorted(self.basis, key=len)`) -/
theorem post_init_rejects_unsorted (basis : List (List Nat)) (d : Nat) (start0 : Int)
    (hne : basis ≠ []) (hlen : basis.length = 2 ^ d)
    (huns : ¬ (basis.map List.length).Pairwise (· ≤ ·)) :
    Src.post_init_names (basis.map pyName) (Int.ofNat d) start0 = .error "AssertionError" := by
  apply post_init_assert2 _ _ _ (truthy_map_pyName basis hne) (len_eq_pow basis d hlen)
  rw [Bool.eq_false_iff]
  intro he
  have he' : basis.map pyName = Py.sorted Py.len (basis.map pyName) := by simpa using he
  have hs := sorted_pairwise (Py.len (α := Char)) (fun a b => a.length ≤ b.length) (fun _ => True)
    (fun a b => Nat.le_total _ _) (fun a b c => Nat.le_trans) (fun x y _ _ => lt_len_iff x y)
    (basis.map pyName) (fun _ _ => trivial)
  rw [← he'] at hs
  apply huns
  rw [List.pairwise_map] at hs ⊢
  exact hs.imp (by intro a b h; simpa [length_pyName] using h)

/-! ### hex digits -/

theorem hexChar_toNat (a : Nat) (h : a < 16) : (hexChar a).toNat = if a < 10 then 48 + a else 87 + a := by
  rcases hexChar_cases a h with h|h|h|h|h|h|h|h|h|h|h|h|h|h|h|h <;> subst h <;> rfl

theorem hexChar_lt (a b : Nat) (ha : a < 16) (hb : b < 16) :
    Py.PyOrd.lt (hexChar a) (hexChar b) = decide (a < b) := by
  show decide ((hexChar a).toNat < (hexChar b).toNat) = _
  rw [hexChar_toNat a ha, hexChar_toNat b hb]
  apply decide_eq_decide.mpr
  split <;> split <;> omega

theorem hexChar_beq (a b : Nat) (ha : a < 16) (hb : b < 16) : (hexChar a == hexChar b) = decide (a = b) := by
  by_cases e : a = b
  · subst e; simp
  · have : hexChar a ≠ hexChar b := fun h => e (hexChar_injOn a b ha hb h)
    simp [e, this]

theorem hexStr_ofNat (n : Nat) (h : n < 16) : Py.hexStr (Int.ofNat n) = [hexChar n] := by
  rcases hexChar_cases n h with h|h|h|h|h|h|h|h|h|h|h|h|h|h|h|h <;> subst h <;> rfl

/-- `int(c, base=16)` of a single hex digit (`'0'..'9'`, `'a'..'f'`) is its value -/
theorem intOfHex_hexChar (v : Nat) (h : v < 16) : Py.intOfHex [hexChar v] = .ok (Int.ofNat v) := by
  rcases hexChar_cases v h with h|h|h|h|h|h|h|h|h|h|h|h|h|h|h|h <;> subst h <;> rfl

theorem listLt_map_hexChar : ∀ (a b : List Nat), (∀ x ∈ a, x < 16) → (∀ x ∈ b, x < 16) →
    Py.listLt (a.map hexChar) (b.map hexChar) = Cfg.lexLt a b := by
  intro a
  induction a with
  | nil => intro b _ _; cases b <;> rfl
  | cons x a ih =>
    intro b ha hb
    cases b with
    | nil => rfl
    | cons y b =>
      have hx := ha x (by simp)
      have hy := hb y (by simp)
      simp only [List.map_cons, Py.listLt, Cfg.lexLt, hexChar_lt x y hx hy, hexChar_beq x y hx hy,
        ih b (fun z hz => ha z (by simp [hz])) (fun z hz => hb z (by simp [hz]))]
      by_cases h1 : x < y
      · simp [h1]
      · by_cases h2 : y < x
        · have : ¬ x = y := by omega
          simp [h1, h2, this]
        · have : x = y := by omega
          simp [this]

/-- python's order on the sort key `(len(name), name)` is the model's `nameLe` -/
theorem keyLt_pyName (a b : List Nat) (ha : ∀ x ∈ a, x < 16) (hb : ∀ x ∈ b, x < 16) :
    Py.PyOrd.lt (Py.len (pyName a), pyName a) (Py.len (pyName b), pyName b) = !Cfg.nameLe b a := by
  show (decide (Int.ofNat (pyName a).length < Int.ofNat (pyName b).length) ||
    (Int.ofNat (pyName a).length == Int.ofNat (pyName b).length && Py.listLt (pyName a) (pyName b))) = _
  have hl : Py.listLt (pyName a) (pyName b) = Cfg.lexLt a b := by
    rw [← listLt_map_hexChar a b ha hb]
    unfold pyName
    simp [Py.listLt, Py.PyOrd.lt]
  rw [hl, length_pyName, length_pyName]
  unfold Cfg.nameLe
  simp only [Int.ofNat_eq_natCast]
  by_cases h1 : a.length < b.length
  · have h2 : ¬ b.length < a.length := by omega
    have : ((a.length : Int) + 1 < (b.length : Int) + 1) := by omega
    simp [h1, h2, this]
  · by_cases h2 : b.length < a.length
    · have : ¬ ((a.length : Int) + 1 < (b.length : Int) + 1) := by omega
      have h3 : ¬ ((a.length : Int) + 1 = (b.length : Int) + 1) := by omega
      simp [h1, h2]
      omega
    · have : a.length = b.length := by omega
      simp [this]

/-! ### the default names -/

theorem pyRange_zero (n : Nat) : Py.range 0 (Int.ofNat n) = (List.range n).map Int.ofNat := by
  unfold Py.range
  have e : (Int.ofNat n - 0).toNat = n := by simp
  rw [e]
  apply List.map_congr_left
  intro i _
  simp

theorem and_two_pow' (I i : Nat) : I &&& 2 ^ i = if I.testBit i then 2 ^ i else 0 := by
  apply Nat.eq_of_testBit_eq
  intro j
  rw [Nat.testBit_and, Nat.testBit_two_pow]
  by_cases e : i = j
  · subst e
    by_cases h : I.testBit i <;> simp [h]
  · by_cases h : I.testBit i <;> simp [h, e]

theorem bitLength_land (I i : Nat) :
    Py.bitLength (Py.land (Int.ofNat I) (Py.pow 2 (Int.ofNat i))) = if I.testBit i then Int.ofNat (i + 1) else 0 := by
  rw [pow_two_ofNat]
  show Py.bitLength (Int.ofNat (I &&& 2 ^ i)) = _
  rw [and_two_pow']
  by_cases h : I.testBit i
  · simp only [h, if_true]
    unfold Py.bitLength
    have : Int.ofNat (2 ^ i) ≠ 0 := by
      have := Nat.pow_pos (a := 2) (n := i) (by omega)
      simp only [Int.ofNat_eq_natCast, ne_eq]; omega
    rw [if_neg this]
    show Int.ofNat (Nat.log2 (2 ^ i) + 1) = _
    rw [Nat.log2_two_pow]
  · simp only [h, Bool.false_eq_true, if_false]
    rfl

/-- the name python spells for bitmask `I` -/
theorem default_spelling (start d I : Nat) (hstart : start + d ≤ 16) :
    ['e'] ++ (List.filterMap (fun x =>
        if Py.truthy (Py.bitLength (Py.land (Int.ofNat I) (Py.pow 2 x))) = true then
          some (Py.hexStr (Py.bitLength (Py.land (Int.ofNat I) (Py.pow 2 x)) + Int.ofNat start - 1)) else none)
        (Py.range 0 (Int.ofNat d))).flatten = pyName (Cfg.defaultName start d I) := by
  rw [pyRange_zero]
  unfold pyName Cfg.defaultName
  show 'e' :: _ = _
  congr 1
  have aux : ∀ (l : List Nat), (∀ i ∈ l, i < d) →
      (List.filterMap (fun x =>
        if Py.truthy (Py.bitLength (Py.land (Int.ofNat I) (Py.pow 2 x))) = true then
          some (Py.hexStr (Py.bitLength (Py.land (Int.ofNat I) (Py.pow 2 x)) + Int.ofNat start - 1)) else none)
        (l.map Int.ofNat)).flatten =
      (l.filterMap fun ei => if I.testBit ei then some (ei + start) else none).map hexChar := by
    intro l
    induction l with
    | nil => intro _; rfl
    | cons i l ih =>
      intro hl
      have ih' := ih (fun j hj => hl j (by simp [hj]))
      have hi := hl i (by simp)
      rw [List.map_cons, List.filterMap_cons, List.filterMap_cons, bitLength_land]
      by_cases h : I.testBit i
      · have e : (Int.ofNat (i + 1) + Int.ofNat start - 1) = Int.ofNat (i + start) := by
          simp only [Int.ofNat_eq_natCast]; omega
        have ht : Py.truthy (Int.ofNat (i + 1)) = true := by
          show (Int.ofNat (i + 1) != 0) = true
          simp only [Int.ofNat_eq_natCast, bne_iff_ne, ne_eq]; omega
        simp only [h, if_true, ht, e, List.flatten_cons, ih', List.map_cons]
        rw [hexStr_ofNat _ (by omega)]
        rfl
      · have ht : Py.truthy (0 : Int) = false := rfl
        simp only [h, Bool.false_eq_true, if_false, ht, ih']
  exact aux (List.range d) (fun i hi => List.mem_range.mp hi)

theorem default_vecs_nodup (d start : Nat) : ((List.range d).map (· + start)).Nodup :=
  List.Nodup.map (fun _ _ h => Nat.add_right_cancel h) List.nodup_range

theorem wordOf_defaultName' (sig : List Int) (start K : Nat) :
    (Cfg.default sig start).wordOf (Cfg.defaultName start sig.length K) =
      (List.range sig.length).filter (fun ei => K.testBit ei) := by
  have hv : (Cfg.default sig start).vecs = (List.range sig.length).map (· + start) := rfl
  have hnd : (Cfg.default sig start).vecs.Nodup := by rw [hv]; exact default_vecs_nodup _ _
  unfold Cfg.wordOf Cfg.defaultName
  rw [List.map_filterMap]
  rw [← List.filterMap_eq_filter]
  apply List.filterMap_congr
  intro ei hei
  have hlt : ei < sig.length := List.mem_range.mp hei
  have hlen : ei < (Cfg.default sig start).vecs.length := by rw [hv]; simpa using hlt
  have hidx := List.Nodup.idxOf_getElem hnd ei hlen
  have hget : (Cfg.default sig start).vecs[ei] = ei + start := by simp [hv]
  rw [hget] at hidx
  by_cases hb : K.testBit ei <;> simp [hb, hidx, Option.guard]

theorem binOf_defaultName (sig : List Int) (start I : Nat) (hI : I < 2 ^ sig.length) :
    (Cfg.default sig start).binOf (Cfg.defaultName start sig.length I) = I := by
  rw [Cfg.binOf_eq_bitsOf, wordOf_defaultName']
  apply Nat.eq_of_testBit_eq
  intro g
  rw [testBit_bitsOf _ (List.Nodup.sublist List.filter_sublist List.nodup_range)]
  by_cases hg : g < sig.length
  · simp [hg]
  · have hle : 2 ^ sig.length ≤ 2 ^ g := Nat.pow_le_pow_right (by omega) (by omega)
    rw [Nat.testBit_lt_two_pow (by omega)]
    simp [hg]

theorem defaultName_lt (start d I x : Nat) (hx : x ∈ Cfg.defaultName start d I) : x < start + d := by
  rw [defaultName_eq] at hx
  obtain ⟨i, hi, rfl⟩ := List.mem_map.mp hx
  have := List.mem_range.mp (List.mem_filter.mp hi).1
  omega

theorem mem_sortNames' (x : List Nat) (l : List (List Nat)) : x ∈ Cfg.sortNames l ↔ x ∈ l := by
  rw [sortNames_eq]
  exact (List.perm_insertionSort nameRel l).mem_iff

theorem nameOf_default (sig : List Int) (start I : Nat) (hI : I < 2 ^ sig.length) :
    (Cfg.default sig start).nameOf I = Cfg.defaultName start sig.length I := by
  have hb : (Cfg.default sig start).basis =
      Cfg.sortNames ((List.range (2 ^ sig.length)).map (Cfg.defaultName start sig.length)) := rfl
  unfold Cfg.nameOf
  cases hf : (Cfg.default sig start).basis.find? (fun n => (Cfg.default sig start).binOf n == I) with
  | none =>
    rw [List.find?_eq_none] at hf
    have hm : Cfg.defaultName start sig.length I ∈ (Cfg.default sig start).basis := by
      rw [hb, mem_sortNames']
      exact List.mem_map.mpr ⟨I, List.mem_range.mpr hI, rfl⟩
    exact absurd (by simpa using binOf_defaultName sig start I hI) (hf _ hm)
  | some m =>
    have h1 : (Cfg.default sig start).binOf m = I := by simpa using List.find?_some hf
    have h2 := List.mem_of_find?_eq_some hf
    rw [hb, mem_sortNames'] at h2
    obtain ⟨J, hJ, rfl⟩ := List.mem_map.mp h2
    rw [binOf_defaultName sig start J (List.mem_range.mp hJ)] at h1
    subst h1
    rfl

/-- `sorted(names, key=lambda x: (len(x), x))` on python strings is the model's `sortNames` -/
theorem sorted_names (names : List (List Nat)) (h16 : ∀ n ∈ names, ∀ x ∈ n, x < 16) :
    Py.sorted (fun n => (Py.len (pyName n), pyName n)) names = Cfg.sortNames names := by
  rw [sortNames_eq]
  apply List.Perm.eq_of_pairwise (le := nameRel) (fun a b _ _ => nameRel_antisymm a b)
  · apply sorted_pairwise _ nameRel (fun n => ∀ x ∈ n, x < 16) (fun a b => Std.Total.total a b)
      (fun a b c => IsTrans.trans a b c) _ names h16
    intro x y hx hy
    rw [keyLt_pyName x y hx hy]
    unfold nameRel
    simp
  · exact List.pairwise_insertionSort nameRel _
  · exact (sorted_perm _ names).trans (List.perm_insertionSort nameRel names).symm

/-- **default basis**: with no `basis` given, the python builds, without raising, exactly the names of `Cfg.default` in
    exactly its canonical order (`canon2bin` as an ordered dict), and a `bin2canon` that maps every bitmask to its name;
    `start_index` is left alone.  Labels must be single hex digits (`start + d ≤ 16`). -/
theorem post_init_default_eq (sig : List Int) (start : Nat) (hstart : start + sig.length ≤ 16) :
    ∃ b2c, Src.post_init_names [] (Int.ofNat sig.length) (Int.ofNat start) =
        .ok (Int.ofNat start, (Cfg.default sig start).basis.map (fun n => (pyName n, Int.ofNat ((Cfg.default sig start).binOf n))), b2c) ∧
      ∀ I, I < 2 ^ sig.length →
        Py.dictGet? b2c (Int.ofNat I) = some (pyName ((Cfg.default sig start).nameOf I)) := by
  let dn := Cfg.defaultName start sig.length
  let names := (List.range (2 ^ sig.length)).map dn
  let f : List Nat → List Char × Int := fun n => (pyName n, Int.ofNat ((Cfg.default sig start).binOf n))
  let B : List (Int × List Char) := (List.range (2 ^ sig.length)).map (fun I => (Int.ofNat I, pyName (dn I)))
  have h16 : ∀ n ∈ names, ∀ x ∈ n, x < 16 := by
    intro n hn x hx
    obtain ⟨I, _, rfl⟩ := List.mem_map.mp hn
    have := defaultName_lt start sig.length I x hx
    omega
  -- the items of `bin2canon`
  have hB : (Py.range 0 (Py.pow 2 (Int.ofNat sig.length))).map (fun eJ => (eJ,
        ['e'] ++ (List.filterMap (fun x =>
            if Py.truthy (Py.bitLength (Py.land eJ (Py.pow 2 x))) = true then
              some (Py.hexStr (Py.bitLength (Py.land eJ (Py.pow 2 x)) + Int.ofNat start - 1)) else none)
            (Py.range 0 (Int.ofNat sig.length))).flatten)) = B := by
    rw [pow_two_ofNat, pyRange_zero (2 ^ sig.length), List.map_map]
    apply List.map_congr_left
    intro I _
    simp only [Function.comp]
    rw [default_spelling start sig.length I hstart]
  have hBk : (B.map (·.1)).Nodup := by
    have : B.map (·.1) = (List.range (2 ^ sig.length)).map Int.ofNat := by
      simp only [B, List.map_map]; rfl
    rw [this]
    exact nodup_cast _ List.nodup_range
  have hnames : (names.map pyName).Nodup := by
    simp only [names, List.map_map]
    apply List.Nodup.map_on _ List.nodup_range
    intro I hI J hJ e
    have hI' := List.mem_range.mp hI
    have hJ' := List.mem_range.mp hJ
    apply defaultName_inj start sig.length I J hI' hJ'
    exact pyName_inj _ _ (h16 _ (List.mem_map.mpr ⟨I, hI, rfl⟩)) (h16 _ (List.mem_map.mpr ⟨J, hJ, rfl⟩)) e
  have hC : B.map (fun x => (x.2, x.1)) = names.map f := by
    simp only [B, names, List.map_map]
    apply List.map_congr_left
    intro I hI
    simp only [Function.comp, f]
    rw [binOf_defaultName sig start I (List.mem_range.mp hI)]
  have hCk : ((names.map f).map (·.1)).Nodup := by
    rw [List.map_map]
    exact hnames
  have hS : Py.sorted (fun x : List Char × Int => (Py.len x.1, x.1)) (names.map f) = (Cfg.sortNames names).map f := by
    rw [sorted_map]
    show (Py.sorted (fun n => (Py.len (pyName n), pyName n)) names).map f = _
    rw [sorted_names names h16]
  have hSk : (((Cfg.sortNames names).map f).map (·.1)).Nodup := by
    rw [List.map_map]
    show ((Cfg.sortNames names).map pyName).Nodup
    rw [sortNames_eq]
    exact ((List.perm_insertionSort nameRel names).map pyName).nodup_iff.mpr hnames
  refine ⟨B, ?_, ?_⟩
  · rw [post_init_else, hB, dictOf_nodup B hBk, hC, dictOf_nodup _ hCk, hS, dictOf_nodup _ hSk]
    rfl
  · intro I hI
    rw [nameOf_default sig start I hI]
    apply dictGet?_of_mem B hBk
    exact List.mem_map.mpr ⟨I, List.mem_range.mpr hI, rfl⟩

/-! ### the custom basis -/

theorem mapM_map_pure {α β γ : Type} (p : α → β) (l : List α) (F : β → Py.M γ) (G : α → γ)
    (h : ∀ x ∈ l, F (p x) = pure (G x)) : (l.map p).mapM F = pure (l.map G) := by
  induction l with
  | nil => simp
  | cons a l ih =>
    rw [List.map_cons, List.mapM_cons, h a (by simp), ih (fun x hx => h x (by simp [hx]))]
    simp

theorem assert3_ok (basis : List (List Nat)) :
    (basis.map pyName).mapM (fun eJ => do pure ((← Py.getItem eJ (0 : Int)) == 'e')) =
      (pure (basis.map fun _ => true) : Py.M (List Bool)) := by
  apply mapM_map_pure
  intro n _
  have := getItem_ofNat (pyName n) 0 (by simp [pyName])
  show (Py.getItem (pyName n) (Int.ofNat 0) >>= fun c => pure (c == 'e')) = _
  rw [this]
  rfl

theorem assert2_ok (basis : List (List Nat)) (hs : (basis.map List.length).Pairwise (· ≤ ·)) :
    (basis.map pyName == Py.sorted Py.len (basis.map pyName)) = true := by
  rw [sorted_id]
  · simp
  · rw [List.pairwise_map] at hs ⊢
    refine hs.imp ?_
    intro a b hab
    rw [Bool.eq_false_iff]
    intro hlt
    have := (lt_len_iff (pyName b) (pyName a)).mp hlt
    rw [length_pyName, length_pyName] at this
    omega

/-- `vecs = [eJ[1:] for eJ in self.basis if len(eJ) == 2]` -/
theorem vecs_py (basis : List (List Nat)) :
    (basis.map pyName).filterMap (fun eJ => if (Py.len eJ == (2 : Int)) = true then some (Py.sliceFrom eJ 1) else none) =
      ((basis.filter (·.length == 1)).map (·.headD 0)).map (fun l => [hexChar l]) := by
  induction basis with
  | nil => rfl
  | cons n basis ih =>
    rw [List.map_cons, List.filterMap_cons, ih, sliceFrom_pyName]
    have hl : (Py.len (pyName n) == (2 : Int)) = (n.length == 1) := by
      show (Int.ofNat (pyName n).length == (2 : Int)) = _
      rw [length_pyName]
      by_cases e : n.length = 1
      · simp [e]
      · have : ¬ ((n.length : Int) + 1 = 2) := by omega
        simp [e, this]
    rw [hl, List.filter_cons]
    by_cases e : n.length = 1
    · obtain ⟨a, rfl⟩ := List.length_eq_one_iff.mp e
      simp
    · simp [e]

theorem foldl_min_le (l : List Nat) (m : Nat) : l.foldl min m ≤ m := by
  induction l generalizing m with
  | nil => simp
  | cons a l ih =>
    rw [List.foldl_cons]
    exact Nat.le_trans (ih _) (Nat.min_le_left _ _)

theorem minStr_fold (l : List Nat) (m : Nat) (hm : m < 16) (hl : ∀ v ∈ l, v < 16) :
    (l.map fun v => [hexChar v]).foldl (fun m x => if Py.PyOrd.lt x m then x else m) [hexChar m] =
      [hexChar (l.foldl min m)] := by
  induction l generalizing m with
  | nil => rfl
  | cons a l ih =>
    have ha := hl a (by simp)
    rw [List.map_cons, List.foldl_cons, List.foldl_cons]
    have hlt : Py.PyOrd.lt [hexChar a] [hexChar m] = decide (a < m) := by
      show Py.listLt [hexChar a] [hexChar m] = _
      simp only [Py.listLt, hexChar_lt a m ha hm]
      by_cases h : a < m <;> simp [h]
    rw [hlt]
    by_cases h : a < m
    · have e : min m a = a := by omega
      simp only [h, decide_true, if_true, e]
      exact ih a ha (fun v hv => hl v (by simp [hv]))
    · have e : min m a = m := by omega
      simp only [h, decide_false, Bool.false_eq_true, if_false, e]
      exact ih m hm (fun v hv => hl v (by simp [hv]))

theorem minStr_vecs (V : List Nat) (hne : V ≠ []) (hV : ∀ v ∈ V, v < 16) :
    Py.minStr (V.map fun v => [hexChar v]) = .ok [hexChar (V.foldl min (V.headD 0))] := by
  cases V with
  | nil => exact absurd rfl hne
  | cons a l =>
    show Except.ok _ = _
    rw [minStr_fold l a (hV a (by simp)) (fun v hv => hV v (by simp [hv]))]
    simp

theorem vec2bin_find (V : List Nat) (hV : ∀ v ∈ V, v < 16) (l : Nat) (hl : l ∈ V) (k : Nat) :
    ((Py.enumerateFrom k (V.map fun v => [hexChar v])).map (fun x => (x.2, Py.pow 2 x.1))).find? (·.1 == [hexChar l]) =
      some ([hexChar l], Int.ofNat (2 ^ (k + V.idxOf l))) := by
  induction V generalizing k with
  | nil => simp at hl
  | cons a V ih =>
    rw [List.map_cons, Py.enumerateFrom, List.map_cons, List.find?_cons]
    by_cases e : a = l
    · subst e
      simp only [pow_two_ofNat]
      simp
    · have hne : ([hexChar a] == [hexChar l]) = false := by
        have : hexChar a ≠ hexChar l := fun h => e (hexChar_injOn a l (hV a (by simp)) (hV l hl) h)
        simp [this]
      have hl' : l ∈ V := by
        rcases List.mem_cons.mp hl with h | h
        · exact absurd h.symm e
        · exact h
      simp only [hne]
      rw [ih (fun v hv => hV v (by simp [hv])) hl' (k + 1), List.idxOf_cons_ne _ e,
        show k + 1 + V.idxOf l = k + (V.idxOf l).succ from by omega]

theorem vec2bin_keys (V : List Nat) (k : Nat) :
    ((Py.enumerateFrom k (V.map fun v => [hexChar v])).map (fun x => (x.2, Py.pow 2 x.1))).map (·.1) =
      V.map fun v => [hexChar v] := by
  induction V generalizing k with
  | nil => rfl
  | cons a V ih => simp only [List.map_cons, Py.enumerateFrom, ih (k + 1)]

theorem vec2bin_get (V : List Nat) (hnd : V.Nodup) (hV : ∀ v ∈ V, v < 16) (l : Nat) (hl : l ∈ V) :
    Py.dictGet (Py.dictOf ((Py.enumerate (V.map fun v => [hexChar v])).map (fun x => (x.2, Py.pow 2 x.1)))) [hexChar l] =
      pure (Int.ofNat (2 ^ V.idxOf l)) := by
  rw [dictOf_nodup]
  · unfold Py.dictGet Py.enumerate
    rw [vec2bin_find V hV l hl 0]
    simp
  · unfold Py.enumerate
    rw [vec2bin_keys]
    apply List.Nodup.map_on _ hnd
    intro a ha b hb e
    exact hexChar_injOn a b (hV a ha) (hV b hb) (by simpa using e)

theorem foldl_xor_cast (c : Cfg) (n : List Nat) (a : Nat) :
    (n.map fun l => Int.ofNat (2 ^ c.vecs.idxOf l)).foldl Py.xor (Int.ofNat a) =
      Int.ofNat (n.foldl (fun acc l => acc ^^^ 2 ^ (c.vecs.idxOf l)) a) := by
  induction n generalizing a with
  | nil => rfl
  | cons x n ih => rw [List.map_cons, List.foldl_cons, List.foldl_cons, xor_ofNat, ih]

/-- **custom basis**: for an admissible custom configuration (its generator labels are single hex digits), the python accepts
    the basis (none of its asserts fires), derives the model's start index (and leaves `start_index` alone when there is no
    basis vector, d = 0), and builds `canon2bin` with the model's bitmasks in the order of the given basis, and a
    `bin2canon` that maps every bitmask to its name -/
theorem post_init_custom_eq (sig : List Int) (basis : List (List Nat)) (start0 : Int)
    (h : (Cfg.custom sig basis).admissible = true) (hne : basis ≠ []) :
    ∃ b2c, Src.post_init_names (basis.map pyName) (Int.ofNat sig.length) start0 =
        .ok (if (Cfg.custom sig basis).vecs = [] then start0 else Int.ofNat (Cfg.custom sig basis).start,
             basis.map (fun n => (pyName n, Int.ofNat ((Cfg.custom sig basis).binOf n))), b2c) ∧
      ∀ I, I < 2 ^ sig.length →
        Py.dictGet? b2c (Int.ofNat I) = some (pyName ((Cfg.custom sig basis).nameOf I)) := by
  have hadm := Cfg.adm_of_admissible _ h
  have hbin := binOf_injective_of_admissible _ h
  have hlen : basis.length = 2 ^ sig.length := by
    have h' := h
    unfold Cfg.admissible at h'
    simp only [Bool.and_eq_true, beq_iff_eq] at h'
    exact h'.1.1.1.1.2
  have hsorted : (basis.map List.length).Pairwise (· ≤ ·) := by
    have h' := h
    unfold Cfg.admissible at h'
    simp only [Bool.and_eq_true, decide_eq_true_eq] at h'
    exact h'.1.2
  have h16 : ∀ v ∈ (Cfg.custom sig basis).vecs, v < 16 := vecs16_of_admissible _ h
  have hstart : (Cfg.custom sig basis).start =
      (Cfg.custom sig basis).vecs.foldl min ((Cfg.custom sig basis).vecs.headD 0) := rfl
  have hstart16 : (Cfg.custom sig basis).vecs ≠ [] → (Cfg.custom sig basis).start < 16 := by
    intro hVne
    rw [hstart]
    have h1 := foldl_min_le (Cfg.custom sig basis).vecs ((Cfg.custom sig basis).vecs.headD 0)
    have h2 : (Cfg.custom sig basis).vecs.headD 0 ∈ (Cfg.custom sig basis).vecs := by
      cases hv : (Cfg.custom sig basis).vecs with
      | nil => exact absurd hv hVne
      | cons a l => simp
    have := h16 _ h2
    omega
  have hb16 : ∀ n ∈ basis, ∀ l ∈ n, l < 16 := fun n hn l hl => h16 l (hadm.names_letters n hn l hl)
  have hvp : (basis.map pyName).filterMap
      (fun eJ => if (Py.len eJ == (2 : Int)) = true then some (Py.sliceFrom eJ 1) else none) =
      (Cfg.custom sig basis).vecs.map (fun l => [hexChar l]) := vecs_py basis
  let f : List Nat → List Char × Int := fun n => (pyName n, Int.ofNat ((Cfg.custom sig basis).binOf n))
  have hitems : (basis.map pyName).mapM (fun eJ => do
      let xs ← (Py.sliceFrom eJ 1).mapM (fun v =>
        Py.dictGet (Py.dictOf ((Py.enumerate ((Cfg.custom sig basis).vecs.map (fun l => [hexChar l]))).map
          (fun x => (x.2, Py.pow 2 x.1)))) [v])
      pure (eJ, xs.foldl Py.xor 0)) = (pure (basis.map f) : Py.M _) := by
    apply mapM_map_pure
    intro n hn
    rw [sliceFrom_pyName, mapM_map_pure hexChar n _ (fun l => Int.ofNat (2 ^ (Cfg.custom sig basis).vecs.idxOf l))]
    · show Except.ok (pyName n, _) = Except.ok (pyName n, _)
      have := foldl_xor_cast (Cfg.custom sig basis) n 0
      rw [show (Int.ofNat 0) = (0 : Int) from rfl] at this
      rw [this]
      rfl
    · intro l hl
      exact vec2bin_get _ hadm.vecs_nodup h16 l (hadm.names_letters n hn l hl)
  have htail : namesTail (basis.map pyName) start0 =
      .ok (if (Cfg.custom sig basis).vecs = [] then start0 else Int.ofNat (Cfg.custom sig basis).start,
        Py.dictOf (basis.map f),
        Py.dictOf ((Py.sorted (fun x => x.2) (Py.dictOf (basis.map f))).map (fun x => (x.2, x.1)))) := by
    unfold namesTail
    simp only [hvp]
    rw [hitems]
    by_cases hV : (Cfg.custom sig basis).vecs = []
    · have ht : Py.truthy ((Cfg.custom sig basis).vecs.map (fun l => [hexChar l])) = false := by rw [hV]; rfl
      rw [if_pos hV]
      simp only [ht, Bool.false_eq_true, if_false, pure_bind]
      rfl
    · have ht : Py.truthy ((Cfg.custom sig basis).vecs.map (fun l => [hexChar l])) = true := by
        cases hv : (Cfg.custom sig basis).vecs with
        | nil => exact absurd hv hV
        | cons a l => rfl
      rw [if_neg hV]
      simp only [ht, if_true]
      rw [minStr_vecs _ hV h16, ← hstart]
      simp only [ok_bind]
      rw [intOfHex_hexChar _ (hstart16 hV)]
      rfl
  have hbnd : basis.Nodup := List.Nodup.of_map _ hbin
  have hfk : ((basis.map f).map (·.1)).Nodup := by
    rw [List.map_map]
    show (basis.map pyName).Nodup
    apply List.Nodup.map_on _ hbnd
    intro a ha b hb e
    exact pyName_inj a b (hb16 a ha) (hb16 b hb) e
  have hperm := sorted_perm (fun x : List Char × Int => x.2) (basis.map f)
  have hsk : (((Py.sorted (fun x : List Char × Int => x.2) (basis.map f)).map (fun x => (x.2, x.1))).map (·.1)).Nodup := by
    rw [List.map_map]
    show ((Py.sorted (fun x : List Char × Int => x.2) (basis.map f)).map (·.2)).Nodup
    rw [(hperm.map _).nodup_iff, List.map_map]
    have := nodup_cast _ hbin
    rw [List.map_map] at this
    exact this
  refine ⟨(Py.sorted (fun x : List Char × Int => x.2) (basis.map f)).map (fun x => (x.2, x.1)), ?_, ?_⟩
  · rw [post_init_if _ _ _ (truthy_map_pyName basis hne) (len_eq_pow basis _ hlen) (assert2_ok basis hsorted)
      _ (assert3_ok basis) (by simp), htail, dictOf_nodup _ hfk, dictOf_nodup _ hsk]
  · intro I hI
    obtain ⟨hm, hb⟩ := Cfg.nameOf_mem _ hadm I hI
    apply dictGet?_of_mem _ hsk
    apply List.mem_map.mpr
    refine ⟨f ((Cfg.custom sig basis).nameOf I), ?_, ?_⟩
    · rw [hperm.mem_iff]
      exact List.mem_map_of_mem hm
    · simp only [f, hb]

end Kingdon.SrcEq

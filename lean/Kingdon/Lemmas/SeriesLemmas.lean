/-
  C19: identities behind exp, the outer series, sqrt of Study numbers and normalisation, in exact / real arithmetic.
  (The code computes in floating point; these are theorems about the formulas the code implements.)
-/
import Kingdon.Model.Hitzer
import Kingdon.Lemmas.Products
import Kingdon.Lemmas.Linear
import Mathlib.Algebra.Algebra.Basic
import Mathlib.Analysis.SpecialFunctions.Trigonometric.Series
import Mathlib.Analysis.SpecialFunctions.Sqrt
import Mathlib.Tactic.Ring
import Mathlib.Tactic.FieldSimp
import Mathlib.Tactic.Positivity
namespace Kingdon
open Finsupp BigOperators

/-! ### exp of an element that squares to a scalar -/

section exp
variable {A : Type} [Ring A] [Algebra ℝ A]

/-- even and odd powers of an element whose square is the scalar `s` -/
theorem pow_even_of_sq (X : A) (s : ℝ) (h : X * X = algebraMap ℝ A s) (k : ℕ) :
    X ^ (2 * k) = algebraMap ℝ A (s ^ k) := by
  rw [pow_mul, pow_two, h, ← map_pow]
theorem pow_odd_of_sq (X : A) (s : ℝ) (h : X * X = algebraMap ℝ A s) (k : ℕ) :
    X ^ (2 * k + 1) = (s ^ k) • X := by
  rw [pow_succ, pow_even_of_sq X s h k, Algebra.smul_def]

/-- the partial sums of the power series of exp split into a scalar part and a multiple of X -/
theorem exp_partial_sums (X : A) (s : ℝ) (h : X * X = algebraMap ℝ A s) (n : ℕ) :
    ∑ k ∈ Finset.range (2 * n), ((1 : ℝ) / (k.factorial : ℝ)) • X ^ k =
      algebraMap ℝ A (∑ k ∈ Finset.range n, s ^ k / ((2 * k).factorial : ℝ)) +
      (∑ k ∈ Finset.range n, s ^ k / ((2 * k + 1).factorial : ℝ)) • X := by
  induction n with
  | zero => simp
  | succ n ih =>
    rw [show 2 * (n + 1) = 2 * n + 1 + 1 by ring, Finset.sum_range_succ, Finset.sum_range_succ, ih,
      Finset.sum_range_succ, Finset.sum_range_succ, pow_even_of_sq X s h n, pow_odd_of_sq X s h n,
      map_add, add_smul, smul_smul, Algebra.smul_def ((1 : ℝ) / _) (algebraMap ℝ A (s ^ n)), ← map_mul,
      one_div_mul_eq_div, one_div_mul_eq_div]
    abel
end exp

/-- the two scalar series have the closed forms `MultiVector.exp` uses: positive square -/
theorem scalar_series_pos (s : ℝ) (hs : 0 < s) :
    HasSum (fun k : ℕ => s ^ k / ((2 * k).factorial : ℝ)) (Real.cosh (Real.sqrt s)) ∧
    HasSum (fun k : ℕ => s ^ k / ((2 * k + 1).factorial : ℝ)) (Real.sinh (Real.sqrt s) / Real.sqrt s) := by
  have hl : 0 < Real.sqrt s := Real.sqrt_pos.mpr hs
  have hsq : Real.sqrt s ^ 2 = s := Real.sq_sqrt hs.le
  constructor
  · have := Real.hasSum_cosh (Real.sqrt s)
    simp only [pow_mul, hsq] at this
    exact this
  · have := (Real.hasSum_sinh (Real.sqrt s)).div_const (Real.sqrt s)
    have e : (fun k : ℕ => s ^ k / ((2 * k + 1).factorial : ℝ)) =
        fun k : ℕ => Real.sqrt s ^ (2 * k + 1) / ((2 * k + 1).factorial : ℝ) / Real.sqrt s := by
      funext k
      rw [pow_succ, pow_mul, hsq]
      field_simp
    rw [e]; exact this

/-- zero square: `cosh = sinhc = 1` -/
theorem scalar_series_zero :
    HasSum (fun k : ℕ => (0 : ℝ) ^ k / ((2 * k).factorial : ℝ)) 1 ∧
    HasSum (fun k : ℕ => (0 : ℝ) ^ k / ((2 * k + 1).factorial : ℝ)) 1 := by
  constructor
  · convert hasSum_single (f := fun k : ℕ => (0 : ℝ) ^ k / ((2 * k).factorial : ℝ)) 0 ?_ using 1
    · simp
    · intro k hk; simp [hk]
  · convert hasSum_single (f := fun k : ℕ => (0 : ℝ) ^ k / ((2 * k + 1).factorial : ℝ)) 0 ?_ using 1
    · simp
    · intro k hk; simp [hk]

/-- negative square: `cos` and `sin(l)/l` with `l = sqrt(-s)` -/
theorem scalar_series_neg (s : ℝ) (hs : s < 0) :
    HasSum (fun k : ℕ => s ^ k / ((2 * k).factorial : ℝ)) (Real.cos (Real.sqrt (-s))) ∧
    HasSum (fun k : ℕ => s ^ k / ((2 * k + 1).factorial : ℝ)) (Real.sin (Real.sqrt (-s)) / Real.sqrt (-s)) := by
  have hs' : 0 < -s := by linarith
  have hl : 0 < Real.sqrt (-s) := Real.sqrt_pos.mpr hs'
  have hsq : Real.sqrt (-s) ^ 2 = -s := Real.sq_sqrt hs'.le
  have hpow : ∀ k : ℕ, s ^ k = (-1) ^ k * (-s) ^ k := by
    intro k; rw [← mul_pow]; simp
  constructor
  · have := Real.hasSum_cos (Real.sqrt (-s))
    simp only [pow_mul, hsq, ← hpow] at this
    exact this
  · have := (Real.hasSum_sin (Real.sqrt (-s))).div_const (Real.sqrt (-s))
    have e : (fun k : ℕ => s ^ k / ((2 * k + 1).factorial : ℝ)) =
        fun k : ℕ => (-1) ^ k * Real.sqrt (-s) ^ (2 * k + 1) / ((2 * k + 1).factorial : ℝ) / Real.sqrt (-s) := by
      funext k
      rw [pow_succ, pow_mul, hsq, ← mul_assoc, ← hpow]
      field_simp
    rw [e]; exact this

/-! ### Study numbers: `sqrt(a + bI) = c + bI/(2c)` with `c = sqrt((a + sqrt(a² - (bI)²))/2)` -/

section study
variable {A : Type} [Ring A] [Algebra ℝ A]

/-- common computation: `(c + (1/(2c)) B)² = (c² + b2/(4c²)) + B` -/
theorem study_sqrt_aux (B : A) (a b2 c : ℝ) (hB : B * B = algebraMap ℝ A b2) (hc : c ≠ 0)
    (hval : c * c + (1 / (2 * c)) * (1 / (2 * c)) * b2 = a) :
    (algebraMap ℝ A c + (1 / (2 * c)) • B) * (algebraMap ℝ A c + (1 / (2 * c)) • B) = algebraMap ℝ A a + B := by
  have h1 : (1 / (2 * c)) * c + (1 / (2 * c)) * c = 1 := by field_simp; ring
  rw [add_mul, mul_add, mul_add, smul_mul_smul_comm, hB, ← map_mul, ← Algebra.smul_def, Algebra.smul_def _ (algebraMap ℝ A b2),
    smul_mul_assoc, ← Algebra.commutes, ← Algebra.smul_def, smul_smul, ← map_mul]
  have hre : ∀ x y z w : A, x + y + (z + w) = (x + w) + (y + z) := by intros; abel
  rw [smul_smul, hre, ← map_add, ← add_smul,
    show c * (1 / (2 * c)) + 1 / (2 * c) * c = 1 by rw [mul_comm c]; exact h1, one_smul, hval]

/-- the formula of `codegen_sqrt`: for a Study number `a + B` (B² = b2 a real scalar) with `a > 0`, `a² - b2 ≥ 0`
    the element `c + (1/(2c)) B` squares to `a + B` -/
theorem study_sqrt_sq (B : A) (a b2 : ℝ) (hB : B * B = algebraMap ℝ A b2) (ha : 0 < a) (hn : 0 ≤ a ^ 2 - b2) :
    let c := Real.sqrt ((a + Real.sqrt (a ^ 2 - b2)) / 2)
    (algebraMap ℝ A c + (1 / (2 * c)) • B) * (algebraMap ℝ A c + (1 / (2 * c)) • B) = algebraMap ℝ A a + B := by
  intro c
  have hn' : 0 ≤ Real.sqrt (a ^ 2 - b2) := Real.sqrt_nonneg _
  have hpos : 0 < (a + Real.sqrt (a ^ 2 - b2)) / 2 := by positivity
  have hc : 0 < c := Real.sqrt_pos.mpr hpos
  have hc2 : c ^ 2 = (a + Real.sqrt (a ^ 2 - b2)) / 2 := Real.sq_sqrt hpos.le
  have hn2 : Real.sqrt (a ^ 2 - b2) ^ 2 = a ^ 2 - b2 := Real.sq_sqrt hn
  exact study_sqrt_aux B a b2 c hB hc.ne' (by
    have h4 : (c ^ 2) ^ 2 * 4 + b2 = 4 * a * c ^ 2 := by
      rw [hc2]; nlinarith [hn2]
    field_simp
    nlinarith [h4])

/-- the degenerate branch `bI² = 0`: `sqrt(a) + bI/(2 sqrt a)` -/
theorem study_sqrt_sq_null (B : A) (a : ℝ) (hB : B * B = 0) (ha : 0 < a) :
    (algebraMap ℝ A (Real.sqrt a) + (1 / (2 * Real.sqrt a)) • B) * (algebraMap ℝ A (Real.sqrt a) + (1 / (2 * Real.sqrt a)) • B)
      = algebraMap ℝ A a + B := by
  have hc : 0 < Real.sqrt a := Real.sqrt_pos.mpr ha
  have hc2 : Real.sqrt a ^ 2 = a := Real.sq_sqrt ha.le
  have := study_sqrt_aux B a 0 (Real.sqrt a) (by simpa using hB) hc.ne' (by
    field_simp
    nlinarith [hc2])
  exact this

/-- normalisation: dividing by the square root of a positive scalar squared norm gives squared norm 1
    (`rev` is any anti-automorphism-like map that is ℝ-linear: only `rev (t • X) = t • rev X` is used) -/
theorem normalized_normsq (X : A) (rev : A → A) (hlin : ∀ (t : ℝ) (Y : A), rev (t • Y) = t • rev Y)
    (n : ℝ) (hn : 0 < n) (h : X * rev X = algebraMap ℝ A n) :
    ((1 / Real.sqrt n) • X) * rev ((1 / Real.sqrt n) • X) = algebraMap ℝ A 1 := by
  have hs : 0 < Real.sqrt n := Real.sqrt_pos.mpr hn
  have hs2 : Real.sqrt n ^ 2 = n := Real.sq_sqrt hn.le
  rw [hlin, smul_mul_assoc, mul_smul_comm, smul_smul, h, Algebra.smul_def, ← map_mul]
  congr 1
  field_simp
  nlinarith [hs2]
end study

/-! ### outer series: soundness of the early break -/

section outer
variable {α : Type} [CommRing α]

/-- one step of the wedge-power recursion at the level of denotations -/
theorem op_zero_left_den (c : Cfg) (y : MV α) : den (op c ([] : MV α) y) = 0 := by
  unfold op
  rw [codegenProduct_den]; simp

/-- a vanishing wedge power stays zero: once `P_j` denotes 0, so does `P_j ^ x` (hence every later term of the
    series), which is why `codegen_outerexp` may stop at the first empty power -/
theorem wedge_power_zero_stays_zero (c : Cfg) (hr : TableRange c.computeSign) (p x : MV α) (hp : den p = 0) :
    den (op c p x) = 0 := by
  have _ := hr
  unfold op
  rw [codegenProduct_den, hp]; simp

/-- dropping zero coefficients (the truthiness filter on the symbolic coefficients) does not change the element -/
theorem filter_zero_den (isZero : α → Bool) (hz : ∀ v, isZero v = true → v = 0) (x : MV α) :
    den (x.filter fun kv => !isZero kv.2) = den x := by
  induction x with
  | nil => simp
  | cons p x ih =>
    obtain ⟨k, v⟩ := p
    by_cases hp : isZero v = true
    · have hv := hz v hp
      rw [List.filter_cons_of_neg (by simp [hp]), ih, den_cons]; simp [hv]
    · rw [List.filter_cons_of_pos (by simpa using hp), den_cons, den_cons, ih]
end outer

end Kingdon

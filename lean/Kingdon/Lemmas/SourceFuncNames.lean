/-
  Names of generated functions, at the level of the actual strings: the translated `MultiVector.type_number` /
  `MultiVector.type_name` (multivector.py) compute the model's `OD.typeNumber` / `OD.typeName`, and the function name that
  `do_codegen` assembles from them (codegen.py: `f'{codegen.__name__}_' + '_x_'.join(type names)`) determines the ordered key
  tuples: two different generated functions of one operator never get the same name string, hence never share a slot of
  `Algebra.numspace`.

  NOTE: `type_number_eq` / `type_name_eq` as originally stated (for *every* `Cfg`) are false for a configuration with an
  empty basis: python's `int('', 2)` (`Py.intOfBin []`) raises `ValueError`, the model says 0.  They are kept as `Prop`s,
  refuted (`type_number_eq_false`, `type_name_eq_false`), and proved under `c.basis ≠ []` as `*_partial`.
-/
import Kingdon.Lemmas.SourceBase
import Kingdon.Lemmas.OpDictLemmas
namespace Kingdon.SrcEq
open Kingdon Kingdon.OD

/-! ### type_number -/

theorem dictValues_canon2bin (c : Cfg) :
    Py.dictValues (algOf c).canon2bin = c.canonKeys.map Int.ofNat := by
  simp [Py.dictValues, algOf, Cfg.canonKeys, List.map_map, Function.comp_def]

theorem flatten_bits {α : Type} (p : α → Bool) (l : List α) :
    List.flatten (l.map fun i => if p i then ['1'] else ['0']) = l.map fun i => if p i then '1' else '0' := by
  induction l with
  | nil => rfl
  | cons a l ih =>
    simp only [List.map_cons, List.flatten_cons, ih]
    split <;> rfl

theorem foldlM_bits {α : Type} (p : α → Bool) (l : List α) (a : Int) :
    (l.map fun i => if p i then '1' else '0').foldlM
      (fun acc c => if c == '0' then pure (2 * acc) else if c == '1' then pure (2 * acc + 1) else throw "ValueError") a
      = (Except.ok (l.foldl (fun acc i => 2 * acc + if p i then 1 else 0) a) : Py.M Int) := by
  induction l generalizing a with
  | nil => rfl
  | cons x l ih =>
    simp only [List.map_cons, List.foldlM_cons, List.foldl_cons]
    cases hp : p x
    · have h0 : (('0' : Char) == '0') = true := rfl
      simp only [Bool.false_eq_true, ↓reduceIte, h0, pure_bind, Int.add_zero]
      exact ih _
    · have h0 : (('1' : Char) == '0') = false := rfl
      have h1 : (('1' : Char) == '1') = true := rfl
      simp only [↓reduceIte, h0, h1, pure_bind, Bool.false_eq_true]
      exact ih _

theorem foldl_rev_tnAux (p : Nat → Bool) (l : List Nat) :
    l.reverse.foldl (fun (acc : Int) i => 2 * acc + if p i then 1 else 0) 0 = Int.ofNat (tnAux p l 0) := by
  rw [List.foldl_reverse]
  induction l with
  | nil => rfl
  | cons k l ih =>
    rw [List.foldr_cons, ih, tnAux_cons, tnAux_succ]
    simp only [Int.ofNat_eq_natCast]
    split <;> simp <;> omega

theorem contains_map_ofNat (ks : List Nat) (k : Nat) :
    (ks.map Int.ofNat).contains (Int.ofNat k) = ks.contains k := by
  induction ks with
  | nil => rfl
  | cons a ks ih =>
    simp only [List.map_cons, List.contains_cons, ih]
    congr 1
    rw [Bool.eq_iff_iff]
    simp only [beq_iff_eq]
    exact ⟨fun h => Int.ofNat.inj h, fun h => by rw [h]⟩

/-- ORIGINAL STATEMENT (false for an empty basis, see `type_number_eq_false`):
    the translated `type_number` is the model's (keys of the algebra in canonical order give the bit positions) -/
def type_number_eq : Prop := ∀ (c : Cfg) (ks : List Nat),
    Src.type_number (algOf c) (ks.map Int.ofNat) = .ok (Int.ofNat (typeNumber c.canonKeys ks))

/-- counterexample: empty basis, `int('', 2)` raises -/
theorem type_number_eq_false : ¬ type_number_eq := by
  intro h
  have h1 := h ⟨[], 1, [], []⟩ []
  have h2 : Src.type_number (algOf ⟨[], 1, [], []⟩) (([] : List Nat).map Int.ofNat) = .error "ValueError" := rfl
  rw [h2] at h1
  cases h1

/-- the translated `type_number` is the model's (keys of the algebra in canonical order give the bit positions),
    for a non-empty basis -/
theorem type_number_eq_partial (c : Cfg) (hb : c.basis ≠ []) (ks : List Nat) :
    Src.type_number (algOf c) (ks.map Int.ofNat) = .ok (Int.ofNat (typeNumber c.canonKeys ks)) := by
  unfold Src.type_number
  rw [dictValues_canon2bin, flatten_bits, ← List.map_reverse, List.map_map]
  unfold Py.intOfBin
  have hne : ((c.canonKeys.reverse.map ((fun i => if (ks.map Int.ofNat).contains i then '1' else '0') ∘ Int.ofNat))).isEmpty = false := by
    cases h : c.basis with
    | nil => exact absurd h hb
    | cons a l => simp [Cfg.canonKeys, h]
  rw [hne]
  simp only [Function.comp_def, contains_map_ofNat]
  rw [if_neg (by simp), foldlM_bits (fun k => ks.contains k), foldl_rev_tnAux, typeNumber_eq_tnAux]

/-- the string python builds for a type name: `'<number>'` or `'<number>_o<k1>_<k2>…'` -/
def typeNameStr (t : Nat × List Nat) : List Char :=
  if t.2.isEmpty then Py.strOfInt (Int.ofNat t.1)
  else Py.strOfInt (Int.ofNat t.1) ++ ['_', 'o'] ++ Py.joinStr ['_'] (t.2.map fun k => Py.strOfInt (Int.ofNat k))

theorem filterMap_canon (ks : List Nat) (canon : List Nat) :
    (canon.map Int.ofNat).filterMap (fun k => if (ks.map Int.ofNat).contains k then some k else none)
      = (canonOrdered canon ks).map Int.ofNat := by
  unfold canonOrdered
  induction canon with
  | nil => rfl
  | cons a l ih =>
    simp only [List.map_cons, List.filterMap_cons, contains_map_ofNat, List.filter_cons, ih]
    cases ks.contains a <;> simp

theorem map_ofNat_inj (a b : List Nat) : a.map Int.ofNat = b.map Int.ofNat ↔ a = b := by
  constructor
  · intro h
    exact (List.map_inj_right (fun x y h => Int.ofNat.inj h)).1 h
  · intro h; rw [h]

theorem except_map_ok {ε α β : Type} (f : α → β) (a : α) :
    f <$> (Except.ok a : Except ε α) = Except.ok (f a) := rfl

/-- ORIGINAL STATEMENT (false for an empty basis, see `type_name_eq_false`):
    the translated `type_name` is the rendering of the model's `typeName` (for a non-empty key tuple in non-canonical
    order the model stores the keys, which is then a non-empty list) -/
def type_name_eq : Prop := ∀ (c : Cfg) (ks : List Nat),
    Src.type_name (algOf c) (ks.map Int.ofNat) = .ok (typeNameStr (typeName c.canonKeys ks))

theorem type_name_eq_false : ¬ type_name_eq := by
  intro h
  have h1 := h ⟨[], 1, [], []⟩ []
  have h2 : Src.type_name (algOf ⟨[], 1, [], []⟩) (([] : List Nat).map Int.ofNat) = .error "ValueError" := rfl
  rw [h2] at h1
  cases h1

/-- the translated `type_name` is the rendering of the model's `typeName` (for a non-empty key tuple in non-canonical
    order the model stores the keys, which is then a non-empty list), for a non-empty basis -/
theorem type_name_eq_partial (c : Cfg) (hb : c.basis ≠ []) (ks : List Nat) :
    Src.type_name (algOf c) (ks.map Int.ofNat) = .ok (typeNameStr (typeName c.canonKeys ks)) := by
  unfold Src.type_name
  simp only [type_number_eq_partial c hb, dictValues_canon2bin, filterMap_canon, beq_iff_eq, map_ofNat_inj]
  unfold typeName
  by_cases h : ks = canonOrdered c.canonKeys ks
  · rw [if_pos h, if_pos h]
    simp [typeNameStr, except_map_ok]
  · rw [if_neg h, if_neg h]
    have hne : ks.isEmpty = false := by
      cases ks with
      | nil => exact absurd (canonOrdered_nil _).symm h
      | cons a l => rfl
    simp [typeNameStr, hne, List.map_map, Function.comp_def, except_map_ok]

/-! ### decimal numerals -/

theorem strOfInt_ofNat (a : Nat) : Py.strOfInt (Int.ofNat a) = Nat.toDigits 10 a := by
  show (toString (Int.ofNat a)).toList = _
  exact Nat.toList_repr

/-- decimal numerals of naturals are injective and consist of digits only -/
theorem strOfInt_injective (a b : Nat) (h : Py.strOfInt (Int.ofNat a) = Py.strOfInt (Int.ofNat b)) : a = b := by
  rw [strOfInt_ofNat, strOfInt_ofNat] at h
  have := congrArg (fun l => Nat.ofDigitChars 10 l 0) h
  simpa using this

theorem strOfInt_digits (a : Nat) : ∀ ch ∈ Py.strOfInt (Int.ofNat a), ch.isDigit = true := by
  intro ch hch
  rw [strOfInt_ofNat] at hch
  exact Nat.isDigit_of_mem_toDigits (by decide) (by decide) hch

theorem strOfInt_ne_nil (a : Nat) : Py.strOfInt (Int.ofNat a) ≠ [] := by
  rw [strOfInt_ofNat]
  exact Nat.toDigits_ne_nil

/-! ### splitting strings at an anchor character -/

/-- two decompositions `u ++ c :: r` with `u`, `u'` inside a character class and `c`, `c'` outside of it agree -/
theorem split_anchor (P : Char → Prop) :
    ∀ (u u' : List Char) (c c' : Char) (r r' : List Char),
      (∀ x ∈ u, P x) → (∀ x ∈ u', P x) → ¬ P c → ¬ P c' → u ++ c :: r = u' ++ c' :: r' →
      u = u' ∧ c = c' ∧ r = r'
  | [], [], c, c', r, r', _, _, _, _, h => by
    simp only [List.nil_append, List.cons.injEq] at h
    exact ⟨rfl, h.1, h.2⟩
  | [], y :: u', c, c', r, r', _, hu', hc, _, h => by
    simp only [List.nil_append, List.cons_append, List.cons.injEq] at h
    exact absurd (h.1 ▸ hu' y (List.mem_cons_self)) hc
  | y :: u, [], c, c', r, r', hu, _, _, hc', h => by
    simp only [List.nil_append, List.cons_append, List.cons.injEq] at h
    exact absurd (h.1 ▸ hu y (List.mem_cons_self)) hc'
  | y :: u, y' :: u', c, c', r, r', hu, hu', hc, hc', h => by
    simp only [List.cons_append, List.cons.injEq] at h
    have := split_anchor P u u' c c' r r' (fun x hx => hu x (List.mem_cons_of_mem _ hx))
      (fun x hx => hu' x (List.mem_cons_of_mem _ hx)) hc hc' h.2
    exact ⟨by rw [h.1, this.1], this.2⟩

/-- a string inside the class is not of the form `u ++ c :: r` with `c` outside -/
theorem no_anchor (P : Char → Prop) (u : List Char) (c : Char) (r v : List Char)
    (hv : ∀ x ∈ v, P x) (hc : ¬ P c) : u ++ c :: r ≠ v := by
  intro h
  exact hc (hv c (h ▸ by simp))

theorem joinStr_cons_cons (sep a b : List Char) (l : List (List Char)) :
    Py.joinStr sep (a :: b :: l) = a ++ sep ++ Py.joinStr sep (b :: l) := rfl

/-- `sep.join` is injective on non-empty lists of strings over a class when the separator contains a character outside
    the class (preceded by characters of the class) -/
theorem joinStr_inj (P : Char → Prop) (pre : List Char) (c : Char) (post : List Char)
    (hpre : ∀ x ∈ pre, P x) (hc : ¬ P c) :
    ∀ (L M : List (List Char)), L ≠ [] → M ≠ [] → (∀ s ∈ L, ∀ x ∈ s, P x) → (∀ s ∈ M, ∀ x ∈ s, P x) →
      Py.joinStr (pre ++ c :: post) L = Py.joinStr (pre ++ c :: post) M → L = M
  | [], _, hL, _, _, _, _ => absurd rfl hL
  | _ :: _, [], _, hM, _, _, _ => absurd rfl hM
  | [a], [b], _, _, _, _, h => by
    simp only [Py.joinStr] at h
    rw [h]
  | [a], b :: b2 :: M, _, _, hL, hM, h => by
    exfalso
    rw [joinStr_cons_cons] at h
    simp only [Py.joinStr, List.append_assoc, List.cons_append] at h
    rw [← List.append_assoc] at h
    refine no_anchor P _ c _ a (hL a (by simp)) hc h.symm
  | a :: a2 :: L, [b], _, _, hL, hM, h => by
    exfalso
    rw [joinStr_cons_cons] at h
    simp only [Py.joinStr, List.append_assoc, List.cons_append] at h
    rw [← List.append_assoc] at h
    refine no_anchor P _ c _ b (hM b (by simp)) hc h
  | a :: a2 :: L, b :: b2 :: M, _, _, hL, hM, h => by
    rw [joinStr_cons_cons, joinStr_cons_cons] at h
    simp only [List.append_assoc, List.cons_append] at h
    rw [← List.append_assoc, ← List.append_assoc] at h
    have hs := split_anchor P (a ++ pre) (b ++ pre) c c _ _
      (by intro x hx; rcases List.mem_append.1 hx with hx | hx
          · exact hL a (by simp) x hx
          · exact hpre x hx)
      (by intro x hx; rcases List.mem_append.1 hx with hx | hx
          · exact hM b (by simp) x hx
          · exact hpre x hx) hc hc h
    have hab : a = b := List.append_cancel_right hs.1
    have hrest := List.append_cancel_left hs.2.2
    have := joinStr_inj P pre c post hpre hc (a2 :: L) (b2 :: M) (by simp) (by simp)
      (fun s hs => hL s (List.mem_cons_of_mem _ hs)) (fun s hs => hM s (List.mem_cons_of_mem _ hs)) hrest
    rw [hab, this]

theorem joinStr_ne_nil (sep a : List Char) (l : List (List Char)) (ha : a ≠ []) : Py.joinStr sep (a :: l) ≠ [] := by
  cases l with
  | nil => exact ha
  | cons b l =>
    rw [joinStr_cons_cons]
    simp [ha]

theorem mem_joinStr (sep : List Char) : ∀ (l : List (List Char)) (x : Char),
    x ∈ Py.joinStr sep l → x ∈ sep ∨ ∃ s ∈ l, x ∈ s
  | [], x, h => by simp [Py.joinStr] at h
  | [a], x, h => Or.inr ⟨a, by simp, h⟩
  | a :: b :: l, x, h => by
    rw [joinStr_cons_cons] at h
    rcases List.mem_append.1 h with h | h
    · rcases List.mem_append.1 h with h | h
      · exact Or.inr ⟨a, by simp, h⟩
      · exact Or.inl h
    · rcases mem_joinStr sep (b :: l) x h with h | ⟨s, hs, hx⟩
      · exact Or.inl h
      · exact Or.inr ⟨s, List.mem_cons_of_mem _ hs, hx⟩


/-! ### type names and function names as strings -/

theorem underscore_not_digit : ¬ (('_' : Char).isDigit = true) := by decide

theorem numerals_digits (l : List Nat) :
    ∀ s ∈ l.map (fun k => Py.strOfInt (Int.ofNat k)), ∀ x ∈ s, x.isDigit = true := by
  intro s hs x hx
  rcases List.mem_map.1 hs with ⟨k, _, rfl⟩
  exact strOfInt_digits k x hx

/-- the name string determines the type name -/
theorem typeNameStr_injective (s t : Nat × List Nat) (h : typeNameStr s = typeNameStr t) : s = t := by
  obtain ⟨a, l⟩ := s
  obtain ⟨b, m⟩ := t
  unfold typeNameStr at h
  cases l with
  | nil =>
    cases m with
    | nil =>
      simp only [List.isEmpty_nil, if_true] at h
      rw [strOfInt_injective a b h]
    | cons y m =>
      exfalso
      simp only [List.isEmpty_nil, List.isEmpty_cons, if_true, Bool.false_eq_true, if_false,
        List.append_assoc, List.cons_append, List.nil_append] at h
      exact no_anchor (fun x => x.isDigit = true) _ '_' _ _ (strOfInt_digits a) underscore_not_digit h.symm
  | cons x l =>
    cases m with
    | nil =>
      exfalso
      simp only [List.isEmpty_nil, List.isEmpty_cons, if_true, Bool.false_eq_true, if_false,
        List.append_assoc, List.cons_append, List.nil_append] at h
      exact no_anchor (fun x => x.isDigit = true) _ '_' _ _ (strOfInt_digits b) underscore_not_digit h
    | cons y m =>
      simp only [List.isEmpty_cons, Bool.false_eq_true, if_false,
        List.append_assoc, List.cons_append, List.nil_append] at h
      have hs := split_anchor (fun x => x.isDigit = true) _ _ '_' '_' _ _
        (strOfInt_digits a) (strOfInt_digits b) underscore_not_digit underscore_not_digit h
      have hab := strOfInt_injective a b hs.1
      have hj := List.cons.inj hs.2.2
      have hL := joinStr_inj (fun x => x.isDigit = true) [] '_' [] (by simp) underscore_not_digit
        _ _ (by simp) (by simp) (numerals_digits (x :: l)) (numerals_digits (y :: m)) hj.2
      have hlm := (List.map_inj_right (fun p q h => strOfInt_injective p q h)).1 hL
      rw [hab, hlm]

/-- type-name strings contain digits, `_` and `o` only — in particular no `x` -/
theorem typeNameStr_chars (t : Nat × List Nat) : ∀ ch ∈ typeNameStr t, ch.isDigit = true ∨ ch = '_' ∨ ch = 'o' := by
  intro ch hch
  unfold typeNameStr at hch
  split at hch
  · exact Or.inl (strOfInt_digits _ ch hch)
  · rcases List.mem_append.1 hch with hch | hch
    · rcases List.mem_append.1 hch with hch | hch
      · exact Or.inl (strOfInt_digits _ ch hch)
      · simp only [List.mem_cons, List.not_mem_nil, or_false] at hch
        exact Or.inr hch
    · rcases mem_joinStr _ _ _ hch with h | ⟨s, hs, hx⟩
      · simp only [List.mem_cons, List.not_mem_nil, or_false] at h
        exact Or.inr (Or.inl h)
      · exact Or.inl (numerals_digits _ s hs ch hx)

theorem typeNameStr_ne_nil (t : Nat × List Nat) : typeNameStr t ≠ [] := by
  unfold typeNameStr
  split
  · exact strOfInt_ne_nil _
  · simp

/-- `do_codegen`: `funcname = f'{codegen.__name__}_' + '_x_'.join(f"{mv.type_name}" for mv in mvs)` -/
def funcNameStr (codegenName : List Char) (typeNames : List (List Char)) : List Char :=
  codegenName ++ ['_'] ++ Py.joinStr ['_', 'x', '_'] typeNames

theorem typeNameStr_no_x (t : Nat × List Nat) : ∀ ch ∈ typeNameStr t, ch ≠ 'x' := by
  intro ch hch
  rcases typeNameStr_chars t ch hch with h | h | h
  · intro hx; rw [hx] at h; exact absurd h (by decide)
  · rw [h]; decide
  · rw [h]; decide

/-- **names are unique, as strings**: for one operator (one `codegen.__name__`) and an algebra whose canonical key order
    has no repetition, the generated function name determines the ordered key tuples of all operands -/
theorem source_names_unique (canon : List Nat) (hc : canon.Nodup) (codegenName : List Char)
    (K K' : List (List Nat))
    (h : funcNameStr codegenName (K.map fun ks => typeNameStr (typeName canon ks)) =
         funcNameStr codegenName (K'.map fun ks => typeNameStr (typeName canon ks))) :
    K = K' := by
  unfold funcNameStr at h
  have hj := List.append_cancel_left h
  have hcls : ∀ (K : List (List Nat)), ∀ s ∈ K.map (fun ks => typeNameStr (typeName canon ks)), ∀ x ∈ s, x ≠ 'x' := by
    intro K s hs x hx
    rcases List.mem_map.1 hs with ⟨ks, _, rfl⟩
    exact typeNameStr_no_x _ x hx
  have hmap : K.map (fun ks => typeNameStr (typeName canon ks)) = K'.map (fun ks => typeNameStr (typeName canon ks)) := by
    cases K with
    | nil =>
      cases K' with
      | nil => rfl
      | cons b K' =>
        exfalso
        simp only [List.map_nil, List.map_cons] at hj
        exact joinStr_ne_nil _ _ _ (typeNameStr_ne_nil _) hj.symm
    | cons a K =>
      cases K' with
      | nil =>
        exfalso
        simp only [List.map_nil, List.map_cons] at hj
        exact joinStr_ne_nil _ _ _ (typeNameStr_ne_nil _) hj
      | cons b K' =>
        exact joinStr_inj (fun x => x ≠ 'x') ['_'] 'x' ['_'] (by decide) (by simp)
          _ _ (by simp) (by simp) (hcls _) (hcls _) hj
  apply map_typeName_injective canon hc
  have : (K.map (typeName canon)).map typeNameStr = (K'.map (typeName canon)).map typeNameStr := by
    rw [List.map_map, List.map_map]; exact hmap
  exact (List.map_inj_right (fun p q h => typeNameStr_injective p q h)).1 this

end Kingdon.SrcEq

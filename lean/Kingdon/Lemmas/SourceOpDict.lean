/-
  The translated methods of the operator dictionaries (`OperatorDict.__getitem__`, `UnaryOperatorDict.__getitem__`,
  `Registry.__getitem__`, `UnaryOperatorDict.__call__` of operator_dict.py) refine the abstract get-or-generate protocol
  of Model/OpDict.lean, for one operator `op` living next to any others in the shared state.
-/
import Kingdon.Generated.Source
import Kingdon.Lemmas.OpDictLemmas
namespace Kingdon.SrcEq
open Kingdon Kingdon.OD

/-- keys_in of a call: the ordered key tuples -/
abbrev KeysIn := List (List Nat)

/-- the environment of one operator `op` in the model's terms: code generation raises where `genFails` says so and
    otherwise returns the function identified by (op, keys); names are `OD.name`; the wrapper, if any, does not change
    which function it is; applying a function to values tags the values with the function that ran -/
def envOf (canon : List Nat) (genFails : FuncId → Bool) (w : Bool) (op : Nat) (ko : KeysIn → List Nat) :
    Py.ODEnv KeysIn (List Nat) FuncId Name (List FuncId) where
  do_codegen := fun k => if genFails ⟨op, k⟩ then .error "codegen raised" else .ok (ko k, ⟨op, k⟩)
  name := OD.name canon
  wrapper := if w then some id else none
  apply := fun f vs => .ok (f :: vs)
  simp_func := true
  filter := fun ks vs => (ks, vs)

/-- abstraction relation between the python-level state of operator `op` (its own dict, the shared numspace, its
    generation log) and the model state -/
structure Rel (op : Nat) (ko : KeysIn → List Nat) (s : Py.ODState KeysIn (List Nat) FuncId Name) (S : OD.State) : Prop where
  has : ∀ k, Py.dictHas s.operator_dict k = decide ((⟨op, k⟩ : FuncId) ∈ S.cache)
  get : ∀ k v, Py.dictGet s.operator_dict k = .ok v → v = (ko k, ⟨op, k⟩)
  ns : ∀ n, (Py.dictGet s.numspace n).toOption = lookupNS S.numspace n
  gens : s.gens = (S.gens.filter (·.op == op)).map (·.keys)

/-! ### helper lemmas -/

section dict
variable {κ ν : Type} [BEq κ] [LawfulBEq κ]

theorem dictHas_set (d : Py.Dict κ ν) (k : κ) (v : ν) (k' : κ) :
    Py.dictHas (Py.dictSet d k v) k' = (k == k' || Py.dictHas d k') := by
  induction d with
  | nil => simp [Py.dictSet, Py.dictHas]
  | cons p r ih =>
    obtain ⟨a, b⟩ := p
    unfold Py.dictSet
    by_cases h : a = k
    · subst h; simp [Py.dictHas]
    · have h' : (a == k) = false := by simpa using h
      simp only [h', Bool.false_eq_true, if_false]
      simp only [Py.dictHas, List.any_cons] at ih ⊢
      rw [ih]
      cases (a == k') <;> cases (k == k') <;> simp

theorem dictGet_set_self (d : Py.Dict κ ν) (k : κ) (v : ν) :
    Py.dictGet (Py.dictSet d k v) k = .ok v := by
  induction d with
  | nil => simp [Py.dictSet, Py.dictGet]; rfl
  | cons p r ih =>
    obtain ⟨a, b⟩ := p
    unfold Py.dictSet
    by_cases h : a = k
    · subst h; simp [Py.dictGet]; rfl
    · have h' : (a == k) = false := by simpa using h
      simp only [h', Bool.false_eq_true, if_false]
      simp only [Py.dictGet, List.find?_cons, h'] at ih ⊢
      exact ih

theorem dictGet_set_ne (d : Py.Dict κ ν) (k : κ) (v : ν) (k' : κ) (hne : k ≠ k') :
    Py.dictGet (Py.dictSet d k v) k' = Py.dictGet d k' := by
  induction d with
  | nil =>
    have h' : (k == k') = false := by simpa using hne
    simp [Py.dictSet, Py.dictGet, h']
  | cons p r ih =>
    obtain ⟨a, b⟩ := p
    unfold Py.dictSet
    by_cases h : a = k
    · subst h
      have h' : (a == k') = false := by simpa using hne
      simp [Py.dictGet, h']
    · have h' : (a == k) = false := by simpa using h
      simp only [h', Bool.false_eq_true, if_false]
      simp only [Py.dictGet, List.find?_cons] at ih ⊢
      cases (a == k')
      · exact ih
      · rfl

theorem dictGet_of_has (d : Py.Dict κ ν) (k : κ) (h : Py.dictHas d k = true) :
    ∃ v, Py.dictGet d k = .ok v := by
  induction d with
  | nil => simp [Py.dictHas] at h
  | cons p r ih =>
    simp only [Py.dictHas, List.any_cons, Bool.or_eq_true] at h ih
    simp only [Py.dictGet, List.find?_cons] at ih ⊢
    cases hpk : (p.1 == k)
    · rw [hpk] at h
      simpa using ih (by simpa using h)
    · exact ⟨p.2, rfl⟩
end dict

theorem getitem_run {κ ρ φ ν ω : Type} [BEq κ] [BEq ν] (env : Py.ODEnv κ ρ φ ν ω) (k : κ)
    (s : Py.ODState κ ρ φ ν) :
    Py.runMethod (Src.operatordict_getitem env k) s =
      if Py.dictHas s.operator_dict k then (Py.dictGet s.operator_dict k, s)
      else
        match env.do_codegen k with
        | .error e => (.error e, s)
        | .ok (ko, f) =>
          let s' : Py.ODState κ ρ φ ν :=
            { operator_dict := Py.dictSet s.operator_dict k (ko, f),
              numspace := Py.dictSet s.numspace (env.name f) (match env.wrapper with | some w => w f | none => f),
              gens := k :: s.gens }
          (Py.dictGet s'.operator_dict k, s') := by
  unfold Src.operatordict_getitem Py.odCodegen Py.runMethod
  cases hh : Py.dictHas s.operator_dict k
  · rcases hc : env.do_codegen k with e | ⟨ko, f⟩
    · simp [hh, ExceptT.run, bind, ExceptT.bind, ExceptT.mk, ExceptT.bindCont, StateT.bind, StateT.run, Id.run, get, getThe, MonadStateOf.get, StateT.get, liftM, monadLift, MonadLift.monadLift, ExceptT.lift, modify, modifyGet, MonadStateOf.modifyGet, pure, ExceptT.pure, StateT.pure, Functor.map, StateT.map]
    · simp [hh, ExceptT.run, bind, ExceptT.bind, ExceptT.mk, ExceptT.bindCont, StateT.bind, StateT.run, Id.run, get, getThe, MonadStateOf.get, StateT.get, liftM, monadLift, MonadLift.monadLift, ExceptT.lift, modify, modifyGet, MonadStateOf.modifyGet, StateT.modifyGet, pure, ExceptT.pure, StateT.pure, Functor.map, StateT.map]
      cases env.wrapper <;> rfl
  · simp [hh, ExceptT.run, bind, ExceptT.bind, ExceptT.mk, ExceptT.bindCont, StateT.bind, StateT.run, Id.run, get, getThe, MonadStateOf.get, StateT.get, liftM, monadLift, MonadLift.monadLift, ExceptT.lift, pure, StateT.pure, Functor.map, StateT.map]

theorem call_run {κ ρ φ ν ω : Type} [BEq κ] [BEq ν] [Inhabited ω] (env : Py.ODEnv κ ρ φ ν ω) (mv : Py.ODArg κ ω)
    (s : Py.ODState κ ρ φ ν) :
    Py.runMethod (Src.unaryoperatordict_call env mv) s =
      match Py.runMethod (Src.operatordict_getitem env mv.keys) s with
      | (.error e, s') => (.error e, s')
      | (.ok (ko, f), s') =>
        if mv.issymbolic || !(Py.truthy env.wrapper) then
          match env.apply f mv.values with
          | .error e => (.error e, s')
          | .ok vo => (.ok (if mv.issymbolic && env.simp_func then env.filter ko vo else (ko, vo)), s')
        else
          match Py.dictGet s'.numspace (env.name f) with
          | .error e => (.error e, s')
          | .ok g =>
            match env.apply g mv.values with
            | .error e => (.error e, s')
            | .ok vo => (.ok (if mv.issymbolic && env.simp_func then env.filter ko vo else (ko, vo)), s') := by
  have e : Src.unaryoperatordict_getitem env mv.keys = Src.operatordict_getitem env mv.keys := rfl
  unfold Src.unaryoperatordict_call Py.runMethod
  rw [e]
  generalize Src.operatordict_getitem env mv.keys = G
  simp [ExceptT.run, bind, ExceptT.bind, ExceptT.mk, ExceptT.bindCont, StateT.bind, StateT.run, Id.run, get, getThe, MonadStateOf.get, liftM, monadLift, MonadLift.monadLift, ExceptT.lift, pure, ExceptT.pure, Functor.map]
  rcases G s with ⟨e | ⟨ko, f⟩, s'⟩
  · rfl
  · simp only
    by_cases hc : mv.issymbolic = true ∨ Py.truthy env.wrapper = false
    · rw [if_pos hc, if_pos hc]
      rcases env.apply f mv.values with e | vo
      · rfl
      · by_cases h2 : mv.issymbolic = true ∧ env.simp_func = true
        · simp only [StateT.bind, StateT.pure, ExceptT.bindCont, bind, pure, if_pos h2]
        · simp only [StateT.bind, StateT.pure, ExceptT.bindCont, bind, pure, if_neg h2]
    · rw [if_neg hc, if_neg hc]
      simp only [StateT.bind, StateT.map, StateT.get, StateT.pure, ExceptT.bindCont, bind, pure]
      rcases Py.dictGet s'.numspace (env.name f) with e | g
      · rfl
      · simp only [StateT.bind, StateT.pure, ExceptT.bindCont, bind, pure]
        rcases env.apply g mv.values with e | vo
        · rfl
        · by_cases h2 : mv.issymbolic = true ∧ env.simp_func = true
          · simp only [if_pos h2]; rfl
          · simp only [if_neg h2]; rfl

section refine
variable (canon : List Nat) (genFails : FuncId → Bool) (w : Bool) (op : Nat) (ko : KeysIn → List Nat)
  {s : Py.ODState KeysIn (List Nat) FuncId Name} {S : OD.State}

theorem getitem_hit_run (h : Rel op ko s S) (k : KeysIn) (hf : (⟨op, k⟩ : FuncId) ∈ S.cache) :
    Py.runMethod (Src.operatordict_getitem (envOf canon genFails w op ko) k) s = (.ok (ko k, ⟨op, k⟩), s) := by
  rw [getitem_run]
  have hh : Py.dictHas s.operator_dict k = true := by rw [h.has]; exact decide_eq_true hf
  rw [if_pos hh]
  obtain ⟨v, hv⟩ := dictGet_of_has _ _ hh
  rw [hv, h.get k v hv]

theorem getitem_fail_run (h : Rel op ko s S) (k : KeysIn) (hf : (⟨op, k⟩ : FuncId) ∉ S.cache)
    (hg : genFails ⟨op, k⟩ = true) :
    Py.runMethod (Src.operatordict_getitem (envOf canon genFails w op ko) k) s = (.error "codegen raised", s) := by
  rw [getitem_run]
  have hh : Py.dictHas s.operator_dict k = false := by rw [h.has]; exact decide_eq_false hf
  rw [hh]
  have hc : (envOf canon genFails w op ko).do_codegen k = .error "codegen raised" := by
    simp only [envOf, hg, if_true]
  rw [hc]
  rfl

theorem envOf_wrap (f : FuncId) :
    (match (envOf canon genFails w op ko).wrapper with | some w__ => w__ f | none => f) = f := by
  cases w <;> rfl

theorem getitem_gen_run (h : Rel op ko s S) (k : KeysIn) (hf : (⟨op, k⟩ : FuncId) ∉ S.cache)
    (hg : genFails ⟨op, k⟩ = false) :
    ∃ s', Py.runMethod (Src.operatordict_getitem (envOf canon genFails w op ko) k) s = (.ok (ko k, ⟨op, k⟩), s') ∧
      Rel op ko s' { cache := ⟨op, k⟩ :: S.cache, numspace := (name canon ⟨op, k⟩, ⟨op, k⟩) :: S.numspace,
                     gens := ⟨op, k⟩ :: S.gens } := by
  refine ⟨{ operator_dict := Py.dictSet s.operator_dict k (ko k, ⟨op, k⟩),
            numspace := Py.dictSet s.numspace (name canon ⟨op, k⟩) ⟨op, k⟩, gens := k :: s.gens }, ?_, ?_⟩
  · rw [getitem_run]
    have hh : Py.dictHas s.operator_dict k = false := by rw [h.has]; exact decide_eq_false hf
    rw [hh]
    have hc : (envOf canon genFails w op ko).do_codegen k = .ok (ko k, ⟨op, k⟩) := by
      simp only [envOf, hg, Bool.false_eq_true, if_false]
    rw [hc]
    simp only [Bool.false_eq_true, if_false, dictGet_set_self]
    cases w <;> rfl
  · constructor
    · intro k'
      show Py.dictHas (Py.dictSet s.operator_dict k (ko k, ⟨op, k⟩)) k' = decide ((⟨op, k'⟩ : FuncId) ∈ ⟨op, k⟩ :: S.cache)
      rw [dictHas_set, h.has]
      by_cases e : k = k'
      · subst e; simp
      · have : (⟨op, k'⟩ : FuncId) ≠ ⟨op, k⟩ := by
          intro hh; injection hh with _ h2; exact e h2.symm
        simp [e, this]
    · intro k' v hv
      change Py.dictGet (Py.dictSet s.operator_dict k (ko k, ⟨op, k⟩)) k' = .ok v at hv
      by_cases e : k = k'
      · subst e
        rw [dictGet_set_self] at hv
        injection hv with hv
        exact hv.symm
      · rw [dictGet_set_ne _ _ _ _ e] at hv
        exact h.get k' v hv
    · intro n
      show (Py.dictGet (Py.dictSet s.numspace (name canon ⟨op, k⟩) ⟨op, k⟩) n).toOption
        = lookupNS ((name canon ⟨op, k⟩, ⟨op, k⟩) :: S.numspace) n
      rw [lookupNS_cons]
      by_cases e : name canon ⟨op, k⟩ = n
      · subst e
        rw [dictGet_set_self, if_pos rfl]; rfl
      · rw [dictGet_set_ne _ _ _ _ e, if_neg e, h.ns]
    · show k :: s.gens = (((⟨op, k⟩ : FuncId) :: S.gens).filter (·.op == op)).map (·.keys)
      rw [h.gens]
      simp

theorem getitem_ok_run (h : Rel op ko s S) (k : KeysIn) (hr : (OD.getitem canon genFails S ⟨op, k⟩).2 = true) :
    ∃ s', Py.runMethod (Src.operatordict_getitem (envOf canon genFails w op ko) k) s = (.ok (ko k, ⟨op, k⟩), s') ∧
      Rel op ko s' (OD.getitem canon genFails S ⟨op, k⟩).1 := by
  by_cases hf : (⟨op, k⟩ : FuncId) ∈ S.cache
  · rw [getitem_hit canon genFails S _ hf]
    exact ⟨s, getitem_hit_run canon genFails w op ko h k hf, h⟩
  · cases hg : genFails ⟨op, k⟩
    · rw [getitem_gen canon genFails S _ hf hg]
      exact getitem_gen_run canon genFails w op ko h k hf hg
    · rw [getitem_fail canon genFails S _ hf hg] at hr
      cases hr

theorem getitem_err_run (h : Rel op ko s S) (k : KeysIn) (hr : (OD.getitem canon genFails S ⟨op, k⟩).2 = false) :
    Py.runMethod (Src.operatordict_getitem (envOf canon genFails w op ko) k) s = (.error "codegen raised", s) := by
  by_cases hf : (⟨op, k⟩ : FuncId) ∈ S.cache
  · rw [getitem_hit canon genFails S _ hf] at hr
    cases hr
  · cases hg : genFails ⟨op, k⟩
    · rw [getitem_gen canon genFails S _ hf hg] at hr
      cases hr
    · exact getitem_fail_run canon genFails w op ko h k hf hg

end refine

theorem call_snd_eq (canon : List Nat) (genFails : FuncId → Bool) (w : Bool) (S : OD.State) (f : FuncId) :
    (OD.call canon genFails w S f).2 =
      if (OD.getitem canon genFails S f).2 then
        (if w then lookupNS (OD.getitem canon genFails S f).1.numspace (name canon f) else some f)
      else none := by
  unfold OD.call
  rcases OD.getitem canon genFails S f with ⟨s', ok⟩
  cases ok <;> cases w <;> rfl

theorem toOption_eq_some {α : Type} (x : Except String α) (a : α) (h : x.toOption = some a) : x = .ok a := by
  cases x with
  | error e => cases h
  | ok b => injection h with h; rw [h]

/-- the empty python state is related to the model's initial state -/
theorem rel_init (op : Nat) (ko : KeysIn → List Nat) : Rel op ko ⟨[], [], []⟩ OD.init := by
  constructor
  · intro k; rfl
  · intro k v hv; cases hv
  · intro n; rfl
  · rfl

/-- **`OperatorDict.__getitem__` refines `OD.getitem`**: on a hit or a successful generation the python returns the
    pair (keys_out, function of (op, keys)) and moves to a state related to the model's next state; when the generation
    raises, the python raises and the model reports failure with its state unchanged -/
theorem operatordict_getitem_refines (canon : List Nat) (genFails : FuncId → Bool) (w : Bool) (op : Nat)
    (ko : KeysIn → List Nat) (s : Py.ODState KeysIn (List Nat) FuncId Name) (S : OD.State) (h : Rel op ko s S) (k : KeysIn) :
    let r := OD.getitem canon genFails S ⟨op, k⟩
    (r.2 = true → ∃ s', Py.runMethod (Src.operatordict_getitem (envOf canon genFails w op ko) k) s = (.ok (ko k, ⟨op, k⟩), s') ∧
        Rel op ko s' r.1) ∧
    (r.2 = false → ∃ e, Py.runMethod (Src.operatordict_getitem (envOf canon genFails w op ko) k) s = (.error e, s)) := by
  intro r
  exact ⟨fun hr => getitem_ok_run canon genFails w op ko h k hr,
    fun hr => ⟨_, getitem_err_run canon genFails w op ko h k hr⟩⟩

/-- the three `__getitem__` methods of the source are the same function -/
theorem unary_getitem_eq (env : Py.ODEnv KeysIn (List Nat) FuncId Name (List FuncId)) (k : KeysIn) :
    Src.unaryoperatordict_getitem env k = Src.operatordict_getitem env k := rfl

theorem registry_getitem_eq (env : Py.ODEnv KeysIn (List Nat) FuncId Name (List FuncId)) (k : KeysIn) :
    Src.registry_getitem env k = Src.operatordict_getitem env k := rfl

/-- **`UnaryOperatorDict.__call__` refines `OD.call`**: the function that is applied to the values is the one the model
    says serves the call (directly the cached one, or - numeric operands of an algebra with a wrapper - the one bound to
    its name in the numspace), and the states stay related; a failing generation raises -/
theorem unary_call_refines (canon : List Nat) (genFails : FuncId → Bool) (w : Bool) (op : Nat)
    (ko : KeysIn → List Nat) (s : Py.ODState KeysIn (List Nat) FuncId Name) (S : OD.State) (h : Rel op ko s S)
    (k : KeysIn) (vals : List FuncId) :
    let r := OD.call canon genFails w S ⟨op, k⟩
    (∀ f, r.2 = some f → ∃ s', Py.runMethod (Src.unaryoperatordict_call (envOf canon genFails w op ko) ⟨k, false, vals⟩) s
          = (.ok (ko k, f :: vals), s') ∧ Rel op ko s' r.1) ∧
    ((OD.getitem canon genFails S ⟨op, k⟩).2 = false →
      ∃ e, Py.runMethod (Src.unaryoperatordict_call (envOf canon genFails w op ko) ⟨k, false, vals⟩) s = (.error e, s)) := by
  intro r
  constructor
  · intro f hf
    have hr1 : r.1 = (OD.getitem canon genFails S ⟨op, k⟩).1 := call_fst canon genFails w S _
    have hr2 := call_snd_eq canon genFails w S ⟨op, k⟩
    rw [hr1]
    change (OD.call canon genFails w S ⟨op, k⟩).2 = some f at hf
    rw [hr2] at hf
    cases hg : (OD.getitem canon genFails S ⟨op, k⟩).2
    · rw [hg] at hf; cases hf
    · rw [hg, if_pos rfl] at hf
      obtain ⟨s', hrun, hrel⟩ := getitem_ok_run canon genFails w op ko h k hg
      refine ⟨s', ?_, hrel⟩
      rw [call_run]
      dsimp only
      rw [hrun]
      cases w
      · simp only [Bool.false_eq_true, if_false] at hf
        injection hf with hf
        subst hf
        rfl
      · rw [if_pos rfl] at hf
        have hd := toOption_eq_some _ _ ((hrel.ns _).trans hf)
        have hd' : Py.dictGet s'.numspace ((envOf canon genFails true op ko).name ⟨op, k⟩) = Except.ok f := hd
        have hcond : (false || !Py.truthy (envOf canon genFails true op ko).wrapper) = false := rfl
        simp only [hcond, hd', Bool.false_eq_true, if_false]
        rfl
  · intro hg
    refine ⟨"codegen raised", ?_⟩
    rw [call_run]
    dsimp only
    rw [getitem_err_run canon genFails w op ko h k hg]

/-- symbolic operands are always served by the cached function itself -/
theorem unary_call_symbolic (canon : List Nat) (genFails : FuncId → Bool) (w : Bool) (op : Nat)
    (ko : KeysIn → List Nat) (s : Py.ODState KeysIn (List Nat) FuncId Name) (S : OD.State) (h : Rel op ko s S)
    (k : KeysIn) (vals : List FuncId) (hg : (OD.getitem canon genFails S ⟨op, k⟩).2 = true) :
    ∃ s', Py.runMethod (Src.unaryoperatordict_call (envOf canon genFails w op ko) ⟨k, true, vals⟩) s
        = (.ok (ko k, ⟨op, k⟩ :: vals), s') ∧ Rel op ko s' (OD.getitem canon genFails S ⟨op, k⟩).1 := by
  obtain ⟨s', hrun, hrel⟩ := getitem_ok_run canon genFails w op ko h k hg
  refine ⟨s', ?_, hrel⟩
  rw [call_run]
  dsimp only
  rw [hrun]
  rfl

end Kingdon.SrcEq

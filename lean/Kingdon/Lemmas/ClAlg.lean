import Kingdon.Lemmas.Cocycle
import Mathlib.Algebra.BigOperators.Finsupp.Basic
import Mathlib.Algebra.Ring.Defs
import Mathlib.Data.Int.Cast.Lemmas
import Mathlib.Tactic.Ring
import Mathlib.Tactic.LinearCombination

open Finsupp

namespace Kingdon
noncomputable section

variable (sig : List Int) {α : Type} [CommRing α]

/-- geometric product on finitely supported blade-coefficient functions -/
def clMul (a b : ℕ →₀ α) : ℕ →₀ α :=
  a.sum fun i ai => b.sum fun j bj => single (i ^^^ j) ((csign sig i j : α) * ai * bj)

theorem csign_cocycle_cast (I J L : Nat) :
    ((csign sig (I ^^^ J) L : α)) * (csign sig I J : α) = (csign sig I (J ^^^ L) : α) * (csign sig J L : α) := by
  have := csign_cocycle sig I J L
  have h2 := congrArg (Int.cast (R := α)) this
  push_cast at h2
  rw [mul_comm, h2, mul_comm]

theorem clMul_assoc (a b c : ℕ →₀ α) : clMul sig (clMul sig a b) c = clMul sig a (clMul sig b c) := by
  classical
  simp only [clMul]
  rw [Finsupp.sum_sum_index (by intro; simp) (by intro i x y; simp [Finsupp.sum_add_index', mul_add, add_mul])]
  refine Finsupp.sum_congr fun i _ => ?_
  rw [Finsupp.sum_sum_index (by intro; simp) (by intro i x y; simp [Finsupp.sum_add_index', mul_add, add_mul])]
  conv_rhs => rw [Finsupp.sum_sum_index (by intro; simp) (by intro i x y; simp [mul_add, add_mul])]
  refine Finsupp.sum_congr fun j _ => ?_
  rw [Finsupp.sum_single_index (by simp)]
  conv_rhs => rw [Finsupp.sum_sum_index (by intro; simp) (by intro i x y; simp [mul_add, add_mul])]
  refine Finsupp.sum_congr fun k _ => ?_
  rw [Finsupp.sum_single_index (by simp)]
  rw [Nat.xor_assoc]
  congr 1
  have := csign_cocycle_cast (sig := sig) (α := α) i j k
  linear_combination (a i * b j * c k) * this

end
end Kingdon

import Kingdon.Lemmas.Cocycle
import Mathlib.Algebra.BigOperators.Finsupp.Basic
import Mathlib.Algebra.Ring.Defs
import Mathlib.Data.Int.Cast.Lemmas
import Mathlib.Tactic.Ring
import Mathlib.Tactic.LinearCombination

open Finsupp

namespace Kingdon
noncomputable section

variable {α : Type} [CommRing α]

/-- the abstract specification of every product-type operator: the bilinear extension of a blade table
    `e_i ∘ e_j = s i j • e_(ko i j)` to finitely supported blade-coefficient functions -/
def bilin (s : Nat → Nat → Int) (ko : Nat → Nat → Nat) (a b : ℕ →₀ α) : ℕ →₀ α :=
  a.sum fun i ai => b.sum fun j bj => single (ko i j) ((s i j : α) * ai * bj)

/-- Clifford-type product for a sign table `s` (blade `i` times blade `j` is `s i j` times blade `i xor j`) -/
def clMulS (s : Nat → Nat → Int) (a b : ℕ →₀ α) : ℕ →₀ α := bilin s (· ^^^ ·) a b

/-- the cocycle condition = associativity of blade multiplication -/
def IsCocycle (s : Nat → Nat → Int) : Prop :=
  ∀ I J L, s I J * s (I ^^^ J) L = s J L * s I (J ^^^ L)

theorem cocycle_cast {s : Nat → Nat → Int} (h : IsCocycle s) (I J L : Nat) :
    ((s (I ^^^ J) L : α)) * (s I J : α) = (s I (J ^^^ L) : α) * (s J L : α) := by
  have h2 := congrArg (Int.cast (R := α)) (h I J L)
  push_cast at h2
  rw [mul_comm, h2, mul_comm]

/-- associativity of the product on multivectors follows from the cocycle identity on blades -/
theorem clMulS_assoc {s : Nat → Nat → Int} (hs : IsCocycle s) (a b c : ℕ →₀ α) :
    clMulS s (clMulS s a b) c = clMulS s a (clMulS s b c) := by
  classical
  simp only [clMulS, bilin]
  rw [Finsupp.sum_sum_index (by intro; simp) (by intro i x y; simp [Finsupp.sum_add_index', mul_add, add_mul])]
  refine Finsupp.sum_congr fun i _ => ?_
  rw [Finsupp.sum_sum_index (by intro; simp) (by intro i x y; simp [Finsupp.sum_add_index', mul_add, add_mul])]
  conv_rhs => rw [Finsupp.sum_sum_index (by intro; simp) (by intro i x y; simp [mul_add, add_mul])]
  refine Finsupp.sum_congr fun j _ => ?_
  rw [Finsupp.sum_single_index (by simp)]
  conv_rhs => rw [Finsupp.sum_sum_index (by intro; simp) (by intro i x y; simp [mul_add, add_mul])]
  refine Finsupp.sum_congr fun k _ => ?_
  rw [Finsupp.sum_single_index (by simp)]
  rw [Nat.xor_assoc]
  congr 1
  have := cocycle_cast (α := α) hs i j k
  linear_combination (a i * b j * c k) * this

/-- geometric product for the canonical table of signature `sig` -/
abbrev clMul (sig : List Int) (a b : ℕ →₀ α) : ℕ →₀ α := clMulS (csign sig) a b

theorem csign_isCocycle (sig : List Int) : IsCocycle (csign sig) := csign_cocycle sig

theorem clMul_assoc (sig : List Int) (a b c : ℕ →₀ α) :
    clMul sig (clMul sig a b) c = clMul sig a (clMul sig b c) := clMulS_assoc (csign_isCocycle sig) a b c

end
end Kingdon

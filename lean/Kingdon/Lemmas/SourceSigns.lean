/-
  The translated `_swap_blades` and `_compute_sign` (algebra.py) equal the model's `swapBlades` / `Cfg.computeSign`.
-/
import Kingdon.Lemmas.SourceBase
import Kingdon.Lemmas.CfgSign
namespace Kingdon.SrcEq
open Kingdon

/-- one iteration of the first loop -/
def step1 {σ : Type} [BEq σ] (s : List σ × Int × List σ) (char : σ) : Py.M (List σ × Int × List σ) :=
  if (!s.1.contains char) = true then pure (Py.append s.1 char, s.2.1, s.2.2)
  else do
    let idx ← Py.index s.1 char
    let b ← Py.remove s.1 char
    pure (b, s.2.1 + (Py.len s.1 - idx - 1), Py.append s.2.2 char)

/-- one iteration of the second loop -/
def step2 {σ : Type} [BEq σ] (s : List σ × Int) (x : Int × σ) : Py.M (List σ × Int) := do
  let idx ← Py.index s.1 x.2
  let p ← Py.pop s.1 idx
  pure (Py.insert p.2 x.1 p.1, s.2 + (idx - x.1))

theorem forIn_yield_foldlM {α β : Type} (f : β → α → Py.M β) (l : List α) (init : β) :
    forIn l init (fun a s => do let r ← f s a; pure (ForInStep.yield r)) = l.foldlM f init := by
  induction l generalizing init with
  | nil => rfl
  | cons a l ih =>
    rw [List.forIn_cons, List.foldlM_cons]
    cases h : f init a with
    | error e => rfl
    | ok r => exact ih r

theorem swap_blades_unfold {σ : Type} [BEq σ] (b1 b2 t : List σ) :
    Src.swap_blades b1 b2 t = (do
      let s ← b2.foldlM step1 (b1, (0 : Int), [])
      if Py.truthy t = true then do
        let s2 ← (Py.enumerate t).foldlM step2 (s.1, s.2.1)
        pure (s2.2, s2.1, s.2.2)
      else pure (s.2.1, s.1, s.2.2)) := by
  unfold Src.swap_blades
  rw [← forIn_yield_foldlM]
  dsimp only []
  congr 1
  · congr 1
    funext char s
    unfold step1
    split
    · rfl
    · simp only [bind_assoc, pure_bind]
  · funext s
    split
    · rw [← forIn_yield_foldlM]
      congr 2
      funext x s
      unfold step2
      simp only [bind_assoc, pure_bind]
    · rfl

theorem idxOf?_of_mem {σ : Type} [BEq σ] [LawfulBEq σ] (l : List σ) (c : σ) (h : c ∈ l) :
    l.idxOf? c = some (l.idxOf c) := by
  induction l with
  | nil => simp at h
  | cons a l ih =>
    rw [List.idxOf?_cons, List.idxOf_cons]
    by_cases e : a = c
    · simp [e]
    · have hm : c ∈ l := by
        rcases List.mem_cons.mp h with h | h
        · exact absurd h.symm e
        · exact h
      have e' : (a == c) = false := by simpa using e
      simp [e', ih hm]

theorem index_of_mem {σ : Type} [BEq σ] [LawfulBEq σ] (l : List σ) (c : σ) (h : c ∈ l) :
    Py.index l c = .ok (Int.ofNat (l.idxOf c)) := by
  unfold Py.index; rw [idxOf?_of_mem l c h]; rfl

theorem index_of_not_mem {σ : Type} [BEq σ] [LawfulBEq σ] (l : List σ) (c : σ) (h : c ∉ l) :
    Py.index l c = .error "ValueError" := by
  unfold Py.index; rw [List.idxOf?_eq_none_iff.mpr h]; rfl

theorem pop_lt {σ : Type} (l : List σ) (j : Nat) (h : j < l.length) :
    Py.pop l (Int.ofNat j) = .ok (l[j], l.eraseIdx j) := by
  unfold Py.pop Py.normIdx
  simp [h]
  rfl

theorem insert_le {σ : Type} (l : List σ) (i : Nat) (x : σ) (h : i ≤ l.length) :
    Py.insert l (Int.ofNat i) x = l.insertIdx i x := by
  unfold Py.insert
  simp [Nat.min_eq_left h]

theorem step1_mem {σ : Type} [BEq σ] [LawfulBEq σ] (b1 : List σ) (sw : Int) (el : List σ) (c : σ) (h : c ∈ b1) :
    step1 (b1, sw, el) c = .ok (b1.erase c, sw + (Int.ofNat b1.length - Int.ofNat (b1.idxOf c) - 1), el ++ [c]) := by
  unfold step1
  have hc : b1.contains c = true := by simpa using h
  rw [if_neg (by simp [h])]
  simp only [index_of_mem b1 c h, Py.remove, hc, if_true]
  rfl

theorem step1_not_mem {σ : Type} [BEq σ] [LawfulBEq σ] (b1 : List σ) (sw : Int) (el : List σ) (c : σ) (h : c ∉ b1) :
    step1 (b1, sw, el) c = .ok (b1 ++ [c], sw, el) := by
  unfold step1
  have hc : b1.contains c = false := by simpa using h
  rw [if_pos (by simp [h])]
  rfl

theorem loop1_eq : ∀ (b2 b1 : List Nat) (sw : Nat) (el : List Nat),
    b2.foldlM step1 (b1, Int.ofNat sw, el) =
      .ok ((phase1 b1 b2 sw el).1, Int.ofNat (phase1 b1 b2 sw el).2.1, (phase1 b1 b2 sw el).2.2) := by
  intro b2
  induction b2 with
  | nil => intro b1 sw el; rfl
  | cons c b2 ih =>
    intro b1 sw el
    rw [List.foldlM_cons]
    by_cases hm : c ∈ b1
    · rw [step1_mem b1 _ el c hm]
      have hlt := List.idxOf_lt_length_of_mem hm
      have e : Int.ofNat sw + (Int.ofNat b1.length - Int.ofNat (b1.idxOf c) - 1)
          = Int.ofNat (sw + (b1.length - b1.idxOf c - 1)) := by
        simp only [Int.ofNat_eq_natCast]; omega
      rw [e]
      simp only [phase1, hm, if_true]
      exact ih _ _ _
    · rw [step1_not_mem b1 _ el c hm]
      simp only [phase1, hm, if_false]
      exact ih _ _ _


theorem step2_mem {σ : Type} [BEq σ] [LawfulBEq σ] (l : List σ) (sw : Int) (i : Int) (c : σ) (h : c ∈ l) :
    step2 (l, sw) (i, c) =
      .ok (Py.insert (l.eraseIdx (l.idxOf c)) i c, sw + (Int.ofNat (l.idxOf c) - i)) := by
  unfold step2
  have hlt := List.idxOf_lt_length_of_mem h
  rw [index_of_mem l c h]
  show (Py.pop l (Int.ofNat (l.idxOf c)) >>= fun p =>
    pure (Py.insert p.2 i p.1, sw + (Int.ofNat (l.idxOf c) - i))) = _
  rw [pop_lt l _ hlt, List.getElem_idxOf hlt]
  rfl

theorem step2_not_mem {σ : Type} [BEq σ] [LawfulBEq σ] (l : List σ) (sw : Int) (i : Int) (c : σ) (h : c ∉ l) :
    step2 (l, sw) (i, c) = .error "ValueError" := by
  unfold step2
  simp only [index_of_not_mem l c h]
  rfl

theorem loop2_eq : ∀ (t pre rest : List Nat) (sw : Nat), t.Nodup → (∀ c ∈ t, c ∉ pre ∧ c ∈ rest) →
    (Py.enumerateFrom pre.length t).foldlM step2 (pre ++ rest, Int.ofNat sw) =
      .ok ((phase2 (pre ++ rest) t pre.length sw).1, Int.ofNat (phase2 (pre ++ rest) t pre.length sw).2) := by
  intro t
  induction t with
  | nil => intro pre rest sw _ _; rfl
  | cons c t ih =>
    intro pre rest sw hnd hm
    obtain ⟨hcp, hcr⟩ := hm c (by simp)
    have hidx : (pre ++ rest).idxOf c = pre.length + rest.idxOf c := by
      rw [List.idxOf_append_of_notMem hcp]
    have herase : (pre ++ rest).eraseIdx (pre.length + rest.idxOf c) = pre ++ rest.erase c := by
      rw [List.eraseIdx_append_of_length_le (by omega), List.erase_eq_eraseIdx_of_idxOf rfl]
      congr 2; omega
    have hins : Py.insert (pre ++ rest.erase c) (Int.ofNat pre.length) c = (pre ++ [c]) ++ rest.erase c := by
      rw [insert_le _ _ _ (by simp), insertIdx_append_length]; simp
    simp only [Py.enumerateFrom, List.foldlM_cons, phase2]
    rw [step2_mem _ _ _ _ (by simp [hcr]), hidx, herase, hins]
    have hsw : Int.ofNat sw + (Int.ofNat (pre.length + rest.idxOf c) - Int.ofNat pre.length)
        = Int.ofNat (sw + (pre.length + rest.idxOf c - pre.length)) := by
      simp only [Int.ofNat_eq_natCast]; omega
    have hins' : (pre ++ rest.erase c).insertIdx pre.length c = (pre ++ [c]) ++ rest.erase c := by
      rw [insertIdx_append_length]; simp
    rw [hsw, hins']
    have hl : (pre ++ [c]).length = pre.length + 1 := by simp
    have := ih (pre ++ [c]) (rest.erase c) (sw + (pre.length + rest.idxOf c - pre.length))
      (List.nodup_cons.mp hnd).2
      (by
        intro c' hc'
        obtain ⟨h1, h2⟩ := hm c' (by simp [hc'])
        have hne : c' ≠ c := fun e => (List.nodup_cons.mp hnd).1 (e ▸ hc')
        refine ⟨?_, (List.mem_erase_of_ne hne).mpr h2⟩
        simp [h1, hne])
    rw [hl] at this
    exact this

theorem mem_insertIdx_imp' {σ : Type} (l : List σ) (i : Nat) (c x : σ) (h : x ∈ l.insertIdx i c) : x = c ∨ x ∈ l := by
  by_cases hi : i ≤ l.length
  · exact (List.mem_insertIdx hi).mp h
  · rw [List.insertIdx_of_length_lt (by omega)] at h; exact Or.inr h

theorem step2_subset {σ : Type} [BEq σ] [LawfulBEq σ] (l l' : List σ) (sw sw' : Int) (i : Int) (c : σ)
    (h : step2 (l, sw) (i, c) = .ok (l', sw')) : ∀ x ∈ l', x ∈ l := by
  by_cases hm : c ∈ l
  · rw [step2_mem l sw i c hm] at h
    injection h with h
    injection h with h1 h2
    subst h1
    intro x hx
    unfold Py.insert at hx
    rcases mem_insertIdx_imp' _ _ _ _ hx with hx | hx
    · exact hx ▸ hm
    · exact List.mem_of_mem_eraseIdx hx
  · rw [step2_not_mem l sw i c hm] at h; cases h


theorem loop2_raises {σ : Type} [BEq σ] [LawfulBEq σ] : ∀ (t : List σ) (n : Nat) (l : List σ) (sw : Int) (c : σ),
    c ∈ t → c ∉ l → ∃ e, (Py.enumerateFrom n t).foldlM step2 (l, sw) = .error e := by
  intro t
  induction t with
  | nil => intro n l sw c h; simp at h
  | cons a t ih =>
    intro n l sw c hc hl
    simp only [Py.enumerateFrom, List.foldlM_cons]
    cases hs : step2 (l, sw) (Int.ofNat n, a) with
    | error e => exact ⟨e, rfl⟩
    | ok r =>
      obtain ⟨l', sw'⟩ := r
      have hsub := step2_subset l l' sw sw' _ a hs
      have hne : c ≠ a := by
        intro e; subst e
        rw [step2_not_mem l sw _ c hl] at hs; cases hs
      have hct : c ∈ t := by
        rcases List.mem_cons.mp hc with h | h
        · exact absurd h hne
        · exact h
      exact ih (n + 1) l' sw' c hct (fun h => hl (hsub c h))

/-- `_swap_blades` on letters that are natural numbers is the model's `swapBlades`, whenever the python code
    does not raise: every letter of a (duplicate-free) target occurs in what the first loop leaves. -/
theorem swap_blades_eq (b1 b2 t : List Nat) (hnd : t.Nodup)
    (hmem : ∀ c ∈ t, c ∈ (phase1 b1 b2 0 []).1) :
    Src.swap_blades b1 b2 t =
      .ok (Int.ofNat (swapBlades b1 b2 t).1, (swapBlades b1 b2 t).2.1, (swapBlades b1 b2 t).2.2) := by
  rw [swap_blades_unfold]
  have h1 := loop1_eq b2 b1 0 []
  have h1' : List.foldlM step1 (b1, (0 : Int), []) b2 = _ := h1
  rw [h1']
  show (if Py.truthy t = true then _ else _) = _
  split
  · have h2 := loop2_eq t [] (phase1 b1 b2 0 []).1 (phase1 b1 b2 0 []).2.1 hnd
      (fun c hc => ⟨by simp, hmem c hc⟩)
    simp only [List.nil_append, List.length_nil] at h2
    simp only [Py.enumerate]
    rw [h2]
    rfl
  · rename_i ht
    have : t = [] := by
      cases t with
      | nil => rfl
      | cons a t => exact absurd rfl ht
    subst this
    rfl

/-- the error branch: a target letter that the first loop did not leave makes the python raise `ValueError` -/
theorem swap_blades_raises (b1 b2 t : List Nat) (c : Nat) (hc : c ∈ t)
    (hmem : c ∉ (phase1 b1 b2 0 []).1) :
    ∃ e, Src.swap_blades b1 b2 t = .error e := by
  rw [swap_blades_unfold]
  have h1 : List.foldlM step1 (b1, (0 : Int), []) b2 = _ := loop1_eq b2 b1 0 []
  rw [h1]
  show ∃ e, (if Py.truthy t = true then _ else _) = _
  have ht : Py.truthy t = true := by
    cases t with
    | nil => simp at hc
    | cons a t => rfl
  rw [if_pos ht]
  obtain ⟨e, he⟩ := loop2_raises t 0 (phase1 b1 b2 0 []).1 (Int.ofNat (phase1 b1 b2 0 []).2.1) c hc hmem
  refine ⟨e, ?_⟩
  simp only [Py.enumerate]
  rw [he]
  rfl


theorem foldlM_map_comm {α α' β β' : Type} (g : α → α') (h : β → β') (st : β → α → Py.M β)
    (st' : β' → α' → Py.M β') (hc : ∀ s a, st' (h s) (g a) = (st s a).map h) (l : List α) (s : β) :
    (l.map g).foldlM st' (h s) = (l.foldlM st s).map h := by
  induction l generalizing s with
  | nil => rfl
  | cons a l ih =>
    rw [List.map_cons, List.foldlM_cons, List.foldlM_cons, hc]
    cases hs : st s a with
    | error e => rfl
    | ok r => exact ih r

section Map
variable {σ τ : Type} [BEq σ] [LawfulBEq σ] [BEq τ] [LawfulBEq τ] (f : σ → τ) (hf : Function.Injective f)
include hf

omit [BEq σ] [LawfulBEq σ] [BEq τ] [LawfulBEq τ] in
theorem mem_map_inj (l : List σ) (c : σ) : f c ∈ l.map f ↔ c ∈ l := by
  constructor
  · intro h
    obtain ⟨x, hx, e⟩ := List.mem_map.mp h
    exact hf e ▸ hx
  · exact List.mem_map_of_mem

theorem idxOf_map_inj (l : List σ) (c : σ) : (l.map f).idxOf (f c) = l.idxOf c := by
  induction l with
  | nil => simp
  | cons a l ih =>
    rw [List.map_cons, List.idxOf_cons, List.idxOf_cons, ih]
    by_cases e : a = c
    · subst e; simp
    · have e1 : (a == c) = false := by simpa using e
      have e2 : (f a == f c) = false := by simpa using fun h => e (hf h)
      rw [e1, e2]

theorem erase_map_inj (l : List σ) (c : σ) : (l.map f).erase (f c) = (l.erase c).map f := by
  induction l with
  | nil => simp
  | cons a l ih =>
    rw [List.map_cons, List.erase_cons, List.erase_cons, ih]
    by_cases e : a = c
    · subst e; simp
    · have e1 : (a == c) = false := by simpa using e
      have e2 : (f a == f c) = false := by simpa using fun h => e (hf h)
      rw [e1, e2]; simp

theorem step1_map (s : List σ × Int × List σ) (c : σ) :
    step1 (s.1.map f, s.2.1, s.2.2.map f) (f c) =
      (step1 s c).map (fun r => (r.1.map f, r.2.1, r.2.2.map f)) := by
  obtain ⟨b1, sw, el⟩ := s
  by_cases hm : c ∈ b1
  · rw [step1_mem _ _ _ _ ((mem_map_inj f hf b1 c).mpr hm), step1_mem _ _ _ _ hm,
      idxOf_map_inj f hf, erase_map_inj f hf, List.length_map]
    simp [Except.map]
  · rw [step1_not_mem _ _ _ _ (fun h => hm ((mem_map_inj f hf b1 c).mp h)), step1_not_mem _ _ _ _ hm]
    simp [Except.map]

omit [BEq σ] [LawfulBEq σ] [BEq τ] [LawfulBEq τ] hf in
theorem insert_map (l : List σ) (i : Int) (c : σ) : Py.insert (l.map f) i (f c) = (Py.insert l i c).map f := by
  unfold Py.insert
  simp only [List.length_map, List.map_insertIdx]

theorem step2_map (s : List σ × Int) (x : Int × σ) :
    step2 (s.1.map f, s.2) (x.1, f x.2) = (step2 s x).map (fun r => (r.1.map f, r.2)) := by
  obtain ⟨l, sw⟩ := s
  obtain ⟨i, c⟩ := x
  by_cases hm : c ∈ l
  · rw [step2_mem _ _ _ _ ((mem_map_inj f hf l c).mpr hm), step2_mem _ _ _ _ hm,
      idxOf_map_inj f hf, List.eraseIdx_map, insert_map f]
    rfl
  · rw [step2_not_mem _ _ _ _ (fun h => hm ((mem_map_inj f hf l c).mp h)), step2_not_mem _ _ _ _ hm]
    rfl

omit hf [BEq σ] [LawfulBEq σ] [BEq τ] [LawfulBEq τ] in
theorem enumerateFrom_map (n : Nat) (t : List σ) :
    Py.enumerateFrom n (t.map f) = (Py.enumerateFrom n t).map (fun x => (x.1, f x.2)) := by
  induction t generalizing n with
  | nil => rfl
  | cons a t ih => simp [Py.enumerateFrom, ih]

theorem swap_blades_map_aux (b1 b2 t : List σ) :
    Src.swap_blades (b1.map f) (b2.map f) (t.map f) =
      (Src.swap_blades b1 b2 t).map (fun r => (r.1, r.2.1.map f, r.2.2.map f)) := by
  rw [swap_blades_unfold, swap_blades_unfold]
  have h1 := foldlM_map_comm f (fun r : List σ × Int × List σ => (r.1.map f, r.2.1, r.2.2.map f))
    step1 step1 (step1_map f hf) b2 (b1, 0, [])
  simp only [List.map_nil] at h1
  rw [h1]
  cases hs : List.foldlM step1 (b1, (0 : Int), []) b2 with
  | error e => rfl
  | ok s =>
    have ht : Py.truthy (t.map f) = Py.truthy t := by cases t <;> rfl
    show (if Py.truthy (t.map f) = true then _ else _) = Except.map _ (if Py.truthy t = true then _ else _)
    rw [ht]
    split
    · have h2 := foldlM_map_comm (fun x : Int × σ => (x.1, f x.2)) (fun r : List σ × Int => (r.1.map f, r.2))
        step2 step2 (step2_map f hf) (Py.enumerate t) (s.1, s.2.1)
      simp only [Py.enumerate, enumerateFrom_map] at h2 ⊢
      rw [h2]
      cases hs2 : List.foldlM step2 (s.1, s.2.1) (Py.enumerateFrom 0 t) with
      | error e => rfl
      | ok s2 => rfl
    · rfl
end Map


/-- `_swap_blades` commutes with an injective relabelling of its letters (python strings are lists of `Char`) -/
theorem swap_blades_map {σ τ : Type} [BEq σ] [LawfulBEq σ] [BEq τ] [LawfulBEq τ] (f : σ → τ)
    (hf : Function.Injective f) (b1 b2 t : List σ) :
    Src.swap_blades (b1.map f) (b2.map f) (t.map f) =
      (Src.swap_blades b1 b2 t).map (fun r => (r.1, r.2.1.map f, r.2.2.map f)) :=
  swap_blades_map_aux f hf b1 b2 t

theorem hexChar_cases (l : Nat) (h : l < 16) : l = 0 ∨ l = 1 ∨ l = 2 ∨ l = 3 ∨ l = 4 ∨ l = 5 ∨ l = 6 ∨ l = 7 ∨
    l = 8 ∨ l = 9 ∨ l = 10 ∨ l = 11 ∨ l = 12 ∨ l = 13 ∨ l = 14 ∨ l = 15 := by omega

/-- `int(hexChar l, base=16) = l` for one-digit labels -/
theorem hexDigit_hexChar (l : Nat) (h : l < 16) : Py.hexDigit (hexChar l) = .ok (Int.ofNat l) := by
  rcases hexChar_cases l h with h|h|h|h|h|h|h|h|h|h|h|h|h|h|h|h <;> subst h <;> rfl

theorem hexChar_injOn (a b : Nat) (ha : a < 16) (hb : b < 16) (h : hexChar a = hexChar b) : a = b := by
  have h1 := hexDigit_hexChar a ha
  have h2 := hexDigit_hexChar b hb
  rw [h, h2] at h1
  injection h1 with h1
  exact (Int.ofNat.inj h1).symm


theorem dictGet_bin2canon (c : Cfg) (h : Cfg.Adm c) (I : Nat) (hI : I < 2 ^ c.d) :
    Py.dictGet (algOf c).bin2canon (Int.ofNat I) = .ok (pyName (c.nameOf I)) := by
  obtain ⟨n, hn, hb⟩ := h.spelled I hI
  unfold Py.dictGet algOf Cfg.nameOf
  simp only [List.find?_map]
  have hfun : ((fun x : Int × List Char => x.1 == Int.ofNat I) ∘ fun n => (Int.ofNat (c.binOf n), pyName n))
      = fun n => c.binOf n == I := by
    funext n
    simp only [Function.comp, Int.ofNat_eq_natCast]
    by_cases e : c.binOf n = I
    · simp [e]
    · have : ¬ ((c.binOf n : Int) = (I : Int)) := fun h => e (Int.ofNat.inj h)
      simp [e, this]
  rw [hfun]
  cases hf : c.basis.find? (fun n => c.binOf n == I) with
  | none =>
    rw [List.find?_eq_none] at hf
    exact absurd (by simpa using hb) (hf n hn)
  | some m => rfl

theorem xor_ofNat (I J : Nat) : Py.xor (Int.ofNat I) (Int.ofNat J) = Int.ofNat (I ^^^ J) := rfl

theorem sliceFrom_pyName (n : List Nat) : Py.sliceFrom (pyName n) 1 = n.map hexChar := rfl

theorem getItem_lt {α : Type} (l : List α) (j : Nat) (h : j < l.length) :
    Py.getItem l (Int.ofNat j) = .ok l[j] := by
  unfold Py.getItem Py.normIdx
  simp [h]
  rfl

theorem getItem_metric (c : Cfg) (h : Cfg.Adm c) (l : Nat) (hl : l ∈ c.vecs) :
    Py.getItem (algOf c).signature (Int.ofNat l - (algOf c).start_index) = .ok (c.metric l) := by
  obtain ⟨h1, h2⟩ := h.vecs_range l hl
  have hlt : l - c.start < c.signature.length := by unfold Cfg.d at h2; omega
  have e : Int.ofNat l - (algOf c).start_index = Int.ofNat (l - c.start) := by
    simp only [algOf, Int.ofNat_eq_natCast]; omega
  rw [e]
  show Py.getItem c.signature _ = _
  rw [getItem_lt _ _ hlt]
  unfold Cfg.metric
  rw [getElem!_pos c.signature _ hlt]

/-- one iteration of the metric loop of `_compute_sign` -/
def step3 (alg : Src.Alg) (s : Int) (key : Char) : Py.M Int := do
  let a ← Py.hexDigit key
  let b ← Py.getItem alg.signature (a - alg.start_index)
  pure (s * b)

theorem loop3_eq (c : Cfg) (h : Cfg.Adm c) (h16 : ∀ v ∈ c.vecs, v < 16) :
    ∀ (el : List Nat) (s : Int), (∀ l ∈ el, l ∈ c.vecs) →
    (el.map hexChar).foldlM (step3 (algOf c)) s = .ok (s * (el.map c.metric).prod) := by
  intro el
  induction el with
  | nil => intro s _; simp [List.foldlM_nil]; rfl
  | cons a el ih =>
    intro s hl
    have ha := hl a (by simp)
    rw [List.map_cons, List.foldlM_cons]
    have : step3 (algOf c) s (hexChar a) = .ok (s * c.metric a) := by
      unfold step3
      rw [hexDigit_hexChar a (h16 a ha)]
      show (Py.getItem (algOf c).signature (Int.ofNat a - (algOf c).start_index) >>= fun b => pure (s * b)) = _
      rw [getItem_metric c h a ha]
      rfl
    rw [this]
    show List.foldlM (step3 (algOf c)) (s * c.metric a) (el.map hexChar) = _
    rw [ih _ (fun l hl' => hl l (by simp [hl'])), List.map_cons, List.prod_cons, Int.mul_assoc]


/-- labels below 16 as `Fin 16` (on which `hexChar` is injective) -/
def toF (x : Nat) : Fin 16 := ⟨x % 16, Nat.mod_lt _ (by decide)⟩

/-- `hexChar` on `Fin 16` -/
def hexF (i : Fin 16) : Char := hexChar i.val

theorem hexF_injective : Function.Injective hexF := by
  intro a b h
  exact Fin.ext (hexChar_injOn a.val b.val a.isLt b.isLt h)

theorem map_toF_val (l : List Nat) (h : ∀ x ∈ l, x < 16) : (l.map toF).map Fin.val = l := by
  rw [List.map_map]
  conv => rhs; rw [← List.map_id l]
  apply List.map_congr_left
  intro x hx
  simp only [Function.comp, toF, id]
  exact Nat.mod_eq_of_lt (h x hx)

theorem map_toF_hexF (l : List Nat) (h : ∀ x ∈ l, x < 16) : (l.map toF).map hexF = l.map hexChar := by
  rw [List.map_map]
  apply List.map_congr_left
  intro x hx
  simp only [Function.comp, toF, hexF]
  rw [Nat.mod_eq_of_lt (h x hx)]

theorem map_val_hexChar (l : List (Fin 16)) : (l.map Fin.val).map hexChar = l.map hexF := by
  rw [List.map_map]; rfl

/-- **InjOn-style variant** of `swap_blades_eq` for hex-digit strings: on labels `< 16` the translated `_swap_blades`
    run on the python strings returns the model's result, spelled with `hexChar` -/
theorem swap_blades_hex (b1 b2 t : List Nat) (h1 : ∀ x ∈ b1, x < 16) (h2 : ∀ x ∈ b2, x < 16)
    (ht : ∀ x ∈ t, x < 16) (hnd : t.Nodup) (hmem : ∀ c ∈ t, c ∈ (phase1 b1 b2 0 []).1) :
    Src.swap_blades (b1.map hexChar) (b2.map hexChar) (t.map hexChar) =
      .ok (Int.ofNat (swapBlades b1 b2 t).1, (swapBlades b1 b2 t).2.1.map hexChar,
        (swapBlades b1 b2 t).2.2.map hexChar) := by
  have hv := swap_blades_map Fin.val (fun a b h => Fin.ext h) (b1.map toF) (b2.map toF) (t.map toF)
  rw [map_toF_val b1 h1, map_toF_val b2 h2, map_toF_val t ht, swap_blades_eq b1 b2 t hnd hmem] at hv
  have hx := swap_blades_map hexF hexF_injective (b1.map toF) (b2.map toF) (t.map toF)
  rw [map_toF_hexF b1 h1, map_toF_hexF b2 h2, map_toF_hexF t ht] at hx
  rw [hx]
  cases hA : Src.swap_blades (b1.map toF) (b2.map toF) (t.map toF) with
  | error e => rw [hA] at hv; cases hv
  | ok r =>
    rw [hA] at hv
    injection hv with hv
    obtain ⟨sw, res, el⟩ := r
    injection hv with e1 hv
    injection hv with e2 e3
    simp only at e1 e2 e3
    show Except.ok (sw, res.map hexF, el.map hexF) = _
    rw [e1, e2, e3, map_val_hexChar, map_val_hexChar]

theorem compute_sign_unfold_some (alg : Src.Alg) (I J : Int) (eI eJ : List Char) :
    Src.compute_sign alg (I, J) (some (eI, eJ)) = (do
      let d ← Py.dictGet alg.bin2canon (Py.xor I J)
      let r ← Src.swap_blades (Py.sliceFrom eI 1) (Py.sliceFrom eJ 1) (Py.sliceFrom d 1)
      r.2.2.foldlM (step3 alg) (if Py.truthy (r.1 % 2) = true then -1 else 1)) := by
  unfold Src.compute_sign
  simp only [pure_bind]
  congr 1
  funext d
  congr 1
  funext r
  obtain ⟨sw, res, el⟩ := r
  simp only [bind_pure]
  rw [← forIn_yield_foldlM]
  congr 1
  funext key s
  unfold step3
  simp only [bind_assoc, pure_bind]

theorem compute_sign_unfold_none (alg : Src.Alg) (I J : Int) :
    Src.compute_sign alg (I, J) none = (do
      let eI ← Py.dictGet alg.bin2canon I
      let eJ ← Py.dictGet alg.bin2canon J
      Src.compute_sign alg (I, J) (some (eI, eJ))) := by
  unfold Src.compute_sign
  simp only [bind_assoc, pure_bind]

/-- every letter of the stored name of `I ^^^ J` survives the first loop on the names of `I` and `J` -/
theorem target_mem (c : Cfg) (h : Cfg.Adm c) (I J : Nat) (hI : I < 2 ^ c.d) (hJ : J < 2 ^ c.d) :
    ∀ x ∈ c.nameOf (I ^^^ J), x ∈ (phase1 (c.nameOf I) (c.nameOf J) 0 []).1 := by
  have hK : I ^^^ J < 2 ^ c.d := Nat.xor_lt_two_pow hI hJ
  have mI := fun l hl => h.names_letters _ (Cfg.nameOf_mem c h I hI).1 l hl
  have mJ := fun l hl => h.names_letters _ (Cfg.nameOf_mem c h J hJ).1 l hl
  have mK := fun l hl => h.names_letters _ (Cfg.nameOf_mem c h _ hK).1 l hl
  obtain ⟨nI, _, bI⟩ := Cfg.word_facts c h I hI
  obtain ⟨nJ, _, bJ⟩ := Cfg.word_facts c h J hJ
  obtain ⟨nK, _, bK⟩ := Cfg.word_facts c h _ hK
  have hp := perm_residue _ _ _ nI nJ nK (by rw [bI, bJ, bK])
  have hmap := phase1_map (fun l => c.vecs.idxOf l) (c.nameOf J) (c.nameOf I) 0 []
    (by
      intro x y hx hy e
      have mem : ∀ z, z ∈ c.nameOf I ++ c.nameOf J → z ∈ c.vecs := by
        intro z hz
        rcases List.mem_append.mp hz with hz | hz
        · exact mI z hz
        · exact mJ z hz
      exact Cfg.idx_inj c x y (mem x hx) (mem y hy) e)
  simp only [List.map_nil] at hmap
  intro x hx
  have hxw : c.vecs.idxOf x ∈ c.wordOf (c.nameOf (I ^^^ J)) := List.mem_map_of_mem hx
  have := hp.subset hxw
  simp only [Cfg.wordOf] at this
  rw [hmap] at this
  obtain ⟨y, hy, e⟩ := List.mem_map.mp this
  have hyv : y ∈ c.vecs := by
    rcases phase1_mem _ _ _ _ _ hy with hy | hy
    · exact mI y hy
    · exact mJ y hy
  exact Cfg.idx_inj c y x hyv (mK x hx) e ▸ hy

theorem sign_parity (n : Nat) :
    (if Py.truthy (Int.ofNat n % 2) = true then (-1 : Int) else 1) = if n % 2 = 1 then -1 else 1 := by
  have : Py.truthy (Int.ofNat n % 2) = (Int.ofNat n % 2 != 0) := rfl
  rw [this]
  by_cases e : n % 2 = 1
  · have : Int.ofNat n % 2 = 1 := by simp only [Int.ofNat_eq_natCast]; omega
    rw [this, if_pos e]; rfl
  · have : Int.ofNat n % 2 = 0 := by simp only [Int.ofNat_eq_natCast]; omega
    rw [this, if_neg e]; rfl

/-- the same when the caller passes the two names (as `_prepare_signs` does for `d ≤ 6`) -/
theorem compute_sign_eq_pair (c : Cfg) (h : Cfg.Adm c) (h16 : ∀ v ∈ c.vecs, v < 16) (hlen : c.signature.length = c.d)
    (I J : Nat) (hI : I < 2 ^ c.d) (hJ : J < 2 ^ c.d) :
    Src.compute_sign (algOf c) (Int.ofNat I, Int.ofNat J) (some (pyName (c.nameOf I), pyName (c.nameOf J)))
      = .ok (c.computeSign I J) := by
  have _ := hlen
  have hK : I ^^^ J < 2 ^ c.d := Nat.xor_lt_two_pow hI hJ
  have mI := fun l hl => h.names_letters _ (Cfg.nameOf_mem c h I hI).1 l hl
  have mJ := fun l hl => h.names_letters _ (Cfg.nameOf_mem c h J hJ).1 l hl
  have mK := fun l hl => h.names_letters _ (Cfg.nameOf_mem c h _ hK).1 l hl
  rw [compute_sign_unfold_some, xor_ofNat, dictGet_bin2canon c h _ hK]
  show (Src.swap_blades ((c.nameOf I).map hexChar) ((c.nameOf J).map hexChar)
    ((c.nameOf (I ^^^ J)).map hexChar) >>= _) = _
  rw [swap_blades_hex _ _ _ (fun x hx => h16 x (mI x hx)) (fun x hx => h16 x (mJ x hx))
    (fun x hx => h16 x (mK x hx)) (h.names_nodup _ (Cfg.nameOf_mem c h _ hK).1) (target_mem c h I J hI hJ)]
  show List.foldlM (step3 (algOf c)) _ (List.map hexChar _) = _
  have hel : ∀ l ∈ (swapBlades (c.nameOf I) (c.nameOf J) (c.nameOf (I ^^^ J))).2.2, l ∈ c.vecs := by
    intro l hl
    simp only [swapBlades] at hl
    rcases phase1_el_mem _ _ _ _ _ hl with hl | hl
    · simp at hl
    · exact mJ l hl
  rw [loop3_eq c h h16 _ _ hel, sign_parity]
  rfl

/-- **`_compute_sign` is `Cfg.computeSign`**: for every admissible configuration whose labels are single hex digits
    and every pair of blades of the algebra, the translated python returns the model's sign (and does not raise). -/
theorem compute_sign_eq (c : Cfg) (h : Cfg.Adm c) (h16 : ∀ v ∈ c.vecs, v < 16) (hlen : c.signature.length = c.d)
    (I J : Nat) (hI : I < 2 ^ c.d) (hJ : J < 2 ^ c.d) :
    Src.compute_sign (algOf c) (Int.ofNat I, Int.ofNat J) none = .ok (c.computeSign I J) := by
  rw [compute_sign_unfold_none, dictGet_bin2canon c h I hI, dictGet_bin2canon c h J hJ]
  exact compute_sign_eq_pair c h h16 hlen I J hI hJ

end Kingdon.SrcEq

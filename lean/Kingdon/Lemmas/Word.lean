import Kingdon.Lemmas.Cocycle
namespace Kingdon

theorem parity_zero (w : Nat) : parity w 0 = false := by
  induction w with
  | zero => rfl
  | succ w ih => simp [parity, ih]

theorem csign_zero_left (sig : List Int) (J : Nat) : csign sig 0 J = 1 := by
  induction sig generalizing J with
  | nil => rfl
  | cons s sig ih => simp [csign, parity_zero, ih]

theorem csign_zero_right (sig : List Int) (I : Nat) : csign sig I 0 = 1 := by
  induction sig generalizing I with
  | nil => rfl
  | cons s sig ih => simp [csign, ih]

theorem SB.mul_assoc (sig) (a b c : SB) : SB.mul sig (SB.mul sig a b) c = SB.mul sig a (SB.mul sig b c) := by
  simp only [SB.mul, Nat.xor_assoc, SB.mk.injEq, and_true]
  have := csign_cocycle sig a.k b.k c.k
  generalize csign sig a.k b.k = A at *
  generalize csign sig (a.k ^^^ b.k) c.k = B at *
  generalize csign sig b.k c.k = C at *
  generalize csign sig a.k (b.k ^^^ c.k) = E at *
  grind

theorem SB.one_mul (sig) (a : SB) : SB.mul sig SB.one a = a := by
  simp [SB.mul, SB.one, csign_zero_left]
theorem SB.mul_one (sig) (a : SB) : SB.mul sig a SB.one = a := by
  simp [SB.mul, SB.one, csign_zero_right]
theorem SB.smul_mul (sig) (s : Int) (a b : SB) : SB.mul sig (SB.smul s a) b = SB.smul s (SB.mul sig a b) := by
  simp [SB.mul, SB.smul]; grind
theorem SB.mul_smul (sig) (s : Int) (a b : SB) : SB.mul sig a (SB.smul s b) = SB.smul s (SB.mul sig a b) := by
  simp [SB.mul, SB.smul]; grind
theorem SB.smul_smul (s t : Int) (a : SB) : SB.smul s (SB.smul t a) = SB.smul (s * t) a := by
  simp [SB.smul]; grind
theorem SB.one_smul (a : SB) : SB.smul 1 a = a := by simp [SB.smul]

theorem evalWord_append (sig) (u v : List Nat) :
    evalWord sig (u ++ v) = SB.mul sig (evalWord sig u) (evalWord sig v) := by
  induction u with
  | nil => simp [evalWord, SB.one_mul]
  | cons g u ih => simp [evalWord, ih, SB.mul_assoc]

theorem parity_two_pow (w a : Nat) : parity w (2 ^ a) = decide (a < w) := by
  induction w generalizing a with
  | zero => simp [parity]
  | succ w ih =>
    cases a with
    | zero => simp [parity, parity_zero]
    | succ a =>
      have h1 : 2 ^ (a + 1) % 2 = 0 := by rw [Nat.pow_succ]; omega
      have h2 : 2 ^ (a + 1) / 2 = 2 ^ a := by rw [Nat.pow_succ]; omega
      simp [parity, h1, h2, ih]

/-- the sign table on generators -/
theorem csign_gen (sig : List Int) (a b : Nat) (ha : a < sig.length) (hb : b < sig.length) :
    csign sig (2 ^ a) (2 ^ b) = if a = b then sig[a]! else if b < a then -1 else 1 := by
  induction sig generalizing a b with
  | nil => simp at ha
  | cons s sig ih =>
    have e1 : ∀ n, 2 ^ (n + 1) % 2 = 0 := by intro n; rw [Nat.pow_succ]; omega
    have e2 : ∀ n, 2 ^ (n + 1) / 2 = 2 ^ n := by intro n; rw [Nat.pow_succ]; omega
    cases a with
    | zero =>
      cases b with
      | zero => simp [csign, parity_zero, csign_zero_left]
      | succ b => simp [csign, e1, e2, csign_zero_left]
    | succ a =>
      cases b with
      | zero =>
        simp only [List.length_cons] at ha
        simp [csign, e1, e2, csign_zero_right, parity_two_pow]; omega
      | succ b =>
        simp only [List.length_cons] at ha hb
        simp [csign, e1, e2, parity_zero, ih a b (by omega) (by omega)]

theorem gen_sq (sig : List Int) (a : Nat) (ha : a < sig.length) :
    SB.mul sig (gen a) (gen a) = SB.smul sig[a]! SB.one := by
  simp [SB.mul, gen, SB.smul, SB.one, csign_gen sig a a ha ha]

theorem gen_anticomm (sig : List Int) (a b : Nat) (ha : a < sig.length) (hb : b < sig.length) (h : a ≠ b) :
    SB.mul sig (gen a) (gen b) = SB.smul (-1) (SB.mul sig (gen b) (gen a)) := by
  simp only [SB.mul, gen, SB.smul, csign_gen sig a b ha hb, csign_gen sig b a hb ha, SB.mk.injEq]
  refine ⟨?_, Nat.xor_comm _ _⟩
  have h' : b ≠ a := fun e => h e.symm
  simp only [h, h', if_false]
  rcases Nat.lt_or_gt_of_ne h with hl | hl
  · have : ¬ b < a := by omega
    simp [hl, this]
  · have : ¬ a < b := by omega
    simp [hl, this]

end Kingdon

/-
  C18: the Kronecker construction of kingdon/matrixreps.py yields matrices that satisfy the Clifford relations, hence
  (by a representation-independent theorem) the ordered blade products multiply with exactly the structure constants
  `csign` of the sign table: `asmatrix` is multiplicative.  Also: the tabulated matrices the driver executes agree
  entry-wise with the function-level definitions.
-/
import Kingdon.Model.Matrix
import Kingdon.Lemmas.Cocycle
import Kingdon.Lemmas.Word
import Mathlib.Data.Matrix.Mul
import Mathlib.Algebra.Ring.Defs
import Mathlib.Data.Int.Cast.Lemmas
import Mathlib.Tactic.Ring
namespace Kingdon.Mx
open Kingdon

/-! ### structure constants of any representation -/

section generic
variable {R : Type} [Ring R]

/-- generators of a ring satisfying the Clifford relations of the signature `sig` -/
structure CliffordGens (sig : List Int) (g : Nat → R) : Prop where
  sq : ∀ i, i < sig.length → g i * g i = ((sig[i]! : Int) : R)
  anti : ∀ i j, i < sig.length → j < sig.length → i ≠ j → g i * g j = - (g j * g i)

/-- the blade `I` as the ascending product of its generators -/
def bladeProd (g : Nat → R) (d : Nat) (I : Nat) : R :=
  (((List.range d).filter fun i => I.testBit i).map g).prod

theorem bladeProd_succ (g : Nat → R) (n I : Nat) :
    bladeProd g (n+1) I = (if I % 2 = 1 then g 0 else 1) * bladeProd (fun i => g (i+1)) n (I/2) := by
  unfold bladeProd
  rw [List.range_succ_eq_map, List.filter_cons, List.filter_map]
  by_cases h : I % 2 = 1
  · simp [h, Nat.testBit_zero, Function.comp_def, Nat.testBit_succ]
  · simp [h, Nat.testBit_zero, Function.comp_def, Nat.testBit_succ]

theorem bladeProd_comm (n : Nat) (g : Nat → R) (x : R) (hx : ∀ i, i < n → g i * x = - (x * g i)) (K : Nat) :
    bladeProd g n K * x = ((if parity n K then -1 else 1 : Int) : R) * (x * bladeProd g n K) := by
  induction n generalizing g K with
  | zero => simp [bladeProd, parity]
  | succ n ih =>
    rw [bladeProd_succ]
    have ih' := ih (fun i => g (i+1)) (fun i hi => hx (i+1) (by omega)) (K/2)
    have h0 := hx 0 (by omega)
    have hpar : parity (n+1) K = ((K % 2 == 1) != parity n (K/2)) := rfl
    rw [hpar]
    generalize bladeProd (fun i => g (i+1)) n (K/2) = B at *
    generalize parity n (K/2) = p at *
    rcases Nat.mod_two_eq_zero_or_one K with h | h
    · cases p <;> simp at ih' <;> simp [h, ih']
    · cases p <;> simp at ih' <;> simp [h, mul_assoc, ih'] <;> simp [← mul_assoc, h0]

theorem CliffordGens.tail {s : Int} {sig : List Int} {g : Nat → R} (h : CliffordGens (s :: sig) g) :
    CliffordGens sig (fun i => g (i+1)) where
  sq i hi := by
    have := h.sq (i+1) (by simp; omega)
    simpa using this
  anti i j hi hj hij := h.anti (i+1) (j+1) (by simp; omega) (by simp; omega) (by omega)

/-- **Representation-independent structure constants**: in ANY ring, generators with the Clifford relations of
    `sig` multiply their ordered blade products with exactly the signs of the table `csign sig` — the table
    kingdon's `_compute_sign` is proved to compute (C01).  Every faithful or unfaithful representation (matrices,
    operators, ...) is therefore multiplicative with respect to kingdon's geometric product. -/
theorem bladeProd_mul (sig : List Int) (g : Nat → R) (h : CliffordGens sig g) (I J : Nat)
    (hI : I < 2 ^ sig.length) (hJ : J < 2 ^ sig.length) :
    bladeProd g sig.length I * bladeProd g sig.length J =
      ((csign sig I J : Int) : R) * bladeProd g sig.length (I ^^^ J) := by
  induction sig generalizing g I J with
  | nil => simp [bladeProd, csign]
  | cons s sig ih =>
    simp only [List.length_cons, bladeProd_succ, Nat.xor_div_two, xor_mod_two]
    have ih' := ih (fun i => g (i+1)) h.tail (I/2) (J/2)
      (by simp only [List.length_cons, Nat.pow_succ] at hI; omega)
      (by simp only [List.length_cons, Nat.pow_succ] at hJ; omega)
    have hc := bladeProd_comm sig.length (fun i => g (i+1)) (g 0)
      (fun i hi => h.anti (i+1) 0 (by simp; omega) (by simp) (by omega)) (I/2)
    have hsq : g 0 * g 0 = ((s : Int) : R) := by simpa using h.sq 0 (by simp)
    have hcs : csign (s :: sig) I J = (if J % 2 = 1 ∧ parity sig.length (I / 2) then -1 else 1) *
      (if I % 2 = 1 ∧ J % 2 = 1 then s else 1) * csign sig (I / 2) (J / 2) := rfl
    rw [hcs]
    generalize bladeProd (fun i => g (i+1)) sig.length (I/2) = BI at *
    generalize bladeProd (fun i => g (i+1)) sig.length (J/2) = BJ at *
    generalize bladeProd (fun i => g (i+1)) sig.length (I/2 ^^^ J/2) = BK at *
    generalize csign sig (I/2) (J/2) = c at *
    generalize parity sig.length (I/2) = p at *
    rcases Nat.mod_two_eq_zero_or_one I with hi | hi <;>
    rcases Nat.mod_two_eq_zero_or_one J with hj | hj
    · simp [hi, hj, ih']
    · cases p <;> simp at hc <;> simp [hi, hj]
      · rw [← mul_assoc, hc, mul_assoc, ih', ← mul_assoc, ← mul_assoc, Int.cast_comm]
      · rw [← mul_assoc, hc, neg_mul, mul_assoc, ih', ← mul_assoc, ← mul_assoc, Int.cast_comm]
    · simp [hi, hj]
      rw [mul_assoc, ih', ← mul_assoc, ← mul_assoc, Int.cast_comm]
    · cases p <;> simp at hc <;> simp [hi, hj]
      · rw [mul_assoc, ← mul_assoc BI, hc, mul_assoc, ← mul_assoc (g 0), hsq, ih', mul_assoc]
      · rw [mul_assoc, ← mul_assoc BI, hc, neg_mul, mul_neg, mul_assoc, ← mul_assoc (g 0), hsq, ih', mul_assoc]
end generic

/-! ### the Kronecker construction -/

/-- a function-level matrix as a Mathlib matrix of size `n` -/
def toM (n : Nat) (A : Mat) : Matrix (Fin n) (Fin n) ℤ := fun i j => A i j

theorem listSum_range (f : Nat → Int) (n : Nat) :
    ((List.range n).map f).sum = ∑ i ∈ Finset.range n, f i := by
  induction n with
  | zero => simp
  | succ n ih => simp [List.range_succ, Finset.sum_range_succ, ih]

theorem matMul_eq_sum (n : Nat) (A B : Mat) (i j : Nat) :
    matMul n A B i j = ∑ k ∈ Finset.range n, A i k * B k j := listSum_range _ n

theorem toM_matMul (n : Nat) (A B : Mat) : toM n (matMul n A B) = toM n A * toM n B := by
  ext i j
  simp only [toM, Matrix.mul_apply, matMul_eq_sum]
  rw [← Fin.sum_univ_eq_sum_range (fun k => A i k * B k j)]

theorem toM_ident (n : Nat) : toM n ident = 1 := by
  ext i j
  simp [toM, ident, Matrix.one_apply, Fin.ext_iff]

theorem kronAll_snoc (ms : List Mat) (m : Mat) (a b : Nat) :
    kronAll (ms ++ [m]) a b = kronAll ms (a/2) (b/2) * m (a%2) (b%2) := by
  simp [kronAll, kron]

/-- entry formula: the entry (a, b) of `S_0 ⊗ … ⊗ S_{m-1}` is the product of the entries of the blocks at the binary
    digits of `a`, `b` (most significant digit first) -/
theorem kronAll_entry (mats : List Mat) (a b : Nat) :
    kronAll mats a b =
      ((List.range mats.length).map fun k =>
        (mats[k]?.getD (fun _ _ => 1)) ((a / 2 ^ (mats.length - 1 - k)) % 2) ((b / 2 ^ (mats.length - 1 - k)) % 2)).prod := by
  induction mats using List.reverseRecOn generalizing a b with
  | nil => simp [kronAll]
  | append_singleton ms m ih =>
    rw [kronAll_snoc, ih]
    simp only [List.length_append, List.length_singleton, List.range_succ, List.map_append, List.prod_append,
      List.map_cons, List.map_nil, List.prod_cons, List.prod_nil, mul_one]
    congr 1
    · congr 1
      apply List.map_congr_left
      intro k hk
      simp only [List.mem_range] at hk
      have e : ms.length + 1 - 1 - k = (ms.length - 1 - k) + 1 := by omega
      rw [e, Nat.pow_succ, List.getElem?_append_left hk, Nat.div_div_eq_div_mul, Nat.div_div_eq_div_mul, Nat.mul_comm 2]
    · simp

/-- signature entries are 1, -1 or 0 -/
def SigRange (sig : List Int) : Prop := ∀ s ∈ sig, s = 1 ∨ s = -1 ∨ s = 0

/-- Kronecker product of `m` blocks given by a function (block `m-1` is the least significant digit) -/
def kronF : Nat → (Nat → Mat) → Mat
  | 0, _ => fun _ _ => 1
  | m+1, F => fun a b => kronF m F (a/2) (b/2) * F m (a%2) (b%2)

theorem kronF_congr (m : Nat) (F G : Nat → Mat)
    (h : ∀ k, k < m → ∀ x y, x < 2 → y < 2 → F k x y = G k x y) (a b : Nat) :
    kronF m F a b = kronF m G a b := by
  induction m generalizing a b with
  | zero => rfl
  | succ m ih =>
    simp only [kronF]
    rw [ih (fun k hk => h k (by omega)), h m (by omega) _ _ (Nat.mod_lt _ (by omega)) (Nat.mod_lt _ (by omega))]

theorem kronAll_eq_kronF (ms : List Mat) :
    kronAll ms = kronF ms.length (fun k => ms[k]?.getD (fun _ _ => 1)) := by
  induction ms using List.reverseRecOn with
  | nil => rfl
  | append_singleton ms m ih =>
    funext a b
    rw [kronAll_snoc, ih]
    simp only [List.length_append, List.length_singleton, kronF]
    congr 1
    · apply kronF_congr
      intro k hk x y _ _
      rw [List.getElem?_append_left hk]
    · simp

theorem sum_range_two_mul (f : Nat → Int) (N : Nat) :
    ∑ c ∈ Finset.range (2 * N), f c = ∑ c ∈ Finset.range N, (f (2 * c) + f (2 * c + 1)) := by
  induction N with
  | zero => simp
  | succ N ih =>
    rw [show 2 * (N + 1) = 2 * N + 1 + 1 by ring, Finset.sum_range_succ, Finset.sum_range_succ, ih,
      Finset.sum_range_succ]
    ring

theorem matMul_two (A B : Mat) (x y : Nat) : matMul 2 A B x y = A x 0 * B 0 y + A x 1 * B 1 y := by
  simp [matMul, List.range_succ]

theorem kronF_mul (m : Nat) (F G : Nat → Mat) (a b : Nat) :
    matMul (2 ^ m) (kronF m F) (kronF m G) a b = kronF m (fun k => matMul 2 (F k) (G k)) a b := by
  induction m generalizing a b with
  | zero => simp [matMul, kronF]
  | succ m ih =>
    rw [matMul_eq_sum]
    simp only [kronF]
    rw [← ih, matMul_eq_sum, Nat.pow_succ, Nat.mul_comm, sum_range_two_mul, matMul_two, Finset.sum_mul]
    apply Finset.sum_congr rfl
    intro c _
    have e1 : 2 * c / 2 = c := by omega
    have e2 : 2 * c % 2 = 0 := by omega
    have e3 : (2 * c + 1) / 2 = c := by omega
    have e4 : (2 * c + 1) % 2 = 1 := by omega
    rw [e1, e2, e3, e4]
    ring

theorem kronF_smul (m : Nat) (F G : Nat → Mat) (j : Nat) (hj : j < m) (s : Int)
    (h : ∀ k, k < m → k ≠ j → ∀ x y, x < 2 → y < 2 → F k x y = G k x y)
    (hs : ∀ x y, x < 2 → y < 2 → F j x y = s * G j x y) (a b : Nat) :
    kronF m F a b = s * kronF m G a b := by
  induction m generalizing a b with
  | zero => omega
  | succ m ih =>
    simp only [kronF]
    have hx := Nat.mod_lt a (show 2 > 0 by omega)
    have hy := Nat.mod_lt b (show 2 > 0 by omega)
    by_cases hjm : j = m
    · subst hjm
      rw [hs _ _ hx hy, kronF_congr j F G (fun k hk => h k (by omega) (by omega))]
      ring
    · rw [ih (by omega) (fun k hk hkj => h k (by omega) hkj), h m (by omega) (fun e => hjm e.symm) _ _ hx hy]
      ring

theorem kronF_ident (m : Nat) (F : Nat → Mat)
    (h : ∀ k, k < m → ∀ x y, x < 2 → y < 2 → F k x y = I2 x y) (a b : Nat) (ha : a < 2 ^ m) (hb : b < 2 ^ m) :
    kronF m F a b = ident a b := by
  induction m generalizing a b with
  | zero =>
    simp at ha hb
    simp [kronF, ident, ha, hb]
  | succ m ih =>
    simp only [kronF]
    rw [Nat.pow_succ] at ha hb
    rw [ih (fun k hk => h k (by omega)) _ _ (by omega) (by omega), h m (by omega) _ _ (Nat.mod_lt _ (by omega)) (Nat.mod_lt _ (by omega))]
    simp only [ident, I2]
    by_cases hab : a = b
    · simp [hab]
    · have : ¬ (a / 2 = b / 2 ∧ a % 2 = b % 2) := by omega
      by_cases h1 : a / 2 = b / 2 <;> by_cases h2 : a % 2 = b % 2 <;> simp_all

def genF (sig : List Int) (i : Nat) : Nat → Mat :=
  fun k => if k < i then I2 else if k = i then blockOf (sig[i]!) else Ip2

theorem genMat_eq_kronF (sig : List Int) (i : Nat) (hi : i < sig.length) (a b : Nat) :
    genMat sig i a b = kronF sig.length (genF sig i) a b := by
  unfold genMat
  rw [kronAll_eq_kronF]
  have hl : (List.replicate i I2 ++ [blockOf (sig[i]!)] ++ List.replicate (sig.length - i - 1) Ip2).length = sig.length := by
    simp; omega
  rw [hl]
  apply kronF_congr
  intro k hk x y _ _
  unfold genF
  by_cases h1 : k < i
  · simp [List.getElem?_append, h1]
  · by_cases h2 : k = i
    · subst h2
      simp
    · obtain ⟨t, rfl⟩ : ∃ t, k = i + 1 + t := ⟨k - i - 1, by omega⟩
      have h4 : i + 1 + t - i = t + 1 := by omega
      have h5 : t < sig.length - i - 1 := by omega
      simp [List.getElem?_append, h1, h2, h4, h5]

theorem matMul_I2_right (A : Mat) (x y : Nat) (hy : y < 2) : matMul 2 A I2 x y = A x y := by
  rw [matMul_two]; obtain rfl | rfl : y = 0 ∨ y = 1 := by omega
  all_goals simp [I2]
theorem matMul_I2_left (A : Mat) (x y : Nat) (hx : x < 2) : matMul 2 I2 A x y = A x y := by
  rw [matMul_two]; obtain rfl | rfl : x = 0 ∨ x = 1 := by omega
  all_goals simp [I2]
theorem matMul_Ip2_sq (x y : Nat) (hx : x < 2) (hy : y < 2) : matMul 2 Ip2 Ip2 x y = I2 x y := by
  obtain rfl | rfl : x = 0 ∨ x = 1 := by omega
  all_goals obtain rfl | rfl : y = 0 ∨ y = 1 := by omega
  all_goals decide
theorem matMul_block_sq (s : Int) (hs : s = 1 ∨ s = -1 ∨ s = 0) (x y : Nat) (hx : x < 2) (hy : y < 2) :
    matMul 2 (blockOf s) (blockOf s) x y = s * I2 x y := by
  obtain rfl | rfl : x = 0 ∨ x = 1 := by omega
  all_goals obtain rfl | rfl : y = 0 ∨ y = 1 := by omega
  all_goals rcases hs with rfl | rfl | rfl
  all_goals decide
theorem matMul_Ip2_block (s : Int) (hs : s = 1 ∨ s = -1 ∨ s = 0) (x y : Nat) (hx : x < 2) (hy : y < 2) :
    matMul 2 Ip2 (blockOf s) x y = -1 * matMul 2 (blockOf s) Ip2 x y := by
  obtain rfl | rfl : x = 0 ∨ x = 1 := by omega
  all_goals obtain rfl | rfl : y = 0 ∨ y = 1 := by omega
  all_goals rcases hs with rfl | rfl | rfl
  all_goals decide

theorem sig_getElem!_range (sig : List Int) (hs : SigRange sig) (i : Nat) (hi : i < sig.length) :
    sig[i]! = 1 ∨ sig[i]! = -1 ∨ sig[i]! = 0 := by
  rw [getElem!_pos sig i hi]
  exact hs _ (List.getElem_mem hi)

theorem genMat_sq_entry (sig : List Int) (hs : SigRange sig) (i : Nat) (hi : i < sig.length) (a b : Nat)
    (ha : a < 2 ^ sig.length) (hb : b < 2 ^ sig.length) :
    matMul (2 ^ sig.length) (genMat sig i) (genMat sig i) a b = sig[i]! * ident a b := by
  have e : matMul (2 ^ sig.length) (genMat sig i) (genMat sig i) a b =
      matMul (2 ^ sig.length) (kronF sig.length (genF sig i)) (kronF sig.length (genF sig i)) a b := by
    simp only [matMul, genMat_eq_kronF sig i hi]
  rw [e, kronF_mul, ← kronF_ident sig.length (fun _ => I2) (fun _ _ _ _ _ _ => rfl) a b ha hb]
  apply kronF_smul _ _ _ i hi
  · intro k hk hki x y hx hy
    by_cases h1 : k < i
    · simp only [genF, h1, if_true]
      exact matMul_I2_left _ _ _ hx
    · simp only [genF, h1, hki, if_false]
      exact matMul_Ip2_sq x y hx hy
  · intro x y hx hy
    simp only [genF, Nat.lt_irrefl, if_false, if_true]
    exact matMul_block_sq _ (sig_getElem!_range sig hs i hi) x y hx hy

theorem genMat_anti_entry (sig : List Int) (hs : SigRange sig) (i j : Nat) (hi : i < sig.length) (hj : j < sig.length)
    (hij : i < j) (a b : Nat) :
    matMul (2 ^ sig.length) (genMat sig i) (genMat sig j) a b =
      -1 * matMul (2 ^ sig.length) (genMat sig j) (genMat sig i) a b := by
  have e : ∀ i j, i < sig.length → j < sig.length → matMul (2 ^ sig.length) (genMat sig i) (genMat sig j) a b =
      matMul (2 ^ sig.length) (kronF sig.length (genF sig i)) (kronF sig.length (genF sig j)) a b := by
    intro i j hi hj
    simp only [matMul, genMat_eq_kronF sig i hi, genMat_eq_kronF sig j hj]
  rw [e i j hi hj, e j i hj hi, kronF_mul, kronF_mul]
  apply kronF_smul _ _ _ j hj
  · intro k hk hkj x y hx hy
    by_cases h1 : k < j
    · have e1 : genF sig j k = I2 := by simp [genF, h1]
      rw [e1, matMul_I2_right _ _ _ hy, matMul_I2_left _ _ _ hx]
    · have h2 : ¬ k < i := by omega
      have h3 : ¬ k = i := by omega
      have e1 : genF sig j k = Ip2 := by simp [genF, h1, hkj]
      have e2 : genF sig i k = Ip2 := by simp [genF, h2, h3]
      rw [e1, e2]
  · intro x y hx hy
    have h1 : ¬ j < i := by omega
    have h2 : ¬ j = i := by omega
    simp only [genF, Nat.lt_irrefl, if_false, if_true, h1, h2]
    exact matMul_Ip2_block _ (sig_getElem!_range sig hs j hj) x y hx hy

/-- the generator matrices `E_i = I ⊗ … ⊗ S_i ⊗ Ip ⊗ … ⊗ Ip` satisfy the Clifford relations of the signature:
    `E_i² = sig[i]`, `E_i E_j = - E_j E_i` -/
theorem genMat_clifford (sig : List Int) (hs : SigRange sig) :
    CliffordGens sig (fun i => toM (2 ^ sig.length) (genMat sig i)) := by
  have anti : ∀ i j, i < sig.length → j < sig.length → i < j →
      toM (2 ^ sig.length) (genMat sig i) * toM (2 ^ sig.length) (genMat sig j) =
        - (toM (2 ^ sig.length) (genMat sig j) * toM (2 ^ sig.length) (genMat sig i)) := by
    intro i j hi hj hij
    rw [← toM_matMul, ← toM_matMul]
    ext a b
    simp only [toM, Matrix.neg_apply]
    rw [genMat_anti_entry sig hs i j hi hj hij]
    ring
  constructor
  · intro i hi
    show toM _ _ * toM _ _ = _
    rw [← toM_matMul]
    ext a b
    simp only [toM]
    rw [genMat_sq_entry sig hs i hi a b a.2 b.2, Matrix.intCast_apply]
    simp [ident, Fin.ext_iff]
  · intro i j hi hj hij
    rcases Nat.lt_or_gt_of_ne hij with h | h
    · exact anti i j hi hj h
    · show toM _ _ * toM _ _ = - (toM _ _ * toM _ _)
      rw [anti j i hj hi h, neg_neg]

theorem toM_foldl (N : Nat) (sig : List Int) (blade : List Nat) (A : Mat) :
    toM N (blade.foldl (fun acc i => matMul N acc (genMat sig i)) A) =
      toM N A * (blade.map fun i => toM N (genMat sig i)).prod := by
  induction blade generalizing A with
  | nil => simp
  | cons i blade ih => simp [ih, toM_matMul, mul_assoc]

/-- the matrix of a blade spelled by a list of generator indices is the product of the generator matrices -/
theorem toM_bladeMat (sig : List Int) (blade : List Nat) :
    toM (2 ^ sig.length) (bladeMat sig blade) =
      (blade.map fun i => toM (2 ^ sig.length) (genMat sig i)).prod := by
  unfold bladeMat
  rw [toM_foldl, toM_ident, one_mul]

/-- **multiplicativity of the (untransformed) representation for ascending spellings**: R(I) R(J) = csign(I,J) R(I xor J) -/
theorem rep_mul (sig : List Int) (hs : SigRange sig) (I J : Nat) (hI : I < 2 ^ sig.length) (hJ : J < 2 ^ sig.length) :
    toM (2 ^ sig.length) (bladeMat sig ((List.range sig.length).filter fun i => I.testBit i)) *
    toM (2 ^ sig.length) (bladeMat sig ((List.range sig.length).filter fun i => J.testBit i)) =
      ((csign sig I J : Int) : Matrix (Fin (2 ^ sig.length)) (Fin (2 ^ sig.length)) ℤ) *
      toM (2 ^ sig.length) (bladeMat sig ((List.range sig.length).filter fun i => (I ^^^ J).testBit i)) := by
  simp only [toM_bladeMat]
  exact bladeProd_mul sig _ (genMat_clifford sig hs) I J hI hJ

/-! ### the executable (tabulated) construction agrees with the function-level one -/

theorem DMat.get_ofFun (n : Nat) (A : Mat) (i j : Nat) (hi : i < n) (hj : j < n) :
    (DMat.ofFun n A).get i j = A i j := by
  simp [DMat.ofFun, DMat.get, hi, hj]

theorem dMatMul_get (n : Nat) (A B : DMat) (A' B' : Mat)
    (hA : ∀ i j, i < n → j < n → A.get i j = A' i j) (hB : ∀ i j, i < n → j < n → B.get i j = B' i j)
    (i j : Nat) (hi : i < n) (hj : j < n) :
    (dMatMul n A B).get i j = matMul n A' B' i j := by
  unfold dMatMul
  rw [DMat.get_ofFun n _ i j hi hj]
  unfold matMul
  congr 1
  apply List.map_congr_left
  intro k hk
  simp only [List.mem_range] at hk
  rw [hA i k hi hk, hB k j hk hj]

theorem dBladeMat_foldl (sig : List Int) (blade : List Nat) (D : DMat) (A : Mat)
    (h : ∀ i j, i < 2 ^ sig.length → j < 2 ^ sig.length → D.get i j = A i j)
    (i j : Nat) (hi : i < 2 ^ sig.length) (hj : j < 2 ^ sig.length) :
    (blade.foldl (fun acc i => dMatMul (2 ^ sig.length) acc (dGenMat sig i)) D).get i j =
      (blade.foldl (fun acc i => matMul (2 ^ sig.length) acc (genMat sig i)) A) i j := by
  induction blade generalizing D A i j with
  | nil => exact h i j hi hj
  | cons b blade ih =>
    simp only [List.foldl_cons]
    apply ih _ _ _ i j hi hj
    intro i j hi hj
    exact dMatMul_get _ _ _ _ _ h (fun i j hi hj => DMat.get_ofFun _ _ i j hi hj) i j hi hj

theorem dBladeMat_get (sig : List Int) (blade : List Nat) (i j : Nat) (hi : i < 2 ^ sig.length) (hj : j < 2 ^ sig.length) :
    (dBladeMat sig blade).get i j = bladeMat sig blade i j := by
  unfold dBladeMat bladeMat
  exact dBladeMat_foldl sig blade _ _ (fun i j hi hj => DMat.get_ofFun _ _ i j hi hj) i j hi hj

theorem basis_aux (n : Nat) (hn : 0 < n) (Ds : List DMat) (Rs : List Mat) (hlen : Ds.length = Rs.length)
    (hR : ∀ a k l, a < n → k < n → l < n → DMat.get (Ds[a]?.getD #[]) k l = (Rs[a]?.getD (fun _ _ => 0)) k l)
    (m i j : Nat) (hm : m < Ds.length) (hmn : m < n) (hi : i < n) (hj : j < n) :
    DMat.get ((Ds.map fun R => dMatMul n (dMatMul n (DMat.ofFun n fun i k => DMat.get (Ds[i]?.getD #[]) k 0) R)
        (DMat.ofFun n fun i k => DMat.get (DMat.ofFun n fun i k => DMat.get (Ds[i]?.getD #[]) k 0) k i))[m]?.getD #[]) i j =
      ((Rs.map fun R => matMul n (matMul n (ordering Rs) R) (transpose (ordering Rs)))[m]?.getD (fun _ _ => 0)) i j := by
  have hO : ∀ a k, a < n → k < n →
      DMat.get (DMat.ofFun n fun i k => DMat.get (Ds[i]?.getD #[]) k 0) a k = ordering Rs a k := by
    intro a k ha hk
    rw [DMat.get_ofFun _ _ _ _ ha hk]
    exact hR a k 0 ha hk hn
  have hm' : m < Rs.length := hlen ▸ hm
  simp only [List.getElem?_map, List.getElem?_eq_getElem hm, List.getElem?_eq_getElem hm', Option.map_some, Option.getD_some]
  apply dMatMul_get n _ _ _ _ _ _ i j hi hj
  · intro i j hi hj
    apply dMatMul_get n _ _ _ _ hO _ i j hi hj
    intro i j hi hj
    have := hR m i j hmn hi hj
    simpa [List.getElem?_eq_getElem hm, List.getElem?_eq_getElem hm'] using this
  · intro i j hi hj
    rw [DMat.get_ofFun _ _ _ _ hi hj, hO j i hj hi]
    rfl

/-- what the driver prints for `matrix <cfg>` is, entry by entry, the function-level `matrixBasis` -/
theorem dMatrixBasis_get (c : Cfg) (m i j : Nat) (hm : m < c.basis.length) (hlen : c.basis.length = 2 ^ c.d)
    (hi : i < 2 ^ c.d) (hj : j < 2 ^ c.d) :
    ((dMatrixBasis c)[m]?.getD #[]).get i j = ((matrixBasis c)[m]?.getD (fun _ _ => 0)) i j := by
  have hd : c.d = c.signature.length := rfl
  have h0 : 0 < 2 ^ c.d := Nat.pos_of_ne_zero (by simp)
  unfold dMatrixBasis matrixBasis
  apply basis_aux (2 ^ c.d) h0 _ (rawReps c) (by simp [rawReps]) _ m i j (by simpa using hm) (by omega) hi hj
  intro a k l ha hk hl
  have ha' : a < c.basis.length := by omega
  simp only [rawReps, List.getElem?_map, List.getElem?_eq_getElem ha', Option.map_some, Option.getD_some]
  exact dBladeMat_get _ _ k l (hd ▸ hk) (hd ▸ hl)

end Kingdon.Mx

import Kingdon.Lemmas.Cocycle
namespace Kingdon

/-- `(-1)^b` as an integer -/
def sgn (b : Bool) : Int := if b then -1 else 1

theorem parity_and_step (w a b : Nat) :
    parity (w+1) (a &&& b) = ((a % 2 == 1 && b % 2 == 1) != parity w (a / 2 &&& b / 2)) := by
  simp only [parity, Nat.and_div_two]
  have h := @Nat.and_mod_two_eq_one a b
  have hm : (a &&& b) % 2 = (a % 2) * (b % 2) := by
    rcases Nat.mod_two_eq_zero_or_one a with ha | ha <;>
    rcases Nat.mod_two_eq_zero_or_one b with hb | hb <;>
    rcases Nat.mod_two_eq_zero_or_one (a &&& b) with hab | hab <;> simp_all
  rw [hm]
  rcases Nat.mod_two_eq_zero_or_one a with ha | ha <;>
  rcases Nat.mod_two_eq_zero_or_one b with hb | hb <;> simp [ha, hb]

/-- swapping the factors of a blade product: `e_J e_I = (-1)^{|I||J| - |I∩J|} e_I e_J`
    (this is the blade-level fact behind reverse/conjugate being anti-automorphisms and behind
    the cp/acp filters) -/
theorem csign_swap (sig : List Int) (I J : Nat) :
    csign sig J I =
      sgn ((parity sig.length I && parity sig.length J) != parity sig.length (I &&& J)) * csign sig I J := by
  induction sig generalizing I J with
  | nil => simp [csign, parity, sgn]
  | cons s sig ih =>
    have := ih (I/2) (J/2)
    simp only [csign, List.length_cons, parity_and_step]
    simp only [parity]
    rw [this]
    generalize csign sig (I/2) (J/2) = A
    rcases Nat.mod_two_eq_zero_or_one I with h | h <;>
    rcases Nat.mod_two_eq_zero_or_one J with h' | h' <;>
    cases parity sig.length (I/2) <;> cases parity sig.length (J/2) <;>
    cases parity sig.length (I/2 &&& J/2) <;>
    simp [h, h', sgn] <;> grind

end Kingdon

import Kingdon.Model.Blade
namespace Kingdon

theorem xor_mod_two (a b : Nat) : (a ^^^ b) % 2 = (a % 2 + b % 2) % 2 := by
  have := @Nat.xor_mod_two_eq_one a b; omega

theorem parity_xor (w a b : Nat) : parity w (a ^^^ b) = (parity w a != parity w b) := by
  induction w generalizing a b with
  | zero => simp [parity]
  | succ w ih =>
    simp only [parity, Nat.xor_div_two, ih, xor_mod_two]
    rcases Nat.mod_two_eq_zero_or_one a with h | h <;>
    rcases Nat.mod_two_eq_zero_or_one b with h' | h' <;> simp [h, h'] <;>
    cases parity w (a/2) <;> cases parity w (b/2) <;> rfl

theorem csign_cocycle (sig : List Int) (I J L : Nat) :
    csign sig I J * csign sig (I ^^^ J) L = csign sig J L * csign sig I (J ^^^ L) := by
  induction sig generalizing I J L with
  | nil => simp [csign]
  | cons s sig ih =>
    simp only [csign, Nat.xor_div_two, parity_xor, xor_mod_two]
    have := ih (I/2) (J/2) (L/2)
    generalize csign sig (I/2) (J/2) = A at *
    generalize csign sig (I/2 ^^^ J/2) (L/2) = B at *
    generalize csign sig (J/2) (L/2) = C at *
    generalize csign sig (I/2) (J/2 ^^^ L/2) = E at *
    rcases Nat.mod_two_eq_zero_or_one I with h | h <;>
    rcases Nat.mod_two_eq_zero_or_one J with h' | h' <;>
    rcases Nat.mod_two_eq_zero_or_one L with h'' | h'' <;>
    cases parity sig.length (I/2) <;> cases parity sig.length (J/2) <;>
    simp [h, h', h''] <;> grind
end Kingdon

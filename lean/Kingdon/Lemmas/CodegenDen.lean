import Kingdon.Model.Codegen
import Kingdon.Lemmas.ClAlg
import Mathlib.Tactic.Abel
open Finsupp
namespace Kingdon
noncomputable section
variable {α : Type} [CommRing α]

/-- denotation of a sparse multivector -/
def den (x : List (Nat × α)) : ℕ →₀ α := (x.map fun p => single p.1 p.2).sum

@[simp] theorem den_nil : den ([] : List (Nat × α)) = 0 := rfl
@[simp] theorem den_cons (p : Nat × α) (x) : den (p :: x) = single p.1 p.2 + den x := by simp [den]

theorem den_insertAdd (r : List (Nat × α)) (k : Nat) (t : α) :
    den (insertAdd r k t) = den r + single k t := by
  induction r with
  | nil => simp [insertAdd]
  | cons p r ih =>
    obtain ⟨k', v⟩ := p
    by_cases h : k' = k
    · subst h; simp [insertAdd, single_add]; abel
    · simp [insertAdd, h, ih]; abel

/-- the term a pair contributes -/
def cpTerm (signf : Nat → Nat → Int) (keyout : Nat → Nat → Nat) (filt : Nat → Nat → Nat → Bool)
    (pq : (Nat × α) × (Nat × α)) : ℕ →₀ α :=
  if signf pq.1.1 pq.2.1 = 0 ∨ filt pq.1.1 pq.2.1 (keyout pq.1.1 pq.2.1) = false then 0
  else single (keyout pq.1.1 pq.2.1) ((if signf pq.1.1 pq.2.1 > 0 then 1 else -1) * pq.1.2 * pq.2.2)

theorem den_cpStep (signf keyout filt) (res : List (Nat × α)) (pq) :
    den (cpStep signf keyout filt res pq) = den res + cpTerm signf keyout filt pq := by
  unfold cpStep cpTerm
  by_cases h0 : signf pq.1.1 pq.2.1 = 0
  · simp [h0]
  · by_cases hf : filt pq.1.1 pq.2.1 (keyout pq.1.1 pq.2.1) = true
    · by_cases hp : signf pq.1.1 pq.2.1 > 0 <;> simp [h0, hf, hp, den_insertAdd]
    · simp [h0, hf]

theorem den_foldl (signf keyout filt) (l : List ((Nat × α) × (Nat × α))) (res : List (Nat × α)) :
    den (l.foldl (cpStep signf keyout filt) res) = den res + (l.map (cpTerm signf keyout filt)).sum := by
  induction l generalizing res with
  | nil => simp
  | cons pq l ih => simp [ih, den_cpStep]; abel

/-- no term omitted, duplicated or attributed to another blade -/
theorem den_codegenProduct (signf keyout filt) (x y : List (Nat × α)) :
    den (codegenProduct signf keyout filt x y) = ((pairs x y).map (cpTerm signf keyout filt)).sum := by
  simp [codegenProduct, den_foldl]

end
end Kingdon

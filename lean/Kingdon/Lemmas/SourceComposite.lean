/-
  The translated composite generators of codegen.py (`codegen_sw`, `codegen_proj`, `codegen_normsq`,
  `codegen_polarity`, `codegen_unpolarity`, `codegen_hitzer_inv`) equal the model's compositions when the operators
  they are written in (`x * y`, `~x`, `x | y`, `x.conjugate()`, `x.grade(..)`, `2 * x`, `x.e`, `alg.blades.e`,
  `alg.pss`) are instantiated with the model's operators.
-/
import Kingdon.Lemmas.SourceBase
import Kingdon.Model.Hitzer
namespace Kingdon.SrcEq
open Kingdon
variable {α : Type} [Add α] [Sub α] [Mul α] [Neg α] [One α] [Zero α]

/-- the model's operators presented to the translated code (keys cast to python ints and back) -/
def modelOps (c : Cfg) : Src.Ops α where
  gp := fun a b => castMV (gp c (uncastMV a) (uncastMV b))
  ip := fun a b => castMV (ip c (uncastMV a) (uncastMV b))
  op := fun a b => castMV (op c (uncastMV a) (uncastMV b))
  sp := fun a b => castMV (sp c (uncastMV a) (uncastMV b))
  add := fun a b => castMV (add (uncastMV a) (uncastMV b))
  sub := fun a b => castMV (sub (uncastMV a) (uncastMV b))
  neg := fun a => castMV (neg (uncastMV a))
  reverse := fun a => castMV (reverse (uncastMV a))
  involute := fun a => castMV (involute (uncastMV a))
  conjugate := fun a => castMV (conjugate (uncastMV a))
  grade := fun a gs => castMV (gradeSel c (gs.map Int.toNat) (uncastMV a))
  -- `n * mv` for a python int n: the source only ever writes `2 * mv`, which the model spells `v + v`
  rmulInt := fun n a => if n == 2 then castMV (scale2 (uncastMV a)) else a
  -- coefficient-wise division by a python int: only the outer series uses it, with its own instance (`outerOps` in SourceOuter.lean)
  divInt := fun a _ => a
  e := fun a => scalarPart (uncastMV a)
  one := castMV [(0, 1)]
  pss := castMV [(c.pss, 1)]

theorem key_pss_eq (c : Cfg) : ((algOf c).len - (1 : Int)).toNat = c.pss := by
  have h : 0 < 2 ^ c.d := Nat.two_pow_pos _
  show (Int.ofNat (2 ^ c.d) - 1).toNat = 2 ^ c.d - 1
  generalize 2 ^ c.d = n at h ⊢
  simp only [Int.ofNat_eq_natCast]
  omega

theorem sign_pss_eq (c : Cfg) :
    (algOf c).signs ((algOf c).len - (1 : Int), (algOf c).len - (1 : Int)) = c.computeSign c.pss c.pss := by
  show c.computeSign ((algOf c).len - (1 : Int)).toNat ((algOf c).len - (1 : Int)).toNat = _
  rw [key_pss_eq]

/-- `x * y * ~x` -/
theorem codegen_sw_eq (c : Cfg) (x y : MV α) :
    Src.codegen_sw (algOf c) (modelOps c) (castMV x) (castMV y) = .ok (castMV (gp c (gp c x y) (reverse x))) := by
  unfold Src.codegen_sw modelOps
  simp only [uncast_cast]
  rfl

/-- `(x | y) * ~y` -/
theorem codegen_proj_eq (c : Cfg) (x y : MV α) :
    Src.codegen_proj (algOf c) (modelOps c) (castMV x) (castMV y) = .ok (castMV (gp c (ip c x y) (reverse y))) := by
  unfold Src.codegen_proj modelOps
  simp only [uncast_cast]
  rfl

/-- `x * ~x` -/
theorem codegen_normsq_eq (c : Cfg) (x : MV α) :
    Src.codegen_normsq (algOf c) (modelOps c) (castMV x) = .ok (castMV (gp c x (reverse x))) := by
  unfold Src.codegen_normsq modelOps
  simp only [uncast_cast]
  rfl

/-- the translated polarity, evaluated: a case table on the sign of the pseudoscalar's square -/
theorem codegen_polarity_val (c : Cfg) (undual : Bool) (x : MV α) :
    Src.codegen_polarity (algOf c) (modelOps c) (castMV x) undual =
      if undual then .ok (castMV (gp c x [(c.pss, 1)]))
      else if c.computeSign c.pss c.pss = -1 then .ok (castMV (gp c (neg x) [(c.pss, 1)]))
      else if c.computeSign c.pss c.pss = 1 then .ok (castMV (gp c x [(c.pss, 1)]))
      else if c.computeSign c.pss c.pss = 0 then .error "ZeroDivisionError"
      else .error "fell-off-the-end" := by
  unfold Src.codegen_polarity
  simp only [sign_pss_eq]
  unfold modelOps
  simp only [uncast_cast]
  cases undual
  · by_cases h1 : c.computeSign c.pss c.pss = -1
    · simp [h1]; rfl
    · by_cases h2 : c.computeSign c.pss c.pss = 1
      · simp [h2]; rfl
      · by_cases h3 : c.computeSign c.pss c.pss = 0
        · simp [h3]; rfl
        · simp [h1, h2, h3]; rfl
  · simp; rfl

/-- polarity / unpolarity: the python raises exactly where the model returns `none` -/
theorem codegen_polarity_eq (c : Cfg) (undual : Bool) (x : MV α) :
    (Src.codegen_polarity (algOf c) (modelOps c) (castMV x) undual).toOption = (polarityGen c undual x).map castMV := by
  rw [codegen_polarity_val]
  unfold polarityGen
  cases undual
  · by_cases h1 : c.computeSign c.pss c.pss = -1
    · simp [h1, Except.toOption]
    · by_cases h2 : c.computeSign c.pss c.pss = 1
      · simp [h2, Except.toOption]
      · by_cases h3 : c.computeSign c.pss c.pss = 0
        · simp [h3, Except.toOption]
        · simp [h1, h2, h3, Except.toOption]
  · simp [Except.toOption]

theorem codegen_unpolarity_eq (c : Cfg) (x : MV α) :
    (Src.codegen_unpolarity (algOf c) (modelOps c) (castMV x)).toOption = (polarityGen c true x).map castMV := by
  rw [← codegen_polarity_eq]
  unfold Src.codegen_unpolarity
  rw [codegen_polarity_val]

/-- for a table with values in {1, -1, 0} the only way the python polarity raises is `ZeroDivisionError` -/
theorem codegen_polarity_raises (c : Cfg) (x : MV α)
    (hr : c.computeSign c.pss c.pss = 1 ∨ c.computeSign c.pss c.pss = -1 ∨ c.computeSign c.pss c.pss = 0)
    (e : String) (he : Src.codegen_polarity (algOf c) (modelOps c) (castMV x) false = .error e) :
    e = "ZeroDivisionError" ∧ c.computeSign c.pss c.pss = 0 := by
  rw [codegen_polarity_val] at he
  rcases hr with h | h | h
  · simp [h] at he
  · simp [h] at he
  · simp [h] at he
    exact ⟨he.symm, h⟩

/-- the translated closed-form inverse, evaluated as a case table on `c.d` -/
theorem codegen_hitzer_inv_val (c : Cfg) (x : MV α) :
    Src.codegen_hitzer_inv (algOf c) (modelOps c) (castMV x) =
      match hitzerNum c x with
      | some num => .ok (castMV num, scalarPart (sp c x num))
      | none => .error "NotImplementedError" := by
  unfold Src.codegen_hitzer_inv hitzerNum
  have hd : (algOf c).d = Int.ofNat c.d := rfl
  simp only [hd]
  generalize c.d = n
  unfold modelOps
  match n with
  | 0 => simp [uncast_cast]; rfl
  | 1 => simp [uncast_cast]; rfl
  | 2 => simp [uncast_cast]; rfl
  | 3 => simp [uncast_cast]; rfl
  | 4 => simp [uncast_cast]; rfl
  | 5 => simp [uncast_cast]; rfl
  | n + 6 =>
    have h0 : (Int.ofNat (n + 6) == (0 : Int)) = false := by simp; omega
    have h1 : (Int.ofNat (n + 6) == (1 : Int)) = false := by simp; omega
    have h2 : (Int.ofNat (n + 6) == (2 : Int)) = false := by simp; omega
    have h3 : (Int.ofNat (n + 6) == (3 : Int)) = false := by simp; omega
    have h4 : (Int.ofNat (n + 6) == (4 : Int)) = false := by simp; omega
    have h5 : (Int.ofNat (n + 6) == (5 : Int)) = false := by simp; omega
    simp only [h0, h1, h2, h3, h4, h5]
    rfl

/-- **the closed-form inverse of the source is the model's**: dimension dispatch, involutions, grade selections and
    association order of `codegen_hitzer_inv` are those of `hitzerNum`; the denominator is the scalar part of
    `x.sp(num)`; `NotImplementedError` exactly for d > 5 -/
theorem codegen_hitzer_inv_eq (c : Cfg) (x : MV α) :
    (Src.codegen_hitzer_inv (algOf c) (modelOps c) (castMV x)).toOption =
      (hitzerNum c x).map fun num => (castMV num, scalarPart (sp c x num)) := by
  rw [codegen_hitzer_inv_val]
  cases hitzerNum c x <;> rfl

omit [Zero α] in
theorem hitzerNum_none (c : Cfg) (x : MV α) (h : hitzerNum c x = none) : 5 < c.d := by
  unfold hitzerNum at h
  split at h <;> first | (simp at h; done) | skip
  rename_i h0 h1 h2 h3 h4 h5
  have h0' : c.d ≠ 0 := h0
  have h1' : c.d ≠ 1 := h1
  have h2' : c.d ≠ 2 := h2
  have h3' : c.d ≠ 3 := h3
  have h4' : c.d ≠ 4 := h4
  have h5' : c.d ≠ 5 := h5
  omega

theorem codegen_hitzer_inv_raises (c : Cfg) (x : MV α) (e : String)
    (he : Src.codegen_hitzer_inv (algOf c) (modelOps c) (castMV x) = .error e) :
    e = "NotImplementedError" ∧ 5 < c.d := by
  rw [codegen_hitzer_inv_val] at he
  cases h : hitzerNum c x with
  | some num => rw [h] at he; simp at he
  | none =>
    rw [h] at he
    simp at he
    exact ⟨he.symm, hitzerNum_none c x h⟩

end Kingdon.SrcEq

/-
  C02/C03: every product-type operator of kingdon refines the bilinear extension of a blade table;
  the filters of op/ip/lc/rc/sp select exactly the grade r+s, |r-s|, s-r, r-s, 0 parts; cp/acp are the
  halves of commutator and anticommutator; ip+sp = lc+rc and cp+acp = gp.
-/
import Kingdon.Lemmas.GpDen
import Kingdon.Lemmas.Bits
namespace Kingdon
open Finsupp

/-! ### grade arithmetic on bitmasks -/

theorem popcount_unfold (n : Nat) : popcount n = n % 2 + popcount (n / 2) := by
  cases n with
  | zero => simp [popcount]
  | succ n => rw [popcount]

theorem popcount_xor_add (a b : Nat) :
    popcount (a ^^^ b) + 2 * popcount (a &&& b) = popcount a + popcount b := by
  induction a using Nat.strongRecOn generalizing b with
  | _ a ih =>
    by_cases h : a = 0
    · subst h; simp [popcount]
    · have := ih (a / 2) (by omega) (b / 2)
      rw [popcount_unfold (a ^^^ b), popcount_unfold (a &&& b), popcount_unfold a, popcount_unfold b,
        Nat.xor_div_two, Nat.and_div_two, xor_mod_two', and_mod_two']
      rcases Nat.mod_two_eq_zero_or_one a with h1 | h1 <;>
      rcases Nat.mod_two_eq_zero_or_one b with h2 | h2 <;>
      rw [h1, h2] <;> omega

theorem popcount_eq_zero (a : Nat) : popcount a = 0 ↔ a = 0 := by
  induction a using Nat.strongRecOn with
  | _ a ih =>
    by_cases h : a = 0
    · subst h; simp [popcount]
    · have := ih (a / 2) (by omega)
      rw [popcount_unfold a]
      omega

theorem popcount_and_le_left (a b : Nat) : popcount (a &&& b) ≤ popcount a := by
  induction a using Nat.strongRecOn generalizing b with
  | _ a ih =>
    by_cases h : a = 0
    · subst h; simp [popcount]
    · have := ih (a / 2) (by omega) (b / 2)
      rw [popcount_unfold (a &&& b), popcount_unfold a, Nat.and_div_two, and_mod_two']
      rcases Nat.mod_two_eq_zero_or_one a with h1 | h1 <;>
      rcases Nat.mod_two_eq_zero_or_one b with h2 | h2 <;>
      rw [h1, h2] <;> omega

theorem popcount_and_eq_left (a b : Nat) : popcount (a &&& b) = popcount a ↔ a &&& b = a := by
  induction a using Nat.strongRecOn generalizing b with
  | _ a ih =>
    by_cases h : a = 0
    · subst h; simp [popcount]
    · have := ih (a / 2) (by omega) (b / 2)
      have hle := popcount_and_le_left (a / 2) (b / 2)
      have hd := Nat.and_div_two (a := a) (b := b)
      have hm := and_mod_two' a b
      rw [popcount_unfold (a &&& b), popcount_unfold a, Nat.and_div_two, and_mod_two']
      rcases Nat.mod_two_eq_zero_or_one a with h1 | h1 <;>
      rcases Nat.mod_two_eq_zero_or_one b with h2 | h2 <;>
      rw [h1, h2] at hm ⊢ <;> omega

/-- `codegen_op`: the filter `k_out == kx + ky` selects the grade r+s part -/
theorem op_filter_iff (kx ky : Nat) :
    ((kx ^^^ ky) == kx + ky) = true ↔ popcount (kx ^^^ ky) = popcount kx + popcount ky := by
  rw [beq_iff_eq, xor_eq_add_iff, ← popcount_eq_zero (kx &&& ky)]
  have := popcount_xor_add kx ky
  omega

theorem and_eq_left_le (a b : Nat) (h : a &&& b = a) : a ≤ b := by
  have := Nat.and_le_right (n := a) (m := b); omega

/-- `codegen_lc`: `k_out == -(kx - ky)` selects the grade s-r part -/
theorem lc_filter_iff (kx ky : Nat) :
    (((kx ^^^ ky : Nat) : Int) == -((kx : Int) - ky)) = true ↔ popcount (kx ^^^ ky) + popcount kx = popcount ky := by
  rw [beq_iff_eq]
  have h1 := popcount_xor_add kx ky
  have h2 := popcount_and_eq_left kx ky
  have h3 := popcount_and_le_left kx ky
  have h4 := add_eq_xor_add_and kx ky
  have h5 := Nat.and_le_right (n := kx) (m := ky)
  have h6 := Nat.and_le_left (n := kx) (m := ky)
  constructor
  · intro h
    have : kx &&& ky = kx := by omega
    have := h2.2 this
    omega
  · intro h
    have : kx &&& ky = kx := h2.1 (by omega)
    omega

/-- `codegen_rc`: `k_out == kx - ky` selects the grade r-s part -/
theorem rc_filter_iff (kx ky : Nat) :
    (((kx ^^^ ky : Nat) : Int) == (kx : Int) - ky) = true ↔ popcount (kx ^^^ ky) + popcount ky = popcount kx := by
  have := lc_filter_iff ky kx
  rw [Nat.xor_comm] at this
  rw [← this, beq_iff_eq, beq_iff_eq]
  omega

/-- `codegen_ip`: `k_out == abs(kx - ky)` selects the grade |r-s| part -/
theorem ip_filter_iff (kx ky : Nat) :
    (((kx ^^^ ky : Nat) : Int) == ((((kx : Int) - ky).natAbs : Nat) : Int)) = true ↔
      (popcount (kx ^^^ ky) + popcount kx = popcount ky ∨ popcount (kx ^^^ ky) + popcount ky = popcount kx) := by
  rw [← lc_filter_iff, ← rc_filter_iff, beq_iff_eq, beq_iff_eq, beq_iff_eq]
  omega

/-- `codegen_sp`: `k_out == 0` selects the grade 0 part -/
theorem sp_filter_iff (kx ky : Nat) : ((kx ^^^ ky) == 0) = true ↔ popcount (kx ^^^ ky) = 0 := by
  rw [beq_iff_eq, popcount_eq_zero]

noncomputable section
variable {α : Type} [CommRing α]

/-- the blade table restricted to the pairs whose product has the grade selected by `sel r s g` -/
def gradedTable (s : Nat → Nat → Int) (sel : Nat → Nat → Nat → Bool) (i j : Nat) : Int :=
  if sel (popcount i) (popcount j) (popcount (i ^^^ j)) then s i j else 0

/-- sign tables with values in {1,-1,0} -/
def TableRange (s : Nat → Nat → Int) : Prop := ∀ i j, s i j = 1 ∨ s i j = -1 ∨ s i j = 0

theorem bilin_add_table (s1 s2 : Nat → Nat → Int) (ko) (a b : ℕ →₀ α) :
    bilin s1 ko a b + bilin s2 ko a b = bilin (fun i j => s1 i j + s2 i j) ko a b := by
  unfold bilin
  rw [← Finsupp.sum_add]
  refine Finsupp.sum_congr fun i _ => ?_
  rw [← Finsupp.sum_add]
  refine Finsupp.sum_congr fun j _ => ?_
  rw [← single_add]
  congr 1
  push_cast
  ring

theorem bilin_sub_table (s1 s2 : Nat → Nat → Int) (ko) (a b : ℕ →₀ α) :
    bilin s1 ko a b - bilin s2 ko a b = bilin (fun i j => s1 i j - s2 i j) ko a b := by
  unfold bilin
  rw [← Finsupp.sum_sub]
  refine Finsupp.sum_congr fun i _ => ?_
  rw [← Finsupp.sum_sub]
  refine Finsupp.sum_congr fun j _ => ?_
  rw [← single_sub]
  congr 1
  push_cast
  ring

theorem effSign_filter (signf : Nat → Nat → Int) (hr : TableRange signf) (filt : Nat → Nat → Nat → Bool)
    (sel : Nat → Nat → Nat → Bool)
    (h : ∀ i j, filt i j (i ^^^ j) = sel (popcount i) (popcount j) (popcount (i ^^^ j))) :
    effSign signf (· ^^^ ·) filt = gradedTable signf sel := by
  funext i j
  unfold effSign gradedTable
  simp only [h]
  rcases hr i j with e | e | e <;> cases sel (popcount i) (popcount j) (popcount (i ^^^ j)) <;> simp [e]

theorem clMulS_swap_aux (s : Nat → Nat → Int) (a b : ℕ →₀ α) :
    clMulS s b a = bilin (fun i j => s j i) (· ^^^ ·) a b := by
  unfold clMulS bilin
  rw [Finsupp.sum_comm]
  refine Finsupp.sum_congr fun i _ => ?_
  refine Finsupp.sum_congr fun j _ => ?_
  dsimp only
  rw [Nat.xor_comm j i]
  congr 1
  ring

theorem eq_of_xor_eq_zero (a b : Nat) (h : a ^^^ b = 0) : a = b := by
  have := add_eq_xor_add_and a b
  have := Nat.and_le_right (n := a) (m := b)
  have := Nat.and_le_left (n := a) (m := b)
  omega

variable (c : Cfg) (hr : TableRange c.computeSign)
include hr

/-- C02 -/
theorem gp_den (x y : MV α) : den (gp c x y) = clMulS c.computeSign (den x) (den y) := by
  unfold gp
  rw [codegenProduct_den, effSign_noFilter _ _ hr]; rfl

/-- C03 (outer product): sum over r, s of the grade r+s part of the product of the grade-r and grade-s parts -/
theorem op_den (x y : MV α) :
    den (op c x y) = bilin (gradedTable c.computeSign fun r s g => g == r + s) (· ^^^ ·) (den x) (den y) := by
  unfold op
  rw [codegenProduct_den, effSign_filter _ hr]
  intro i j
  rw [Bool.eq_iff_iff, op_filter_iff, beq_iff_eq]

theorem ip_den (x y : MV α) :
    den (ip c x y) = bilin (gradedTable c.computeSign fun r s g => g + r == s || g + s == r) (· ^^^ ·) (den x) (den y) := by
  unfold ip
  rw [codegenProduct_den, effSign_filter _ hr]
  intro i j
  rw [Bool.eq_iff_iff, ip_filter_iff, Bool.or_eq_true, beq_iff_eq, beq_iff_eq]

theorem lc_den (x y : MV α) :
    den (lc c x y) = bilin (gradedTable c.computeSign fun r s g => g + r == s) (· ^^^ ·) (den x) (den y) := by
  unfold lc
  rw [codegenProduct_den, effSign_filter _ hr]
  intro i j
  rw [Bool.eq_iff_iff, lc_filter_iff, beq_iff_eq]

theorem rc_den (x y : MV α) :
    den (rc c x y) = bilin (gradedTable c.computeSign fun r s g => g + s == r) (· ^^^ ·) (den x) (den y) := by
  unfold rc
  rw [codegenProduct_den, effSign_filter _ hr]
  intro i j
  rw [Bool.eq_iff_iff, rc_filter_iff, beq_iff_eq]

theorem sp_den (x y : MV α) :
    den (sp c x y) = bilin (gradedTable c.computeSign fun _ _ g => g == 0) (· ^^^ ·) (den x) (den y) := by
  unfold sp
  rw [codegenProduct_den, effSign_filter _ hr]
  intro i j
  rw [Bool.eq_iff_iff, sp_filter_iff, beq_iff_eq]

/-- ip + sp = lc + rc -/
theorem ip_add_sp (x y : MV α) : den (ip c x y) + den (sp c x y) = den (lc c x y) + den (rc c x y) := by
  rw [ip_den c hr, sp_den c hr, lc_den c hr, rc_den c hr, bilin_add_table, bilin_add_table]
  congr 1
  funext i j
  unfold gradedTable
  have h0 := popcount_eq_zero (i ^^^ j)
  by_cases hg : popcount (i ^^^ j) = 0
  · have : i = j := eq_of_xor_eq_zero _ _ (h0.1 hg)
    subst this
    simp
  · have h1 : (popcount (i ^^^ j) == 0) = false := by simpa using hg
    by_cases ha : popcount (i ^^^ j) + popcount i = popcount j <;>
    by_cases hb : popcount (i ^^^ j) + popcount j = popcount i
    · omega
    · simp [ha, hb, h1]
    · simp [ha, hb, h1]
    · simp [ha, hb, h1]

/-- the table is (anti)symmetric up to sign: `e_J e_I = ± e_I e_J` -/
def TableSymm (s : Nat → Nat → Int) : Prop := ∀ i j, s j i = s i j ∨ s j i = - s i j

/-- the product with the factors exchanged, as a bilinear map of (x, y) -/
theorem clMulS_swap (s : Nat → Nat → Int) (a b : ℕ →₀ α) :
    clMulS s b a = bilin (fun i j => s j i) (· ^^^ ·) a b :=
  clMulS_swap_aux s a b

theorem effSign_cp (hs : TableSymm c.computeSign) (i j : Nat) :
    effSign c.computeSign (· ^^^ ·) (fun kx ky _ => c.computeSign kx ky - c.computeSign ky kx != 0) i j +
    effSign c.computeSign (· ^^^ ·) (fun kx ky _ => c.computeSign kx ky - c.computeSign ky kx != 0) i j
      = c.computeSign i j - c.computeSign j i := by
  unfold effSign
  rcases hr i j with e | e | e <;> rcases hs i j with e' | e' <;> rw [e] at e' <;> simp [e, e']

theorem effSign_acp (hs : TableSymm c.computeSign) (i j : Nat) :
    effSign c.computeSign (· ^^^ ·) (fun kx ky _ => c.computeSign kx ky + c.computeSign ky kx != 0) i j +
    effSign c.computeSign (· ^^^ ·) (fun kx ky _ => c.computeSign kx ky + c.computeSign ky kx != 0) i j
      = c.computeSign i j + c.computeSign j i := by
  unfold effSign
  rcases hr i j with e | e | e <;> rcases hs i j with e' | e' <;> rw [e] at e' <;> simp [e, e']

theorem effSign_cp_acp (hs : TableSymm c.computeSign) (i j : Nat) :
    effSign c.computeSign (· ^^^ ·) (fun kx ky _ => c.computeSign kx ky - c.computeSign ky kx != 0) i j +
    effSign c.computeSign (· ^^^ ·) (fun kx ky _ => c.computeSign kx ky + c.computeSign ky kx != 0) i j
      = c.computeSign i j := by
  unfold effSign
  rcases hr i j with e | e | e <;> rcases hs i j with e' | e' <;> rw [e] at e' <;> simp [e, e']

/-- C03: 2 (x × y) = xy - yx -/
theorem two_cp_den (hs : TableSymm c.computeSign) (x y : MV α) :
    den (cp c x y) + den (cp c x y) = clMulS c.computeSign (den x) (den y) - clMulS c.computeSign (den y) (den x) := by
  rw [clMulS_swap_aux _ (den x) (den y)]
  unfold cp clMulS
  rw [codegenProduct_den, bilin_add_table, bilin_sub_table]
  congr 1
  funext i j
  exact effSign_cp c hr hs i j

/-- C03: 2 (x acp y) = xy + yx -/
theorem two_acp_den (hs : TableSymm c.computeSign) (x y : MV α) :
    den (acp c x y) + den (acp c x y) = clMulS c.computeSign (den x) (den y) + clMulS c.computeSign (den y) (den x) := by
  rw [clMulS_swap_aux _ (den x) (den y)]
  unfold acp clMulS
  rw [codegenProduct_den, bilin_add_table, bilin_add_table]
  congr 1
  funext i j
  exact effSign_acp c hr hs i j

/-- cp + acp = gp -/
theorem cp_add_acp (hs : TableSymm c.computeSign) (x y : MV α) :
    den (cp c x y) + den (acp c x y) = den (gp c x y) := by
  rw [gp_den c hr]
  unfold cp acp clMulS
  rw [codegenProduct_den, codegenProduct_den, bilin_add_table]
  congr 1
  funext i j
  exact effSign_cp_acp c hr hs i j

end
end Kingdon

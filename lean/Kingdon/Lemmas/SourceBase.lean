/-
  Glue between the *translated source* (Kingdon/Generated/Source.lean, regenerated from /repo on every run) and
  the hand-written model: how a model configuration `Cfg` and a model multivector are presented to the
  translated functions.
-/
import Kingdon.Generated.Source
import Kingdon.Model.Blade
import Kingdon.Model.Codegen
namespace Kingdon.SrcEq
open Kingdon

/-- the character python uses for generator label `l` in a blade name (`hex(l)[2:]`, one digit) -/
def hexChar (l : Nat) : Char := ("0123456789abcdef".toList)[l]?.getD '?'

/-- a model name (list of labels) as the python string `'e…'` -/
def pyName (n : List Nat) : List Char := 'e' :: n.map hexChar

/-- the algebra object as the translated functions see it, for a model configuration -/
def algOf (c : Cfg) : Src.Alg where
  signs := fun p => c.computeSign p.1.toNat p.2.toNat
  len := Int.ofNat (2 ^ c.d)
  bin2canon := c.basis.map fun n => (Int.ofNat (c.binOf n), pyName n)
  canon2bin := c.basis.map fun n => (pyName n, Int.ofNat (c.binOf n))
  signature := c.signature
  start_index := Int.ofNat c.start
  d := Int.ofNat c.d
  -- `indices_for_grades` is a dict keyed by the strictly increasing tuples of grades in 0..d
  indices_for_grades := fun gs =>
    if gs.all (fun g => decide (0 ≤ g)) && (gs.map Int.toNat).Pairwise (· < ·) && (gs.map Int.toNat).all (· ≤ c.d)
    then .ok ((c.indicesForGrades (gs.map Int.toNat)).map Int.ofNat) else .error "KeyError"

/-- a model multivector (keys `Nat`) as the python dict of its items (keys `int`) -/
def castMV {α : Type} (x : MV α) : Py.Dict Int α := x.map fun kv => (Int.ofNat kv.1, kv.2)

/-- keys of a multivector -/
def keysOf {α : Type} (x : MV α) : List Nat := x.map (·.1)

/-- a python dict with non-negative int keys as a model multivector -/
def uncastMV {α : Type} (x : Py.Dict Int α) : MV α := x.map fun kv => (kv.1.toNat, kv.2)

theorem uncast_cast {α : Type} (x : MV α) : uncastMV (castMV x) = x := by
  unfold uncastMV castMV
  rw [List.map_map]
  conv => rhs; rw [← List.map_id x]
  apply List.map_congr_left
  intro a _
  simp

end Kingdon.SrcEq

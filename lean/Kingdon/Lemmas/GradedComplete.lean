/-
  Graded mode: in a NON-DEGENERATE metric the geometric product of two operands that store complete grades stores
  complete grades again (which is what `Algebra(graded=True)` relies on when it feeds a result into the next operator);
  in degenerate metrics this fails (known findings F7a/F7b).
-/
import Kingdon.Lemmas.Keys
import Kingdon.Lemmas.CfgSign
import Kingdon.Lemmas.Bits
import Kingdon.Lemmas.Products
namespace Kingdon
open Kingdon

/-! ### helpers for `grade_orbit` -/

theorem or_mod_two' (a b : Nat) : (a ||| b) % 2 = (a % 2 + b % 2) - (a % 2) * (b % 2) := by
  have h := @Nat.or_mod_two_eq_one a b
  rcases Nat.mod_two_eq_zero_or_one a with ha | ha <;>
  rcases Nat.mod_two_eq_zero_or_one b with hb | hb <;>
  rcases Nat.mod_two_eq_zero_or_one (a ||| b) with hab | hab <;> simp_all

theorem popcount_or_add (a b : Nat) :
    popcount (a ||| b) + popcount (a &&& b) = popcount a + popcount b := by
  induction a using Nat.strongRecOn generalizing b with
  | _ a ih =>
    by_cases h : a = 0
    · subst h; simp [popcount]
    · have := ih (a / 2) (by omega) (b / 2)
      rw [popcount_unfold (a ||| b), popcount_unfold (a &&& b), popcount_unfold a, popcount_unfold b,
        Nat.or_div_two, Nat.and_div_two, or_mod_two', and_mod_two']
      rcases Nat.mod_two_eq_zero_or_one a with h1 | h1 <;>
      rcases Nat.mod_two_eq_zero_or_one b with h2 | h2 <;>
      rw [h1, h2] <;> omega

theorem xor_bit (a b x y : Nat) (hx : x < 2) (hy : y < 2) :
    (2 * a + x) ^^^ (2 * b + y) = 2 * (a ^^^ b) + (x + y) % 2 := by
  have h1 := Nat.xor_div_two (a := 2 * a + x) (b := 2 * b + y)
  have h2 := xor_mod_two' (2 * a + x) (2 * b + y)
  have e1 : (2 * a + x) / 2 = a := by omega
  have e2 : (2 * b + y) / 2 = b := by omega
  rw [e1, e2] at h1
  omega

theorem popcount_bit (a x : Nat) (hx : x < 2) : popcount (2 * a + x) = x + popcount a := by
  rw [popcount_unfold (2 * a + x)]
  have e1 : (2 * a + x) / 2 = a := by omega
  have e2 : (2 * a + x) % 2 = x := by omega
  rw [e1, e2]

/-- the construction: a blade of grade `a + b` with `t` further free positions is a product of blades of grades
    `a + t` and `b + t` -/
theorem grade_build (d : Nat) : ∀ (a b t K : Nat), K < 2 ^ d → popcount K = a + b → a + b + t ≤ d →
    ∃ I J, I < 2 ^ d ∧ J < 2 ^ d ∧ popcount I = a + t ∧ popcount J = b + t ∧ I ^^^ J = K := by
  induction d with
  | zero =>
    intro a b t K hK hp hle
    have : K = 0 := by simpa using hK
    subst this
    refine ⟨0, 0, by simp, by simp, ?_, ?_, by simp⟩ <;> simp [popcount] <;> omega
  | succ d ih =>
    intro a b t K hK hp hle
    have hK2 : K / 2 < 2 ^ d := by rw [Nat.pow_succ] at hK; omega
    have hKe : K = 2 * (K / 2) + K % 2 := by omega
    have hpu := popcount_unfold K
    have hple := popcount_le d (K / 2) hK2
    have key : ∀ (a' b' t' x y : Nat), x < 2 → y < 2 → (x + y) % 2 = K % 2 →
        popcount (K / 2) = a' + b' → a' + b' + t' ≤ d → x + (a' + t') = a + t → y + (b' + t') = b + t →
        ∃ I J, I < 2 ^ (d + 1) ∧ J < 2 ^ (d + 1) ∧ popcount I = a + t ∧ popcount J = b + t ∧ I ^^^ J = K := by
      intro a' b' t' x y hx hy hxy hp' hle' ha hb
      obtain ⟨I, J, hI, hJ, pI, pJ, hIJ⟩ := ih a' b' t' (K / 2) hK2 hp' hle'
      refine ⟨2 * I + x, 2 * J + y, ?_, ?_, ?_, ?_, ?_⟩
      · rw [Nat.pow_succ]; omega
      · rw [Nat.pow_succ]; omega
      · rw [popcount_bit _ _ hx, pI]; exact ha
      · rw [popcount_bit _ _ hy, pJ]; exact hb
      · rw [xor_bit _ _ _ _ hx hy, hIJ, hxy]; omega
    rcases Nat.mod_two_eq_zero_or_one K with h0 | h1
    · by_cases hc : a + b + t ≤ d
      · exact key a b t 0 0 (by omega) (by omega) (by omega) (by omega) hc (by omega) (by omega)
      · exact key a b (t - 1) 1 1 (by omega) (by omega) (by omega) (by omega) (by omega) (by omega) (by omega)
    · by_cases ha : 1 ≤ a
      · exact key (a - 1) b t 1 0 (by omega) (by omega) (by omega) (by omega) (by omega) (by omega) (by omega)
      · exact key a (b - 1) t 0 1 (by omega) (by omega) (by omega) (by omega) (by omega) (by omega) (by omega)

/-- the combinatorial core: if some pair of blades of grades r and s multiplies to a blade of grade g inside a
    d-dimensional space, then *every* blade of grade g is the product of some pair of grades r and s -/
theorem grade_orbit (d r s : Nat) (K K' : Nat) (hK : K < 2 ^ d) (hK' : K' < 2 ^ d) (hpop : popcount K' = popcount K)
    (hex : ∃ I J, I < 2 ^ d ∧ J < 2 ^ d ∧ popcount I = r ∧ popcount J = s ∧ I ^^^ J = K) :
    ∃ I' J', I' < 2 ^ d ∧ J' < 2 ^ d ∧ popcount I' = r ∧ popcount J' = s ∧ I' ^^^ J' = K' := by
  obtain ⟨I, J, hI, hJ, pI, pJ, hIJ⟩ := hex
  have h1 := popcount_xor_add I J
  have h2 := popcount_or_add I J
  have h3 := popcount_le d (I ||| J) (Nat.or_lt_two_pow hI hJ)
  have h4 := popcount_and_le_left I J
  have h5 := popcount_and_le_left J I
  rw [Nat.and_comm] at h5
  rw [hIJ] at h1
  have := grade_build d (r - popcount (I &&& J)) (s - popcount (I &&& J)) (popcount (I &&& J)) K' hK'
    (by omega) (by omega)
  obtain ⟨I', J', hI', hJ', pI', pJ', hIJ'⟩ := this
  exact ⟨I', J', hI', hJ', by omega, by omega, hIJ'⟩

theorem csign_ne_zero (sig : List Int) (hs : ∀ s ∈ sig, s ≠ 0) (I J : Nat) : csign sig I J ≠ 0 := by
  induction sig generalizing I J with
  | nil => simp [csign]
  | cons s sig ih =>
    have h1 := ih (fun x hx => hs x (by simp [hx])) (I / 2) (J / 2)
    have h2 : s ≠ 0 := hs s (by simp)
    unfold csign
    refine Int.mul_ne_zero (Int.mul_ne_zero ?_ ?_) h1
    · split <;> decide
    · split
      · exact h2
      · decide

/-- in a non-degenerate metric no entry of the sign table vanishes -/
theorem computeSign_ne_zero (c : Cfg) (h : Cfg.Adm c) (hnd : ∀ s ∈ c.signature, s ≠ 0) (I J : Nat)
    (hI : I < 2 ^ c.d) (hJ : J < 2 ^ c.d) : c.computeSign I J ≠ 0 := by
  have hsb : ∀ s ∈ c.sigBits, s ≠ 0 := by
    intro s hs
    unfold Cfg.sigBits at hs
    obtain ⟨l, hl, rfl⟩ := List.mem_map.mp hs
    have hr := h.vecs_range l hl
    have hlt : l - c.start < c.signature.length := by
      have : c.d = c.signature.length := rfl
      omega
    unfold Cfg.metric
    rw [getElem!_pos c.signature _ hlt]
    exact hnd _ (List.getElem_mem _)
  rw [Cfg.computeSign_twist c h I J hI hJ]
  have hK : I ^^^ J < 2 ^ c.d := Nat.xor_lt_two_pow hI hJ
  have e1 : c.epsK I ≠ 0 := by rcases Cfg.epsK_sq c h I hI with e | e <;> rw [e] <;> decide
  have e2 : c.epsK J ≠ 0 := by rcases Cfg.epsK_sq c h J hJ with e | e <;> rw [e] <;> decide
  have e3 : c.epsK (I ^^^ J) ≠ 0 := by rcases Cfg.epsK_sq c h _ hK with e | e <;> rw [e] <;> decide
  exact Int.mul_ne_zero (Int.mul_ne_zero (Int.mul_ne_zero e1 e2) e3) (csign_ne_zero _ hsb I J)

/-- **complete grades in, complete grades out**: for an admissible configuration with a non-degenerate metric, if both
    operands store, for each of their grades, *all* blades of that grade, then so does their geometric product:
    whenever a blade is stored in `x * y`, every blade of the same grade is stored -/
theorem gp_keeps_grades_complete {α : Type} [Add α] [Mul α] [Neg α] (c : Cfg) (h : Cfg.Adm c)
    (hnd : ∀ s ∈ c.signature, s ≠ 0) (x y : MV α)
    (hxr : ∀ k ∈ keysOf x, k < 2 ^ c.d) (hyr : ∀ k ∈ keysOf y, k < 2 ^ c.d)
    (hx : ∀ k ∈ keysOf x, ∀ k', k' < 2 ^ c.d → popcount k' = popcount k → k' ∈ keysOf x)
    (hy : ∀ k ∈ keysOf y, ∀ k', k' < 2 ^ c.d → popcount k' = popcount k → k' ∈ keysOf y)
    (K K' : Nat) (hK : K ∈ keysOf (gp c x y)) (hK' : K' < 2 ^ c.d) (hpop : popcount K' = popcount K) :
    K' ∈ keysOf (gp c x y) := by
  unfold gp at hK ⊢
  rw [mem_keys_codegenProduct] at hK ⊢
  obtain ⟨p, hp, q, hq, _, _, hko⟩ := hK
  have hpk : p.1 ∈ keysOf x := List.mem_map.mpr ⟨p, hp, rfl⟩
  have hqk : q.1 ∈ keysOf y := List.mem_map.mpr ⟨q, hq, rfl⟩
  have hpl := hxr _ hpk
  have hql := hyr _ hqk
  have hKl : K < 2 ^ c.d := hko ▸ Nat.xor_lt_two_pow hpl hql
  obtain ⟨I', J', hI', hJ', pI', pJ', hIJ'⟩ := grade_orbit c.d (popcount p.1) (popcount q.1) K K' hKl hK' hpop
    ⟨p.1, q.1, hpl, hql, rfl, rfl, hko⟩
  have hI'm := hx _ hpk I' hI' pI'
  have hJ'm := hy _ hqk J' hJ' pJ'
  obtain ⟨p', hp', rfl⟩ := List.mem_map.mp hI'm
  obtain ⟨q', hq', rfl⟩ := List.mem_map.mp hJ'm
  exact ⟨p', hp', q', hq', computeSign_ne_zero c h hnd _ _ hI' hJ', rfl, hIJ'⟩

end Kingdon

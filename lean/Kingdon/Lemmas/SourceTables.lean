/-
  The translated table builders of algebra.py — `_prepare_signs` (eager branch), `cayley`, `indices_for_grade`,
  `indices_for_grades` — produce the tables the model (and `algOf`) assumes.
-/
import Kingdon.Lemmas.SourceSigns
import Kingdon.Lemmas.SourceBlades
import Kingdon.Lemmas.Keys
import Kingdon.Lemmas.SourceLinear
import Kingdon.Lemmas.SourceNames
import Kingdon.Lemmas.SourceAccessors
namespace Kingdon.SrcEq
open Kingdon

/-! ### facts of `admissible` not in `Adm` -/

-- (`vecs16_of_admissible` lives in SourceBlades.lean)

theorem sorted_of_admissible (c : Cfg) (h : c.admissible = true) : (c.basis.map (·.length)).Pairwise (· ≤ ·) := by
  unfold Cfg.admissible at h
  simp only [Bool.and_eq_true, decide_eq_true_eq] at h
  exact h.1.2

theorem basis16 (c : Cfg) (h : c.admissible = true) : ∀ n ∈ c.basis, ∀ l ∈ n, l < 16 :=
  fun n hn l hl => vecs16_of_admissible c h l ((Cfg.adm_of_admissible c h).names_letters n hn l hl)

/-- the name stored for the blade of a basis name is that name -/
theorem nameOf_binOf (c : Cfg) (h : c.admissible = true) (n : List Nat) (hn : n ∈ c.basis) : c.nameOf (c.binOf n) = n := by
  have hadm := Cfg.adm_of_admissible c h
  obtain ⟨h1, h2⟩ := Cfg.nameOf_mem c hadm _ (Cfg.binOf_lt c hadm n hn)
  exact List.inj_on_of_nodup_map (binOf_injective_of_admissible c h) h1 hn h2

/-! ### loops that fill a dict -/

theorem forIn_dictSet {α κ ν : Type} [BEq κ] (l : List α) (key : α → κ) (g : α → ν)
    (body : α → Py.Dict κ ν → Py.M (ForInStep (Py.Dict κ ν)))
    (hbody : ∀ x ∈ l, ∀ t, body x t = .ok (ForInStep.yield (Py.dictSet t (key x) (g x)))) (init : Py.Dict κ ν) :
    forIn l init body = .ok (l.foldl (fun t x => Py.dictSet t (key x) (g x)) init) := by
  induction l generalizing init with
  | nil => rfl
  | cons a l ih =>
    rw [List.forIn_cons, hbody a (by simp) init]
    exact ih (fun x hx => hbody x (by simp [hx])) _

theorem dictGet?_dictSet {κ ν : Type} [BEq κ] [LawfulBEq κ] (t : Py.Dict κ ν) (k : κ) (v : ν) (k' : κ) :
    Py.dictGet? (Py.dictSet t k v) k' = if k == k' then some v else Py.dictGet? t k' := by
  induction t with
  | nil => simp [Py.dictSet, Py.dictGet?, List.find?_cons]; split <;> simp_all
  | cons a r ih =>
    obtain ⟨k1, v1⟩ := a
    unfold Py.dictGet? at ih ⊢
    simp only [Py.dictSet]
    by_cases e : k1 = k
    · subst e
      simp only [beq_self_eq_true, if_true, List.find?_cons]
      by_cases e' : k1 = k'
      · simp [e']
      · have : (k1 == k') = false := by simpa using e'
        simp [this]
    · have : (k1 == k) = false := by simpa using e
      simp only [this, Bool.false_eq_true, if_false, List.find?_cons]
      by_cases e' : k1 = k'
      · subst e'
        have : (k == k1) = false := by simpa using fun h => e h.symm
        simp [this]
      · have : (k1 == k') = false := by simpa using e'
        simp only [this]
        exact ih

theorem dictGet?_foldl_dictSet {α κ ν : Type} [BEq κ] [LawfulBEq κ] (l : List α) (key : α → κ) (g : α → ν) (k : κ) (v : ν)
    (hall : ∀ x ∈ l, key x = k → g x = v) (init : Py.Dict κ ν)
    (hex : (∃ x ∈ l, key x = k) ∨ Py.dictGet? init k = some v) :
    Py.dictGet? (l.foldl (fun t x => Py.dictSet t (key x) (g x)) init) k = some v := by
  induction l generalizing init with
  | nil =>
    rcases hex with ⟨x, hx, _⟩ | h
    · simp at hx
    · exact h
  | cons a l ih =>
    rw [List.foldl_cons]
    apply ih (fun x hx => hall x (by simp [hx]))
    rw [dictGet?_dictSet]
    by_cases e : key a = k
    · right; simp [e, hall a (by simp) e]
    · have : (key a == k) = false := by simpa using e
      rw [this]
      rcases hex with ⟨x, hx, hk⟩ | h
      · rcases List.mem_cons.mp hx with rfl | hx
        · exact absurd hk e
        · exact Or.inl ⟨x, hx, hk⟩
      · exact Or.inr (by simpa using h)

theorem mem_product {α β : Type} (a : List α) (b : List β) (p : α × β) : p ∈ Py.product a b ↔ p.1 ∈ a ∧ p.2 ∈ b := by
  obtain ⟨x, y⟩ := p
  unfold Py.product
  simp

theorem mem_canon2bin (c : Cfg) (p : List Char × Int) :
    p ∈ (algOf c).canon2bin ↔ ∃ n ∈ c.basis, p = (pyName n, Int.ofNat (c.binOf n)) := by
  show p ∈ c.basis.map _ ↔ _
  rw [List.mem_map]
  constructor
  · rintro ⟨n, hn, rfl⟩; exact ⟨n, hn, rfl⟩
  · rintro ⟨n, hn, rfl⟩; exact ⟨n, hn, rfl⟩

/-- **the stored sign table is `_compute_sign` of every pair**: the eager branch of `_prepare_signs` (d ≤ 6) builds, without
    raising, a table whose entry for every pair of blades of the algebra is the model's sign — so the total function
    `(algOf c).signs` the other translated functions read is what this table holds -/
theorem prepare_signs_eq (c : Cfg) (h : c.admissible = true) :
    ∃ tbl, Src.prepare_signs (algOf c) = .ok tbl ∧
      ∀ I J, I < 2 ^ c.d → J < 2 ^ c.d → Py.dictGet? tbl (Int.ofNat I, Int.ofNat J) = some (c.computeSign I J) := by
  have hadm := Cfg.adm_of_admissible c h
  have h16 := vecs16_of_admissible c h
  unfold Src.prepare_signs
  simp only []
  rw [forIn_dictSet _ (fun x => (x.1.2, x.2.2)) (fun x => c.computeSign x.1.2.toNat x.2.2.toNat)]
  · refine ⟨_, rfl, ?_⟩
    intro I J hI hJ
    apply dictGet?_foldl_dictSet
    · rintro x _ hk
      simp only [Prod.mk.injEq] at hk
      rw [hk.1, hk.2]; rfl
    · left
      obtain ⟨nI, hnI, bI⟩ := hadm.spelled I hI
      obtain ⟨nJ, hnJ, bJ⟩ := hadm.spelled J hJ
      refine ⟨((pyName nI, Int.ofNat (c.binOf nI)), (pyName nJ, Int.ofNat (c.binOf nJ))), ?_, ?_⟩
      · rw [mem_product]
        exact ⟨(mem_canon2bin c _).mpr ⟨nI, hnI, rfl⟩, (mem_canon2bin c _).mpr ⟨nJ, hnJ, rfl⟩⟩
      · simp only [bI, bJ]
  · rintro ⟨p, q⟩ hx t
    rw [mem_product] at hx
    obtain ⟨nI, hnI, rfl⟩ := (mem_canon2bin c _).mp hx.1
    obtain ⟨nJ, hnJ, rfl⟩ := (mem_canon2bin c _).mp hx.2
    simp only []
    have := compute_sign_eq_pair c hadm h16 rfl (c.binOf nI) (c.binOf nJ) (Cfg.binOf_lt c hadm nI hnI) (Cfg.binOf_lt c hadm nJ hnJ)
    rw [nameOf_binOf c h nI hnI, nameOf_binOf c h nJ hnJ] at this
    rw [this]
    rfl

/-- how python prints an entry of the Cayley table -/
def cayleyStr (r : Int × List Nat) : List Char :=
  if r.1 = 0 then ['0'] else (if r.1 = -1 then ['-'] else []) ++ pyName r.2

/-- the entry the loop of `cayley` stores for a pair of blades -/
def cayleyEntryN (c : Cfg) (I J : Nat) : List Char :=
  if c.computeSign I J = 0 then ['0']
  else (if c.computeSign I J = -1 then ['-'] else []) ++ pyName (c.nameOf (I ^^^ J))

def cayleyEntry (c : Cfg) (x : (List Char × Int) × (List Char × Int)) : List Char :=
  cayleyEntryN c x.1.2.toNat x.2.2.toNat

theorem cayley_body (c : Cfg) (hadm : Cfg.Adm c) (eI eJ : List Char) (I J : Nat) (hI : I < 2 ^ c.d) (hJ : J < 2 ^ c.d)
    (t : Py.Dict (List Char × List Char) (List Char)) :
    (have sign := (algOf c).signs (Int.ofNat I, Int.ofNat J);
      if Py.truthy sign = true then
        have sign__1 := if (sign == -1) = true then ['-'] else [];
        do
        let __do_lift ← Py.dictGet (algOf c).bin2canon (Py.xor (Int.ofNat I) (Int.ofNat J))
        have cayley : Py.Dict (List Char × List Char) (List Char) :=
          Py.dictSet t (eI, eJ) (sign__1 ++ __do_lift)
        pure (ForInStep.yield cayley)
      else
        have cayley := Py.dictSet t (eI, eJ) ['0'];
        pure (ForInStep.yield cayley) : Py.M _) =
    .ok (ForInStep.yield (Py.dictSet t (eI, eJ) (cayleyEntry c ((eI, Int.ofNat I), (eJ, Int.ofNat J))))) := by
  have hs : (algOf c).signs (Int.ofNat I, Int.ofNat J) = c.computeSign I J := rfl
  simp only [hs, xor_ofNat, dictGet_bin2canon c hadm _ (Nat.xor_lt_two_pow hI hJ)]
  show _ = Except.ok (ForInStep.yield (Py.dictSet t (eI, eJ) (cayleyEntryN c I J)))
  unfold cayleyEntryN
  generalize c.computeSign I J = s
  have ht : Py.truthy s = (s != 0) := rfl
  by_cases e : s = 0
  · subst e; rfl
  · have h1 : (s != 0) = true := by simpa using e
    rw [ht, h1, if_neg e]
    by_cases e1 : s = -1
    · subst e1; rfl
    · have h2 : (s == -1) = false := by simpa using e1
      rw [h2, if_neg e1]; rfl

/-- **the Cayley table of the source is the model's**, for every pair of basis blades -/
theorem cayley_eq (c : Cfg) (h : c.admissible = true) :
    ∃ tbl, Src.cayley (algOf c) = .ok tbl ∧
      ∀ nI ∈ c.basis, ∀ nJ ∈ c.basis, Py.dictGet? tbl (pyName nI, pyName nJ) = some (cayleyStr (c.cayley nI nJ)) := by
  have hadm := Cfg.adm_of_admissible c h
  have h16 := basis16 c h
  unfold Src.cayley
  simp only []
  rw [forIn_dictSet _ (fun x => (x.1.1, x.2.1)) (cayleyEntry c)]
  · refine ⟨_, rfl, ?_⟩
    intro nI hnI nJ hnJ
    apply dictGet?_foldl_dictSet
    · rintro ⟨p, q⟩ hx hk
      rw [mem_product] at hx
      obtain ⟨mI, hmI, rfl⟩ := (mem_canon2bin c _).mp hx.1
      obtain ⟨mJ, hmJ, rfl⟩ := (mem_canon2bin c _).mp hx.2
      simp only [Prod.mk.injEq] at hk
      have e1 := pyName_inj _ _ (h16 mI hmI) (h16 nI hnI) hk.1
      have e2 := pyName_inj _ _ (h16 mJ hmJ) (h16 nJ hnJ) hk.2
      subst e1 e2
      show cayleyEntryN c (c.binOf mI) (c.binOf mJ) = _
      unfold cayleyEntryN cayleyStr Cfg.cayley
      by_cases e : c.computeSign (c.binOf mI) (c.binOf mJ) = 0
      · simp [e]
      · simp [e]
    · left
      refine ⟨((pyName nI, Int.ofNat (c.binOf nI)), (pyName nJ, Int.ofNat (c.binOf nJ))), ?_, rfl⟩
      rw [mem_product]
      exact ⟨(mem_canon2bin c _).mpr ⟨nI, hnI, rfl⟩, (mem_canon2bin c _).mpr ⟨nJ, hnJ, rfl⟩⟩
  · rintro ⟨p, q⟩ hx t
    rw [mem_product] at hx
    obtain ⟨nI, hnI, rfl⟩ := (mem_canon2bin c _).mp hx.1
    obtain ⟨nJ, hnJ, rfl⟩ := (mem_canon2bin c _).mp hx.2
    exact cayley_body c hadm _ _ _ _ (Cfg.binOf_lt c hadm nI hnI) (Cfg.binOf_lt c hadm nJ hnJ) t

/-! ### `groupby(…, key=len)` on a list sorted by length -/

theorem groupbyLen_cons_nil (a : List Char) (l : List (List Char)) (h : Py.groupbyLen l = []) :
    Py.groupbyLen (a :: l) = [(Int.ofNat a.length, [a])] := by
  rw [Py.groupbyLen, h]

theorem groupbyLen_cons_cons (a : List Char) (l : List (List Char)) (n : Int) (g : List (List Char))
    (rest : List (Int × List (List Char))) (h : Py.groupbyLen l = (n, g) :: rest) :
    Py.groupbyLen (a :: l) =
      if n == Int.ofNat a.length then (n, a :: g) :: rest else (Int.ofNat a.length, [a]) :: (n, g) :: rest := by
  rw [Py.groupbyLen, h]

/-- what the groups of a list sorted by length are: one group per occurring length, in increasing order -/
structure GroupsOf (L : List (List Char)) (G : List (Int × List (List Char))) : Prop where
  keys : (G.map (·.1)).Pairwise (· < ·)
  grp : ∀ p ∈ G, ∃ n : Nat, p.1 = Int.ofNat n ∧ p.2 = L.filter (·.length == n) ∧ p.2 ≠ []
  cover : ∀ a ∈ L, ∃ p ∈ G, p.1 = Int.ofNat a.length

theorem filter_cons_ne (a : List Char) (l : List (List Char)) (n : Nat) (h : a.length ≠ n) :
    (a :: l).filter (·.length == n) = l.filter (·.length == n) := by
  rw [List.filter_cons]
  have : (a.length == n) = false := by simpa using h
  simp [this]

theorem groupbyLen_sorted (L : List (List Char)) (hs : (L.map List.length).Pairwise (· ≤ ·)) :
    GroupsOf L (Py.groupbyLen L) := by
  induction L with
  | nil => exact ⟨by simp [Py.groupbyLen], by simp [Py.groupbyLen], by simp⟩
  | cons a l ih =>
    rw [List.map_cons, List.pairwise_cons] at hs
    have ih := ih hs.2
    have hle : ∀ b ∈ l, a.length ≤ b.length := fun b hb => hs.1 _ (List.mem_map_of_mem hb)
    cases hG : Py.groupbyLen l with
    | nil =>
      rw [groupbyLen_cons_nil a l hG]
      rw [hG] at ih
      have hl : l = [] := by
        cases l with
        | nil => rfl
        | cons b l => obtain ⟨p, hp, _⟩ := ih.cover b (by simp); simp at hp
      subst hl
      refine ⟨by simp, ?_, ?_⟩
      · intro p hp
        simp only [List.mem_singleton] at hp
        subst hp
        exact ⟨a.length, rfl, by simp, by simp⟩
      · intro b hb
        simp only [List.mem_singleton] at hb
        subst hb
        exact ⟨(Int.ofNat b.length, [b]), by simp, rfl⟩
    | cons p rest =>
      obtain ⟨n, g⟩ := p
      rw [groupbyLen_cons_cons a l n g rest hG]
      rw [hG] at ih
      obtain ⟨m, hnm, hg, hgne⟩ := ih.grp (n, g) (by simp)
      simp only at hnm hg hgne
      have hkeys := ih.keys
      rw [List.map_cons, List.pairwise_cons] at hkeys
      have hrest : ∀ p ∈ rest, n < p.1 := fun p hp => hkeys.1 _ (List.mem_map_of_mem hp)
      -- some element of `l` has length `m`
      have hm : a.length ≤ m := by
        obtain ⟨b, hb⟩ := List.exists_mem_of_ne_nil g hgne
        rw [hg, List.mem_filter] at hb
        have := hle b hb.1
        have e : b.length = m := by simpa using hb.2
        omega
      by_cases e : n = Int.ofNat a.length
      · have e' : (n == Int.ofNat a.length) = true := by simpa using e
        rw [e', if_pos rfl]
        have ham : a.length = m := by
          rw [hnm] at e; exact (Int.ofNat.inj e).symm
        refine ⟨by simpa using ih.keys, ?_, ?_⟩
        · intro p hp
          rcases List.mem_cons.mp hp with rfl | hp
          · refine ⟨m, hnm, ?_, by simp⟩
            simp only
            rw [List.filter_cons, hg]
            simp [ham]
          · obtain ⟨k, hk1, hk2, hk3⟩ := ih.grp p (by simp [hp])
            refine ⟨k, hk1, ?_, hk3⟩
            rw [hk2, filter_cons_ne]
            have := hrest p hp
            rw [hk1, hnm] at this
            simp only [Int.ofNat_eq_natCast] at this
            omega
        · intro b hb
          rcases List.mem_cons.mp hb with rfl | hb
          · exact ⟨(n, b :: g), by simp, e⟩
          · obtain ⟨p, hp, hp1⟩ := ih.cover b hb
            rcases List.mem_cons.mp hp with rfl | hp
            · exact ⟨_, List.mem_cons_self, hp1⟩
            · exact ⟨p, by simp [hp], hp1⟩
      · have e' : (n == Int.ofNat a.length) = false := by simpa using e
        rw [e']
        simp only [Bool.false_eq_true, if_false]
        have ham : a.length < m := by
          have : a.length ≠ m := fun h => e (by rw [hnm, h])
          omega
        have hall : ∀ p ∈ (n, g) :: rest, Int.ofNat a.length < p.1 := by
          intro p hp
          rcases List.mem_cons.mp hp with rfl | hp
          · simp only [hnm, Int.ofNat_eq_natCast]; omega
          · have := hrest p hp
            rw [hnm] at this
            simp only [Int.ofNat_eq_natCast] at this ⊢; omega
        refine ⟨?_, ?_, ?_⟩
        · rw [List.map_cons, List.pairwise_cons]
          refine ⟨?_, ih.keys⟩
          intro k hk
          obtain ⟨p, hp, rfl⟩ := List.mem_map.mp hk
          exact hall p hp
        · intro p hp
          rcases List.mem_cons.mp hp with rfl | hp
          · refine ⟨a.length, rfl, ?_, by simp⟩
            simp only
            rw [List.filter_cons]
            simp only [beq_self_eq_true, if_true]
            congr 1
            symm
            rw [List.filter_eq_nil_iff]
            intro b hb hbl
            obtain ⟨p, hp, hp1⟩ := ih.cover b hb
            have := hall p hp
            have e2 : b.length = a.length := by simpa using hbl
            rw [hp1, e2] at this
            exact absurd this (by simp)
          · obtain ⟨k, hk1, hk2, hk3⟩ := ih.grp p hp
            refine ⟨k, hk1, ?_, hk3⟩
            rw [hk2, filter_cons_ne]
            have := hall p hp
            rw [hk1] at this
            simp only [Int.ofNat_eq_natCast] at this
            omega
        · intro b hb
          rcases List.mem_cons.mp hb with rfl | hb
          · exact ⟨_, List.mem_cons_self, rfl⟩
          · obtain ⟨p, hp, hp1⟩ := ih.cover b hb
            exact ⟨p, List.mem_cons_of_mem _ hp, hp1⟩


/-! ### `indices_for_grade` -/

theorem popcount_two_pow_sub_one (g : Nat) : popcount (2 ^ g - 1) = g := by
  induction g with
  | zero => simp [popcount]
  | succ g ih =>
    rw [popcount_unfold, Nat.pow_succ]
    have hp : 0 < 2 ^ g := Nat.pow_pos (by omega)
    have h1 : (2 ^ g * 2 - 1) % 2 = 1 := by omega
    have h2 : (2 ^ g * 2 - 1) / 2 = 2 ^ g - 1 := by omega
    rw [h1, h2, ih]; omega

/-- every grade `0..d` has a basis blade -/
theorem exists_name_of_grade (c : Cfg) (hadm : Cfg.Adm c) (g : Nat) (hg : g ≤ c.d) : ∃ n ∈ c.basis, n.length = g := by
  have hlt : 2 ^ g - 1 < 2 ^ c.d := by
    have : 2 ^ g ≤ 2 ^ c.d := Nat.pow_le_pow_right (by omega) hg
    have hp : 0 < 2 ^ g := Nat.pow_pos (by omega)
    omega
  obtain ⟨n, hn, hb⟩ := hadm.spelled _ hlt
  refine ⟨n, hn, ?_⟩
  rw [← Cfg.popcount_binOf c hadm n hn, hb, popcount_two_pow_sub_one]

theorem dictGet_canon2bin_mem (c : Cfg) (h16 : ∀ n ∈ c.basis, ∀ l ∈ n, l < 16) (n : List Nat) (hn : n ∈ c.basis) :
    Py.dictGet (algOf c).canon2bin (pyName n) = .ok (Int.ofNat (c.binOf n)) := by
  apply dictGet_of_dictGet?
  rw [dictGet?_canon2bin c h16 n (h16 n hn), if_pos hn]

/-- the value python reads for a key of `canon2bin` (0 for other strings: not reached) -/
def c2bVal (c : Cfg) (s : List Char) : Int := (Py.dictGet? (algOf c).canon2bin s).getD 0

theorem c2bVal_pyName (c : Cfg) (h16 : ∀ n ∈ c.basis, ∀ l ∈ n, l < 16) (n : List Nat) (hn : n ∈ c.basis) :
    c2bVal c (pyName n) = Int.ofNat (c.binOf n) := by
  unfold c2bVal
  rw [dictGet?_canon2bin c h16 n (h16 n hn), if_pos hn]; rfl

theorem filter_pyName (basis : List (List Nat)) (g : Nat) :
    (basis.map pyName).filter (·.length == g + 1) = (basis.filter (·.length == g)).map pyName := by
  rw [List.filter_map]
  congr 1
  apply List.filter_congr
  intro n _
  simp [length_pyName]

/-- `indices_for_grade`: for every grade 0..d the keys of the blades of that grade in canonical order -/
theorem indices_for_grade_eq (c : Cfg) (h : c.admissible = true) :
    ∃ tbl, Src.indices_for_grade (algOf c) = .ok tbl ∧
      ∀ g, g ≤ c.d → Py.dictGet? tbl (Int.ofNat g) = some ((c.indicesForGrade g).map Int.ofNat) := by
  have hadm := Cfg.adm_of_admissible c h
  have h16 := basis16 c h
  unfold Src.indices_for_grade
  have hkeys : Py.dictKeys (algOf c).canon2bin = c.basis.map pyName := by
    show List.map _ (c.basis.map _) = _
    rw [List.map_map]; rfl
  rw [hkeys]
  have hG := groupbyLen_sorted (c.basis.map pyName) (by
    have := sorted_of_admissible c h
    rw [List.map_map]
    rw [List.pairwise_map] at this ⊢
    exact this.imp (by intro a b hab; simp only [Function.comp, length_pyName]; omega))
  generalize Py.groupbyLen (c.basis.map pyName) = G at hG
  have hmap : G.mapM (fun x => match x with
      | (length, blades) => do
        let __do_lift ← List.mapM (fun blade => Py.dictGet (algOf c).canon2bin blade) blades
        (pure (length - 1, __do_lift) : Py.M (Int × List Int))) = .ok (G.map fun p => (p.1 - 1, p.2.map (c2bVal c))) := by
    apply mapM_ok
    rintro ⟨len, blades⟩ hp
    obtain ⟨k, _, hk, _⟩ := hG.grp _ hp
    simp only at hk ⊢
    rw [mapM_ok blades _ (c2bVal c)]
    · rfl
    · intro s hs
      rw [hk] at hs
      obtain ⟨n, hn, rfl⟩ := List.mem_map.mp (List.mem_filter.mp hs).1
      rw [dictGet_canon2bin_mem c h16 n hn, c2bVal_pyName c h16 n hn]
  rw [hmap]
  refine ⟨_, rfl, ?_⟩
  intro g hg
  have hnd : ((G.map fun p => (p.1 - 1, p.2.map (c2bVal c))).map (·.1)).Nodup := by
    rw [List.map_map]
    have := hG.keys
    rw [List.pairwise_map] at this
    unfold List.Nodup
    rw [List.pairwise_map]
    exact this.imp (by intro a b hab; simp only [Function.comp]; omega)
  rw [dictOf_nodup _ hnd]
  apply dictGet?_of_mem _ hnd
  obtain ⟨n, hn, hlen⟩ := exists_name_of_grade c hadm g hg
  obtain ⟨p, hp, hp1⟩ := hG.cover (pyName n) (List.mem_map_of_mem hn)
  obtain ⟨k, hk1, hk2, _⟩ := hG.grp p hp
  rw [length_pyName, hlen] at hp1
  have hk : k = g + 1 := by
    rw [hp1] at hk1; exact (Int.ofNat.inj hk1).symm
  subst hk
  rw [List.mem_map]
  refine ⟨p, hp, ?_⟩
  rw [hp1, hk2, filter_pyName]
  refine Prod.ext ?_ ?_
  · simp only [Int.ofNat_eq_natCast]; omega
  · simp only [Cfg.indicesForGrade, List.map_map]
    apply List.map_congr_left
    intro m hm
    exact c2bVal_pyName c h16 m (List.mem_filter.mp hm).1

/-! ### `indices_for_grades`: the tuples of grades -/

theorem nodup_comb {α : Type} (l : List α) (hl : l.Nodup) (r : Nat) : (Py.combinationsNat l r).Nodup := by
  induction l generalizing r with
  | nil => cases r <;> simp [Py.combinationsNat]
  | cons a l ih =>
    cases r with
    | zero => simp [comb_zero]
    | succ r =>
      rw [List.nodup_cons] at hl
      rw [comb_cons, List.nodup_append]
      refine ⟨(ih hl.2 r).map (fun x y e => (List.cons.inj e).2), ih hl.2 (r + 1), ?_⟩
      intro x hx y hy e
      obtain ⟨z, _, rfl⟩ := List.mem_map.mp hx
      subst e
      have := (mem_comb l (r + 1) _ hy).1
      exact hl.1 (this.subset (by simp))

/-- all tuples `combinations(range(d+1), j)`, `j = 0..2^d` (on naturals) -/
def combsNat (d : Nat) : List (List Nat) :=
  (List.range (2 ^ d + 1)).flatMap fun j => Py.combinationsNat (List.range (d + 1)) j

theorem mem_combsNat (d : Nat) (gs : List Nat) : gs ∈ combsNat d ↔ gs.Sublist (List.range (d + 1)) := by
  unfold combsNat
  rw [List.mem_flatMap]
  constructor
  · rintro ⟨j, _, hj⟩
    exact (mem_comb _ _ _ hj).1
  · intro hs
    refine ⟨gs.length, ?_, sublist_mem_comb _ _ hs⟩
    rw [List.mem_range]
    have := hs.length_le
    rw [List.length_range] at this
    have := @Nat.lt_two_pow_self d
    omega

theorem nodup_combsNat (d : Nat) : (combsNat d).Nodup := by
  unfold combsNat
  rw [List.nodup_flatMap]
  refine ⟨fun j _ => nodup_comb _ List.nodup_range j, ?_⟩
  apply List.Pairwise.imp _ List.nodup_range
  intro i j hij
  show List.Disjoint _ _
  intro x hx hy
  exact hij ((mem_comb _ _ _ hx).2.symm.trans (mem_comb _ _ _ hy).2)

theorem sublist_range_iff (d : Nat) (gs : List Nat) :
    gs.Sublist (List.range (d + 1)) ↔ gs.Pairwise (· < ·) ∧ ∀ g ∈ gs, g ≤ d := by
  constructor
  · intro hs
    refine ⟨List.pairwise_lt_range.sublist hs, ?_⟩
    intro g hg
    have := List.mem_range.mp (hs.subset hg)
    omega
  · rintro ⟨hp, hd⟩
    apply List.sublist_of_subperm_of_pairwise (r := (· < ·)) _ hp List.pairwise_lt_range
    apply List.subperm_of_subset hp.nodup
    intro g hg
    rw [List.mem_range]
    have := hd g hg
    omega

theorem combinations_ofNat {α : Type} (l : List α) (j : Nat) : Py.combinations l (Int.ofNat j) = Py.combinationsNat l j := by
  unfold Py.combinations
  rw [if_neg (by simp)]
  rfl

/-- the python tuples are the casts of `combsNat` -/
theorem all_grade_combs_eq (c : Cfg) :
    (List.map (fun j => Py.combinations (Py.range 0 ((algOf c).d + 1)) j) (Py.range 0 ((algOf c).len + 1))).flatten
      = (combsNat c.d).map (List.map Int.ofNat) := by
  have h1 : (algOf c).d + 1 = Int.ofNat (c.d + 1) := rfl
  have h2 : (algOf c).len + 1 = Int.ofNat (2 ^ c.d + 1) := rfl
  rw [h1, h2, range_zero_ofNat, range_zero_ofNat, List.map_map]
  unfold combsNat
  rw [List.map_flatMap, List.flatMap_def]
  congr 1
  apply List.map_congr_left
  intro j _
  simp only [Function.comp]
  rw [combinations_ofNat, comb_map]

theorem dictGet_not_mem {κ ν : Type} [BEq κ] [LawfulBEq κ] (d : Py.Dict κ ν) (k : κ) (h : k ∉ d.map (·.1)) :
    Py.dictGet d k = .error "KeyError" := by
  unfold Py.dictGet
  have : d.find? (·.1 == k) = none := by
    rw [List.find?_eq_none]
    intro p hp e
    exact h (List.mem_map.mpr ⟨p, hp, by simpa using e⟩)
  rw [this]; rfl

theorem ofNat_injective : Function.Injective Int.ofNat := fun _ _ e => Int.ofNat.inj e

theorem map_ofNat_toNat (gs : List Int) (h : gs.all (fun g => decide (0 ≤ g)) = true) :
    (gs.map Int.toNat).map Int.ofNat = gs := by
  rw [List.map_map]
  conv => rhs; rw [← List.map_id gs]
  apply List.map_congr_left
  intro a ha
  have := List.all_eq_true.mp h a ha
  simp only [decide_eq_true_eq] at this
  simp only [Function.comp, Int.ofNat_eq_natCast, id]
  omega

/-- **`indices_for_grades` is what `algOf` assumes**: the table built by the source answers every lookup — strictly increasing
    tuples of grades in 0..d with the concatenated indices, everything else with `KeyError` — exactly like the field
    `(algOf c).indices_for_grades` that the translated accessors use -/
theorem indices_for_grades_table_eq (c : Cfg) (h : c.admissible = true) :
    ∃ tbl, Src.indices_for_grades_table (algOf c) = .ok tbl ∧
      ∀ gs : List Int, Py.dictGet tbl gs = (algOf c).indices_for_grades gs := by
  obtain ⟨ifg, hifg, hlook⟩ := indices_for_grade_eq c h
  unfold Src.indices_for_grades_table
  rw [hifg, ok_bind]
  simp only []
  rw [all_grade_combs_eq]
  have hmap : ((combsNat c.d).map (List.map Int.ofNat)).mapM (fun comb => do
        let __do_lift ← List.mapM (fun grade => Py.dictGet ifg grade) comb
        (pure (comb, __do_lift.flatten) : Py.M (List Int × List Int)))
      = .ok ((combsNat c.d).map fun gs => (gs.map Int.ofNat, (c.indicesForGrades gs).map Int.ofNat)) := by
    apply mapM_map_ok
    intro gs hgs
    have hd := ((sublist_range_iff c.d gs).mp ((mem_combsNat c.d gs).mp hgs)).2
    rw [mapM_map_ok gs Int.ofNat _ (fun g => (c.indicesForGrade g).map Int.ofNat)
      (fun g hg => dictGet_of_dictGet? _ _ _ (hlook g (hd g hg)))]
    show Except.ok (_, _) = _
    congr 2
    unfold Cfg.indicesForGrades
    rw [List.map_flatMap, List.flatMap_def]
  rw [hmap]
  refine ⟨_, rfl, ?_⟩
  have hnd : (((combsNat c.d).map fun gs => (gs.map Int.ofNat, (c.indicesForGrades gs).map Int.ofNat)).map (·.1)).Nodup := by
    rw [List.map_map]
    exact (nodup_combsNat c.d).map (List.map_injective_iff.mpr ofNat_injective)
  rw [dictOf_nodup _ hnd]
  intro gs
  by_cases hg : ∃ gs' : List Nat, gs = gs'.map Int.ofNat ∧ gs'.Pairwise (· < ·) ∧ ∀ g ∈ gs', g ≤ c.d
  · obtain ⟨gs', rfl, hp, hd⟩ := hg
    rw [indices_for_grades_eq c gs' hp hd]
    apply dictGet_of_dictGet?
    apply dictGet?_of_mem _ hnd
    rw [List.mem_map]
    exact ⟨gs', (mem_combsNat c.d gs').mpr ((sublist_range_iff c.d gs').mpr ⟨hp, hd⟩), rfl⟩
  · have hrhs : (algOf c).indices_for_grades gs = .error "KeyError" := by
      show (if _ then _ else _) = _
      rw [if_neg]
      intro hcond
      simp only [Bool.and_eq_true, decide_eq_true_eq] at hcond
      apply hg
      refine ⟨gs.map Int.toNat, (map_ofNat_toNat gs hcond.1.1).symm, hcond.1.2, ?_⟩
      intro g hg'
      simpa using List.all_eq_true.mp hcond.2 g hg'
    rw [hrhs]
    apply dictGet_not_mem
    intro hm
    rw [List.map_map, List.mem_map] at hm
    obtain ⟨gs', hgs', rfl⟩ := hm
    have := (sublist_range_iff c.d gs').mp ((mem_combsNat c.d gs').mp hgs')
    exact hg ⟨gs', rfl, this.1, this.2⟩

end Kingdon.SrcEq

/-
  C09/C10: invariants of the operator-dictionary protocol over all histories and all schedules.
-/
import Kingdon.Model.OpDict
namespace Kingdon.OD

/-! ### binary digits of the type number -/

/-- `typeNumber` with an arbitrary membership predicate and start index -/
def tnAux (c : Nat → Bool) (l : List Nat) (n : Nat) : Nat :=
  ((l.zipIdx n).map fun (k, p) => if c k then 2 ^ p else 0).sum

theorem tnAux_nil (c : Nat → Bool) (n : Nat) : tnAux c [] n = 0 := rfl

theorem tnAux_cons (c : Nat → Bool) (k : Nat) (l : List Nat) (n : Nat) :
    tnAux c (k :: l) n = (if c k then 2 ^ n else 0) + tnAux c l (n + 1) := by
  simp [tnAux, List.zipIdx_cons]

theorem tnAux_succ (c : Nat → Bool) (l : List Nat) (n : Nat) : tnAux c l (n + 1) = 2 * tnAux c l n := by
  induction l generalizing n with
  | nil => simp [tnAux_nil]
  | cons k l ih =>
    rw [tnAux_cons, tnAux_cons, ih (n + 1)]
    have : 2 ^ (n + 1) = 2 * 2 ^ n := by rw [Nat.pow_succ, Nat.mul_comm]
    split <;> omega

theorem tnAux_inj (c d : Nat → Bool) (l : List Nat) (h : tnAux c l 0 = tnAux d l 0) :
    ∀ k ∈ l, c k = d k := by
  induction l with
  | nil => intro k hk; cases hk
  | cons a l ih =>
    rw [tnAux_cons, tnAux_cons, tnAux_succ, tnAux_succ] at h
    have h1 : c a = d a ∧ tnAux c l 0 = tnAux d l 0 := by
      cases hca : c a <;> cases hda : d a <;> simp [hca, hda] at h ⊢ <;> omega
    intro k hk
    rcases List.mem_cons.1 hk with rfl | hk
    · exact h1.1
    · exact ih h1.2 k hk

theorem typeNumber_eq_tnAux (canon ks : List Nat) : typeNumber canon ks = tnAux (ks.contains ·) canon 0 := rfl

theorem canonOrdered_nil (canon : List Nat) : canonOrdered canon [] = [] := by
  simp [canonOrdered]

/-- the type name determines the ordered key tuple -/
theorem typeName_injective (canon : List Nat) (_hc : canon.Nodup) (a b : List Nat)
    (h : typeName canon a = typeName canon b) : a = b := by
  unfold typeName at h
  by_cases ha : a = canonOrdered canon a <;> by_cases hb : b = canonOrdered canon b
  · rw [if_pos ha, if_pos hb] at h
    have hn : typeNumber canon a = typeNumber canon b := congrArg Prod.fst h
    rw [typeNumber_eq_tnAux, typeNumber_eq_tnAux] at hn
    have hm := tnAux_inj _ _ _ hn
    rw [ha, hb]
    unfold canonOrdered
    exact List.filter_congr hm
  · rw [if_pos ha, if_neg hb] at h
    have h2 : [] = b := congrArg Prod.snd h
    subst h2
    exact absurd (canonOrdered_nil canon).symm hb
  · rw [if_neg ha, if_pos hb] at h
    have h2 : a = [] := congrArg Prod.snd h
    subst h2
    exact absurd (canonOrdered_nil canon).symm ha
  · rw [if_neg ha, if_neg hb] at h
    exact congrArg Prod.snd h

theorem map_typeName_injective (canon : List Nat) (hc : canon.Nodup) :
    ∀ (a b : List (List Nat)), a.map (typeName canon) = b.map (typeName canon) → a = b
  | [], [], _ => rfl
  | [], _ :: _, h => by simp at h
  | _ :: _, [], h => by simp at h
  | x :: a, y :: b, h => by
    simp only [List.map_cons, List.cons.injEq] at h
    rw [typeName_injective canon hc x y h.1, map_typeName_injective canon hc a b h.2]

/-- generated function names determine operator and ordered key tuples: two different functions never share a
    numspace slot -/
theorem name_injective (canon : List Nat) (hc : canon.Nodup) (f g : FuncId)
    (h : name canon f = name canon g) : f = g := by
  cases f with
  | mk fo fk =>
    cases g with
    | mk go gk =>
      unfold name at h
      simp only [Prod.mk.injEq] at h
      rw [h.1, map_typeName_injective canon hc fk gk h.2]

/-! ### numspace lookups -/

theorem lookupNS_cons (n : Name) (f : FuncId) (ns : List (Name × FuncId)) (m : Name) :
    lookupNS ((n, f) :: ns) m = if n = m then some f else lookupNS ns m := by
  unfold lookupNS
  by_cases h : n = m <;> simp [h]

theorem lookupNS_head (n : Name) (f : FuncId) (ns : List (Name × FuncId)) :
    lookupNS ((n, f) :: ns) n = some f := by
  rw [lookupNS_cons, if_pos rfl]

/-- pushing a binding `(name f, f)` preserves all "own-name" lookups -/
theorem lookupNS_push (canon : List Nat) (hc : canon.Nodup) (f g : FuncId) (ns : List (Name × FuncId))
    (h : lookupNS ns (name canon g) = some g) :
    lookupNS ((name canon f, f) :: ns) (name canon g) = some g := by
  rw [lookupNS_cons]
  by_cases hn : name canon f = name canon g
  · rw [if_pos hn, name_injective canon hc f g hn]
  · rw [if_neg hn, h]

/-- invariant of the shared state -/
def Inv (canon : List Nat) (s : State) : Prop :=
  s.gens = s.cache ∧ s.cache.Nodup ∧ ∀ f ∈ s.cache, lookupNS s.numspace (name canon f) = some f

theorem inv_init (canon : List Nat) : Inv canon init := by
  refine ⟨rfl, List.nodup_nil, ?_⟩
  intro f hf
  cases hf

theorem getitem_hit (canon : List Nat) (genFails : FuncId → Bool) (s : State) (f : FuncId) (hf : f ∈ s.cache) :
    getitem canon genFails s f = (s, true) := by
  unfold getitem; rw [if_pos hf]

theorem getitem_fail (canon : List Nat) (genFails : FuncId → Bool) (s : State) (f : FuncId) (hf : f ∉ s.cache)
    (hg : genFails f = true) : getitem canon genFails s f = (s, false) := by
  unfold getitem; rw [if_neg hf, if_pos hg]

theorem getitem_gen (canon : List Nat) (genFails : FuncId → Bool) (s : State) (f : FuncId) (hf : f ∉ s.cache)
    (hg : genFails f = false) :
    getitem canon genFails s f =
      ({ cache := f :: s.cache, numspace := (name canon f, f) :: s.numspace, gens := f :: s.gens }, true) := by
  unfold getitem; rw [if_neg hf, hg]; rfl

theorem call_fst (canon : List Nat) (genFails : FuncId → Bool) (w : Bool) (s : State) (f : FuncId) :
    (call canon genFails w s f).1 = (getitem canon genFails s f).1 := by
  unfold call
  rcases getitem canon genFails s f with ⟨s', ok⟩
  cases ok <;> cases w <;> rfl

theorem inv_getitem (canon : List Nat) (hc : canon.Nodup) (genFails : FuncId → Bool) (s : State) (f : FuncId)
    (h : Inv canon s) : Inv canon (getitem canon genFails s f).1 := by
  by_cases hf : f ∈ s.cache
  · rw [getitem_hit canon genFails s f hf]; exact h
  · cases hg : genFails f
    · rw [getitem_gen canon genFails s f hf hg]
      obtain ⟨h1, h2, h3⟩ := h
      refine ⟨?_, ?_, ?_⟩
      · show f :: s.gens = f :: s.cache
        rw [h1]
      · exact List.nodup_cons.2 ⟨hf, h2⟩
      · intro g hgm
        show lookupNS ((name canon f, f) :: s.numspace) (name canon g) = some g
        rcases List.mem_cons.1 hgm with rfl | hgm
        · exact lookupNS_head _ _ _
        · exact lookupNS_push canon hc f g _ (h3 g hgm)
    · rw [getitem_fail canon genFails s f hf hg]; exact h

theorem inv_call (canon : List Nat) (hc : canon.Nodup) (genFails : FuncId → Bool) (w : Bool) (s : State) (f : FuncId)
    (h : Inv canon s) : Inv canon (call canon genFails w s f).1 := by
  rw [call_fst]
  exact inv_getitem canon hc genFails s f h

theorem run_cons (canon : List Nat) (genFails : FuncId → Bool) (w : Bool) (s : State) (f : FuncId)
    (h : List FuncId) :
    run canon genFails w s (f :: h) =
      ((run canon genFails w (call canon genFails w s f).1 h).1,
       (call canon genFails w s f).2 :: (run canon genFails w (call canon genFails w s f).1 h).2) := rfl

theorem inv_run (canon : List Nat) (hc : canon.Nodup) (genFails : FuncId → Bool) (w : Bool) (h : List FuncId)
    (s : State) (hs : Inv canon s) : Inv canon (run canon genFails w s h).1 := by
  induction h generalizing s with
  | nil => exact hs
  | cons f h ih =>
    rw [run_cons]
    exact ih _ (inv_call canon hc genFails w s f hs)

/-- C10: in every sequential history (any operators, key patterns, failing generations, with or without wrapper)
    every (operator, ordered key pattern) is generated at most once -/
theorem generate_at_most_once (canon : List Nat) (hc : canon.Nodup) (genFails : FuncId → Bool) (w : Bool)
    (h : List FuncId) (f : FuncId) : (run canon genFails w init h).1.gens.count f ≤ 1 := by
  obtain ⟨h1, h2, _⟩ := inv_run canon hc genFails w h init (inv_init canon)
  rw [h1]
  exact List.nodup_iff_count.1 h2 f

/-- C10: a call whose pattern is already cached generates nothing -/
theorem cached_call_generates_nothing (canon : List Nat) (genFails : FuncId → Bool) (w : Bool) (s : State)
    (f : FuncId) (hf : f ∈ s.cache) : (call canon genFails w s f).1 = s := by
  rw [call_fst, getitem_hit canon genFails s f hf]

/-- C09: a call whose generation raises leaves the shared state unchanged -/
theorem failing_call_preserves_state (canon : List Nat) (genFails : FuncId → Bool) (w : Bool) (s : State)
    (f : FuncId) (hf : f ∉ s.cache) (hg : genFails f = true) :
    (call canon genFails w s f) = (s, none) := by
  unfold call
  rw [getitem_fail canon genFails s f hf hg]
  rfl

/-- result of a single call from a good state -/
theorem call_snd (canon : List Nat) (genFails : FuncId → Bool) (w : Bool) (s : State) (f : FuncId)
    (hs : Inv canon s) (hfail : ∀ f ∈ s.cache, genFails f = false) :
    (call canon genFails w s f).2 = (if genFails f then none else some f) := by
  by_cases hf : f ∈ s.cache
  · have hg := hfail f hf
    unfold call
    rw [getitem_hit canon genFails s f hf, hg]
    cases w
    · rfl
    · exact hs.2.2 f hf
  · cases hg : genFails f
    · unfold call
      rw [getitem_gen canon genFails s f hf hg]
      cases w
      · rfl
      · exact lookupNS_head _ _ _
    · rw [failing_call_preserves_state canon genFails w s f hf hg]
      rfl

theorem call_nofail (canon : List Nat) (genFails : FuncId → Bool) (w : Bool) (s : State) (f : FuncId)
    (hfail : ∀ f ∈ s.cache, genFails f = false) :
    ∀ g ∈ (call canon genFails w s f).1.cache, genFails g = false := by
  rw [call_fst]
  by_cases hf : f ∈ s.cache
  · rw [getitem_hit canon genFails s f hf]; exact hfail
  · cases hg : genFails f
    · rw [getitem_gen canon genFails s f hf hg]
      intro g hgm
      rcases List.mem_cons.1 hgm with rfl | hgm
      · exact hg
      · exact hfail g hgm
    · rw [getitem_fail canon genFails s f hf hg]; exact hfail

/-- C09: from every reachable state, whatever ran before, with or without wrapper, each call is served by the
    function generated for exactly its own operator and ordered key tuple (or raises, if its generation raises) -/
theorem history_independent (canon : List Nat) (hc : canon.Nodup) (genFails : FuncId → Bool) (w : Bool)
    (h : List FuncId) (s : State) (hs : Inv canon s) (hfail : ∀ f ∈ s.cache, genFails f = false) :
    (run canon genFails w s h).2 = h.map (fun f => if genFails f then none else some f) := by
  induction h generalizing s with
  | nil => rfl
  | cons f h ih =>
    rw [run_cons, List.map_cons]
    show _ :: _ = _
    rw [call_snd canon genFails w s f hs hfail,
      ih _ (inv_call canon hc genFails w s f hs) (call_nofail canon genFails w s f hfail)]

theorem history_independent_fresh (canon : List Nat) (hc : canon.Nodup) (genFails : FuncId → Bool) (w : Bool)
    (h : List FuncId) :
    (run canon genFails w init h).2 = h.map (fun f => if genFails f then none else some f) := by
  apply history_independent canon hc genFails w h init (inv_init canon)
  intro f hf
  cases hf

/-! ### threads -/

/-- invariant under interleavings: every numspace binding and every cache entry belongs to a function that was
    generated, names are bound to their own function, cache entries are bound -/
def InvT (canon : List Nat) (s : State) (ts : List Thread) : Prop :=
  (∀ p ∈ s.numspace, p.1 = name canon p.2) ∧
  (∀ f ∈ s.cache, lookupNS s.numspace (name canon f) = some f) ∧
  (∀ t ∈ ts, (t.pc = .storeCache ∨ t.pc = .invoke) → lookupNS s.numspace (name canon t.f) = some t.f) ∧
  (∀ t ∈ ts, ∀ r, t.pc = .done r → r = some t.f)

theorem invT_step (canon : List Nat) (hc : canon.Nodup) (w : Bool) (s : State) (ts : List Thread) (i : Nat) (t : Thread)
    (ht : ts[i]? = some t) (h : InvT canon s ts) :
    InvT canon (stepThread canon w s t).1 (ts.set i (stepThread canon w s t).2) := by
  have htm : t ∈ ts := List.mem_of_getElem? ht
  obtain ⟨h1, h2, h3, h4⟩ := h
  obtain ⟨tf, tpc⟩ := t
  cases tpc with
  | start =>
    by_cases hf : tf ∈ s.cache
    · have e : stepThread canon w s ⟨tf, .start⟩ = (s, ⟨tf, .invoke⟩) := by
        simp only [stepThread]; rw [if_pos hf]
      rw [e]
      refine ⟨h1, h2, ?_, ?_⟩
      · intro u hu hpc
        rcases List.mem_or_eq_of_mem_set hu with hu | rfl
        · exact h3 u hu hpc
        · exact h2 tf hf
      · intro u hu r hpc
        rcases List.mem_or_eq_of_mem_set hu with hu | rfl
        · exact h4 u hu r hpc
        · cases hpc
    · have e : stepThread canon w s ⟨tf, .start⟩ = ({ s with gens := tf :: s.gens }, ⟨tf, .bindName⟩) := by
        simp only [stepThread]; rw [if_neg hf]
      rw [e]
      refine ⟨h1, h2, ?_, ?_⟩
      · intro u hu hpc
        rcases List.mem_or_eq_of_mem_set hu with hu | rfl
        · exact h3 u hu hpc
        · rcases hpc with hpc | hpc <;> cases hpc
      · intro u hu r hpc
        rcases List.mem_or_eq_of_mem_set hu with hu | rfl
        · exact h4 u hu r hpc
        · cases hpc
  | bindName =>
    have e : stepThread canon w s ⟨tf, .bindName⟩ =
        ({ s with numspace := (name canon tf, tf) :: s.numspace }, ⟨tf, .storeCache⟩) := rfl
    rw [e]
    refine ⟨?_, ?_, ?_, ?_⟩
    · intro p hp
      rcases List.mem_cons.1 hp with rfl | hp
      · rfl
      · exact h1 p hp
    · intro g hg
      exact lookupNS_push canon hc tf g _ (h2 g hg)
    · intro u hu hpc
      rcases List.mem_or_eq_of_mem_set hu with hu | rfl
      · exact lookupNS_push canon hc tf u.f _ (h3 u hu hpc)
      · exact lookupNS_head _ _ _
    · intro u hu r hpc
      rcases List.mem_or_eq_of_mem_set hu with hu | rfl
      · exact h4 u hu r hpc
      · cases hpc
  | storeCache =>
    have e : stepThread canon w s ⟨tf, .storeCache⟩ =
        ({ s with cache := tf :: s.cache }, ⟨tf, .invoke⟩) := rfl
    rw [e]
    have hl := h3 _ htm (Or.inl rfl)
    refine ⟨h1, ?_, ?_, ?_⟩
    · intro g hg
      rcases List.mem_cons.1 hg with rfl | hg
      · exact hl
      · exact h2 g hg
    · intro u hu hpc
      rcases List.mem_or_eq_of_mem_set hu with hu | rfl
      · exact h3 u hu hpc
      · exact hl
    · intro u hu r hpc
      rcases List.mem_or_eq_of_mem_set hu with hu | rfl
      · exact h4 u hu r hpc
      · cases hpc
  | invoke =>
    have e : stepThread canon w s ⟨tf, .invoke⟩ =
        (s, ⟨tf, .done (if w then lookupNS s.numspace (name canon tf) else some tf)⟩) := rfl
    rw [e]
    have hl : lookupNS s.numspace (name canon tf) = some tf := h3 _ htm (Or.inr rfl)
    refine ⟨h1, h2, ?_, ?_⟩
    · intro u hu hpc
      rcases List.mem_or_eq_of_mem_set hu with hu | rfl
      · exact h3 u hu hpc
      · rcases hpc with hpc | hpc <;> cases hpc
    · intro u hu r hpc
      rcases List.mem_or_eq_of_mem_set hu with hu | rfl
      · exact h4 u hu r hpc
      · cases hpc
        show (if w then lookupNS s.numspace (name canon tf) else some tf) = some tf
        rw [hl]; cases w <;> rfl
  | done r0 =>
    have e : stepThread canon w s ⟨tf, .done r0⟩ = (s, ⟨tf, .done r0⟩) := rfl
    rw [e]
    refine ⟨h1, h2, ?_, ?_⟩
    · intro u hu hpc
      rcases List.mem_or_eq_of_mem_set hu with hu | rfl
      · exact h3 u hu hpc
      · exact h3 _ htm hpc
    · intro u hu r hpc
      rcases List.mem_or_eq_of_mem_set hu with hu | rfl
      · exact h4 u hu r hpc
      · exact h4 _ htm r hpc

theorem invT_init (canon : List Nat) (fs : List FuncId) :
    InvT canon init (fs.map fun f => ⟨f, .start⟩) := by
  refine ⟨?_, ?_, ?_, ?_⟩
  · intro p hp; cases hp
  · intro f hf; cases hf
  · intro t ht hpc
    obtain ⟨f, _, rfl⟩ := List.mem_map.1 ht
    rcases hpc with hpc | hpc <;> cases hpc
  · intro t ht r hpc
    obtain ⟨f, _, rfl⟩ := List.mem_map.1 ht
    cases hpc

theorem invT_runSchedule (canon : List Nat) (hc : canon.Nodup) (w : Bool) (sched : List Nat) (s : State)
    (ts : List Thread) (h : InvT canon s ts) :
    InvT canon (runSchedule canon w s ts sched).1 (runSchedule canon w s ts sched).2 := by
  induction sched generalizing s ts with
  | nil => exact h
  | cons i sched ih =>
    cases hti : ts[i]? with
    | none =>
      have e : runSchedule canon w s ts (i :: sched) = runSchedule canon w s ts sched := by
        simp only [runSchedule, hti]
      rw [e]; exact ih s ts h
    | some t =>
      have e : runSchedule canon w s ts (i :: sched) =
          runSchedule canon w (stepThread canon w s t).1 (ts.set i (stepThread canon w s t).2) sched := by
        simp only [runSchedule, hti]
      rw [e]
      exact ih _ _ (invT_step canon hc w s ts i t hti h)

/-- C09 (schedules): under every interleaving of the atomic steps of any number of threads calling operators on
    one shared algebra, every completed call was served by its own function -/
theorem interleaving_correct (canon : List Nat) (hc : canon.Nodup) (w : Bool) (fs : List FuncId) (sched : List Nat)
    (t : Thread) (r : Option FuncId)
    (ht : t ∈ (runSchedule canon w init (fs.map fun f => ⟨f, .start⟩) sched).2) (hr : t.pc = .done r) :
    r = some t.f :=
  (invT_runSchedule canon hc w sched init _ (invT_init canon fs)).2.2.2 t ht r hr

end Kingdon.OD

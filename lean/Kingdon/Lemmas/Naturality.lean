/-
  C06 / C12 / C16: the generators are natural in the coefficient type.
  (a) for a ring homomorphism φ every generator commutes with mapping φ over the stored values (substituting numbers
      for symbols, indexing array-valued coefficients are such φ);
  (b) the same for a partial homomorphism `ev` that is only multiplicative/additive on "good" values — the evaluation
      of kingdon's RationalPolynomial objects where denominators do not vanish — which gives the semantics of the
      composite operators that are generated from symbolic operands.
-/
import Kingdon.Model.Composite
import Kingdon.Lemmas.KPolySound
import Kingdon.Lemmas.Products
import Kingdon.Lemmas.Linear
import Mathlib.Algebra.Ring.Hom.Defs
namespace Kingdon
open Finsupp

/-- map a function over the stored values -/
def mapV {β γ : Type} (f : β → γ) (x : MV β) : MV γ := x.map fun kv => (kv.1, f kv.2)


/-! ### generic list-level naturality under a goodness invariant -/
section generic
variable {β γ : Type} [Add β] [Mul β] [Neg β] [Add γ] [Mul γ] [Neg γ] (f : β → γ) (G : β → Prop)

@[simp] theorem mapV_nil {β γ : Type} (f : β → γ) : mapV f ([] : MV β) = [] := rfl
@[simp] theorem mapV_cons {β γ : Type} (f : β → γ) (p : Nat × β) (x : MV β) :
    mapV f (p :: x) = (p.1, f p.2) :: mapV f x := rfl

omit [Mul β] [Neg β] in
theorem insertAdd_good_aux (hadd : ∀ a b, G a → G b → G (a + b)) (r : MV β) (k : Nat) (t : β)
    (hr : ∀ kv ∈ r, G kv.2) (ht : G t) : ∀ kv ∈ insertAdd r k t, G kv.2 := by
  induction r with
  | nil => intro kv hkv; simp [insertAdd] at hkv; subst hkv; exact ht
  | cons p r ih =>
    obtain ⟨k', v⟩ := p
    have hv : G v := hr (k', v) (by simp)
    have hr' : ∀ kv ∈ r, G kv.2 := fun kv h => hr kv (by simp [h])
    intro kv hkv
    by_cases h : k' = k
    · simp only [insertAdd, h, if_true, List.mem_cons] at hkv
      rcases hkv with rfl | hkv
      · exact hadd _ _ hv ht
      · exact hr' kv hkv
    · simp only [insertAdd, h, if_false, List.mem_cons] at hkv
      rcases hkv with rfl | hkv
      · exact hv
      · exact ih hr' kv hkv

omit [Mul β] [Neg β] [Mul γ] [Neg γ] in
theorem mapV_insertAdd_aux (hadd : ∀ a b, G a → G b → f (a + b) = f a + f b) (r : MV β) (k : Nat) (t : β)
    (hr : ∀ kv ∈ r, G kv.2) (ht : G t) : mapV f (insertAdd r k t) = insertAdd (mapV f r) k (f t) := by
  induction r with
  | nil => simp [insertAdd]
  | cons p r ih =>
    obtain ⟨k', v⟩ := p
    have hv : G v := hr (k', v) (by simp)
    have hr' : ∀ kv ∈ r, G kv.2 := fun kv h => hr kv (by simp [h])
    by_cases h : k' = k
    · simp [insertAdd, h, hadd _ _ hv ht]
    · simp [insertAdd, h, ih hr']

/-- map `f` over both values of a pair of items -/
def mapPQ (f : β → γ) (pq : (Nat × β) × (Nat × β)) : (Nat × γ) × (Nat × γ) :=
  ((pq.1.1, f pq.1.2), (pq.2.1, f pq.2.2))

theorem cpStep_good_aux (hadd : ∀ a b, G a → G b → G (a + b)) (hmul : ∀ a b, G a → G b → G (a * b))
    (hneg : ∀ a, G a → G (-a)) (signf keyout filt) (res : MV β) (pq : (Nat × β) × (Nat × β))
    (hres : ∀ kv ∈ res, G kv.2) (hp : G pq.1.2) (hq : G pq.2.2) :
    ∀ kv ∈ cpStep signf keyout filt res pq, G kv.2 := by
  unfold cpStep
  dsimp only
  split
  · exact hres
  · split
    · apply insertAdd_good_aux G hadd _ _ _ hres
      split
      · exact hmul _ _ hp hq
      · exact hmul _ _ (hneg _ hp) hq
    · exact hres

theorem mapV_cpStep_aux (hadd : ∀ a b, G a → G b → f (a + b) = f a + f b)
    (hmul : ∀ a b, G a → G b → f (a * b) = f a * f b) (hneg : ∀ a, G a → f (-a) = - f a)
    (hmulG : ∀ a b, G a → G b → G (a * b)) (hnegG : ∀ a, G a → G (-a))
    (signf keyout filt) (res : MV β) (pq : (Nat × β) × (Nat × β))
    (hres : ∀ kv ∈ res, G kv.2) (hp : G pq.1.2) (hq : G pq.2.2) :
    mapV f (cpStep signf keyout filt res pq) = cpStep signf keyout filt (mapV f res) (mapPQ f pq) := by
  unfold cpStep mapPQ
  dsimp only
  split
  · rfl
  · split
    · split
      · rw [mapV_insertAdd_aux f G hadd _ _ _ hres (hmulG _ _ hp hq), hmul _ _ hp hq]
      · rw [mapV_insertAdd_aux f G hadd _ _ _ hres (hmulG _ _ (hnegG _ hp) hq), hmul _ _ (hnegG _ hp) hq,
          hneg _ hp]
    · rfl

theorem foldl_cpStep_aux (haddG : ∀ a b, G a → G b → G (a + b)) (hmulG : ∀ a b, G a → G b → G (a * b))
    (hnegG : ∀ a, G a → G (-a)) (hadd : ∀ a b, G a → G b → f (a + b) = f a + f b)
    (hmul : ∀ a b, G a → G b → f (a * b) = f a * f b) (hneg : ∀ a, G a → f (-a) = - f a)
    (signf keyout filt) (l : List ((Nat × β) × (Nat × β))) (res : MV β)
    (hl : ∀ pq ∈ l, G pq.1.2 ∧ G pq.2.2) (hres : ∀ kv ∈ res, G kv.2) :
    (∀ kv ∈ l.foldl (cpStep signf keyout filt) res, G kv.2) ∧
    mapV f (l.foldl (cpStep signf keyout filt) res) =
      (l.map (mapPQ f)).foldl (cpStep signf keyout filt) (mapV f res) := by
  induction l generalizing res with
  | nil => exact ⟨hres, rfl⟩
  | cons pq l ih =>
    have hpq := hl pq (by simp)
    have hl' : ∀ pq ∈ l, G pq.1.2 ∧ G pq.2.2 := fun pq h => hl pq (by simp [h])
    have hg := cpStep_good_aux G haddG hmulG hnegG signf keyout filt res pq hres hpq.1 hpq.2
    have := ih _ hl' hg
    simp only [List.foldl_cons, List.map_cons]
    rw [← mapV_cpStep_aux f G hadd hmul hneg hmulG hnegG signf keyout filt res pq hres hpq.1 hpq.2]
    exact this

theorem pairs_mapV {β γ : Type} (f : β → γ) (x y : MV β) :
    pairs (mapV f x) (mapV f y) = (pairs x y).map (mapPQ f) := by
  simp [pairs, mapV, mapPQ, List.map_flatMap, List.flatMap_map, Function.comp_def]

theorem pairs_good {β : Type} (G : β → Prop) (x y : MV β) (hx : ∀ kv ∈ x, G kv.2) (hy : ∀ kv ∈ y, G kv.2) :
    ∀ pq ∈ pairs x y, G pq.1.2 ∧ G pq.2.2 := by
  intro pq hpq
  simp only [pairs, List.mem_flatMap, List.mem_map] at hpq
  obtain ⟨p, hp, q, hq, rfl⟩ := hpq
  exact ⟨hx p hp, hy q hq⟩

theorem codegenProduct_aux (haddG : ∀ a b, G a → G b → G (a + b)) (hmulG : ∀ a b, G a → G b → G (a * b))
    (hnegG : ∀ a, G a → G (-a)) (hadd : ∀ a b, G a → G b → f (a + b) = f a + f b)
    (hmul : ∀ a b, G a → G b → f (a * b) = f a * f b) (hneg : ∀ a, G a → f (-a) = - f a)
    (signf keyout filt) (x y : MV β) (hx : ∀ kv ∈ x, G kv.2) (hy : ∀ kv ∈ y, G kv.2) :
    (∀ kv ∈ codegenProduct signf keyout filt x y, G kv.2) ∧
    mapV f (codegenProduct signf keyout filt x y) = codegenProduct signf keyout filt (mapV f x) (mapV f y) := by
  unfold codegenProduct
  rw [pairs_mapV]
  exact foldl_cpStep_aux f G haddG hmulG hnegG hadd hmul hneg signf keyout filt _ []
    (pairs_good G x y hx hy) (by simp)

theorem involutions_cons {β : Type} [Neg β] (gs : List Nat) (p : Nat × β) (x : MV β) :
    involutions gs (p :: x) = (p.1, if gs.contains (popcount p.1 % 4) then -p.2 else p.2) :: involutions gs x := rfl

omit [Add β] [Mul β] [Add γ] [Mul γ] in
theorem involutions_aux (hnegG : ∀ a, G a → G (-a)) (hneg : ∀ a, G a → f (-a) = - f a)
    (gs : List Nat) (x : MV β) (hx : ∀ kv ∈ x, G kv.2) :
    (∀ kv ∈ involutions gs x, G kv.2) ∧ mapV f (involutions gs x) = involutions gs (mapV f x) := by
  induction x with
  | nil => exact ⟨by simp [involutions], rfl⟩
  | cons p x ih =>
    have hp : G p.2 := hx p (by simp)
    obtain ⟨ih1, ih2⟩ := ih fun kv h => hx kv (by simp [h])
    rw [involutions_cons]
    constructor
    · intro kv hkv
      rcases List.mem_cons.1 hkv with rfl | hkv
      · dsimp only; split
        · exact hnegG _ hp
        · exact hp
      · exact ih1 kv hkv
    · rw [mapV_cons, mapV_cons, involutions_cons, ih2]
      congr 2
      dsimp only
      split
      · exact hneg _ hp
      · rfl
end generic

theorem lookupKey_mapV {β γ : Type} (f : β → γ) (x : MV β) (k : Nat) :
    lookupKey (mapV f x) k = (lookupKey x k).map f := by
  induction x with
  | nil => rfl
  | cons p x ih =>
    unfold lookupKey at ih ⊢
    rw [mapV_cons, List.find?_cons, List.find?_cons]
    dsimp only
    split
    · rfl
    · exact ih

section hom
variable {α β : Type} [CommRing α] [CommRing β] (φ : α →+* β)

/-- C12/C16: product-type generators commute with ring homomorphisms of the coefficients -/
theorem codegenProduct_map_hom (signf : Nat → Nat → Int) (keyout : Nat → Nat → Nat) (filt : Nat → Nat → Nat → Bool)
    (x y : MV α) :
    mapV φ (codegenProduct signf keyout filt x y) = codegenProduct signf keyout filt (mapV φ x) (mapV φ y) := by
  exact (codegenProduct_aux (⇑φ) (fun _ => True) (fun _ _ _ _ => trivial) (fun _ _ _ _ => trivial)
    (fun _ _ => trivial) (fun a b _ _ => map_add φ a b) (fun a b _ _ => map_mul φ a b)
    (fun a _ => map_neg φ a) signf keyout filt x y (fun _ _ => trivial) (fun _ _ => trivial)).2

theorem add_map_hom (x y : MV α) : mapV φ (add x y) = add (mapV φ x) (mapV φ y) := by
  unfold add
  induction y generalizing x with
  | nil => rfl
  | cons q y ih =>
    rw [mapV_cons, List.foldl_cons, List.foldl_cons, ih]
    congr 1
    exact mapV_insertAdd_aux (⇑φ) (fun _ => True) (fun a b _ _ => map_add φ a b) x q.1 q.2
      (fun _ _ => trivial) trivial
theorem sub_map_hom (x y : MV α) : mapV φ (sub x y) = sub (mapV φ x) (mapV φ y) := by
  have hins : ∀ (r : MV α) (k : Nat) (t : α), mapV φ (insertSub r k t) = insertSub (mapV φ r) k (φ t) := by
    intro r k t
    induction r with
    | nil => simp [insertSub]
    | cons p r ih =>
      obtain ⟨k', v⟩ := p
      by_cases h : k' = k
      · simp [insertSub, h]
      · simp [insertSub, h, ih]
  unfold sub
  induction y generalizing x with
  | nil => rfl
  | cons q y ih =>
    rw [mapV_cons, List.foldl_cons, List.foldl_cons, ih]
    congr 1
    exact hins x q.1 q.2
theorem neg_map_hom (x : MV α) : mapV φ (neg x) = neg (mapV φ x) := by
  simp [mapV, neg, List.map_map, Function.comp_def]
theorem involutions_map_hom (gs : List Nat) (x : MV α) : mapV φ (involutions gs x) = involutions gs (mapV φ x) := by
  exact (involutions_aux (⇑φ) (fun _ => True) (fun _ _ => trivial) (fun a _ => map_neg φ a) gs x
    (fun _ _ => trivial)).2
theorem hodgeGen_map_hom (c : Cfg) (u : Bool) (x : MV α) : mapV φ (hodgeGen c u x) = hodgeGen c u (mapV φ x) := by
  simp only [mapV, hodgeGen, List.map_map, Function.comp_def]
  apply List.map_congr_left
  intro p _
  split <;> split <;> simp
theorem gradeSel_map_hom (c : Cfg) (gs : List Nat) (x : MV α) : mapV φ (gradeSel c gs x) = gradeSel c gs (mapV φ x) := by
  unfold gradeSel
  simp only [mapV, List.map_filterMap]
  apply List.filterMap_congr
  intro k _
  have := lookupKey_mapV (⇑φ) x k
  unfold mapV at this
  rw [this]
  cases lookupKey x k <;> rfl

/-- denotations commute with the homomorphism -/
theorem den_mapV_hom (x : MV α) : den (mapV φ x) = Finsupp.mapRange φ (map_zero φ) (den x) := by
  induction x with
  | nil => simp
  | cons p x ih =>
    rw [mapV_cons, den_cons, den_cons, ih, Finsupp.mapRange_add (map_add φ), Finsupp.mapRange_single]
end hom

/-! ### partial homomorphisms (evaluation of rational polynomials) -/

section phom
variable {β α : Type} [Add β] [Mul β] [Neg β] [CommRing α] (ev : β → α) (Good : β → Prop)

/-- `ev` is a homomorphism on the good values, and good values are closed under the operations -/
structure PartialHom : Prop where
  add_good : ∀ a b, Good a → Good b → Good (a + b)
  mul_good : ∀ a b, Good a → Good b → Good (a * b)
  neg_good : ∀ a, Good a → Good (-a)
  ev_add : ∀ a b, Good a → Good b → ev (a + b) = ev a + ev b
  ev_mul : ∀ a b, Good a → Good b → ev (a * b) = ev a * ev b
  ev_neg : ∀ a, Good a → ev (-a) = - ev a

def AllGood (x : MV β) : Prop := ∀ kv ∈ x, Good kv.2

variable {ev Good}

theorem codegenProduct_good (h : PartialHom ev Good) (signf keyout filt) (x y : MV β)
    (hx : AllGood Good x) (hy : AllGood Good y) : AllGood Good (codegenProduct signf keyout filt x y) := by
  exact (codegenProduct_aux ev Good h.add_good h.mul_good h.neg_good h.ev_add h.ev_mul h.ev_neg
    signf keyout filt x y hx hy).1

/-- the denotation of a product generated over the symbolic type, evaluated, is the product of the evaluated operands -/
theorem codegenProduct_den_partial (h : PartialHom ev Good) (signf keyout filt) (x y : MV β)
    (hx : AllGood Good x) (hy : AllGood Good y) :
    den (mapV ev (codegenProduct signf keyout filt x y)) =
      bilin (effSign signf keyout filt) keyout (den (mapV ev x)) (den (mapV ev y)) := by
  rw [(codegenProduct_aux ev Good h.add_good h.mul_good h.neg_good h.ev_add h.ev_mul h.ev_neg
    signf keyout filt x y hx hy).2, codegenProduct_den]

theorem involutions_good (h : PartialHom ev Good) (gs : List Nat) (x : MV β) (hx : AllGood Good x) :
    AllGood Good (involutions gs x) := by
  exact (involutions_aux ev Good h.neg_good h.ev_neg gs x hx).1

theorem involutions_den_partial (h : PartialHom ev Good) (gs : List Nat) (x : MV β) (hx : AllGood Good x) :
    den (mapV ev (involutions gs x)) = lin (involSign gs) (den (mapV ev x)) := by
  rw [(involutions_aux ev Good h.neg_good h.ev_neg gs x hx).2, involutions_den]
end phom

/-! ### C06: sandwich, projection, squared norm -/

section c06
open KP Gen6
variable {K : Type} [Field K] (ρ : String → K)

/-- rational polynomials whose denominator does not vanish under ρ -/
def GoodR (r : RPoly) : Prop := KP.eval ρ r.denom ≠ 0

theorem rpoly_partialHom : PartialHom (RPoly.eval ρ) (GoodR ρ) := by
  refine ⟨?_, ?_, ?_, ?_, ?_, ?_⟩
  · intro a b ha hb; exact RPoly.add_denom_ne_zero ρ a b ha hb
  · intro a b ha hb; exact RPoly.mul_denom_ne_zero ρ a b ha hb
  · intro a ha; exact ha
  · intro a b ha hb; exact RPoly.eval_add ρ a b ha hb
  · intro a b ha hb; exact RPoly.eval_mul ρ a b ha hb
  · intro a _; exact RPoly.eval_neg ρ a

theorem symMV_good (c : Cfg) (nm : String) (keys : List Nat) : AllGood (GoodR ρ) (symMV c nm keys) := by
  intro kv hkv
  simp only [symMV, List.mem_map] at hkv
  obtain ⟨k, _, rfl⟩ := hkv
  exact RPoly.one_denom_ne ρ

/-- the filter drops a coefficient only if it is identically zero: the denotation is unchanged, for every valuation -/
theorem filterMV_den (x : MV RPoly) : den (mapV (RPoly.eval ρ) (filterMV x)) = den (mapV (RPoly.eval ρ) x) := by
  induction x with
  | nil => rfl
  | cons p x ih =>
    unfold filterMV at ih ⊢
    rw [List.filter_cons]
    split
    · rw [mapV_cons, mapV_cons, den_cons, den_cons, ih]
    · rename_i hb
      have hb' : p.2.toBool = false := by simpa using hb
      rw [mapV_cons, den_cons, RPoly.toBool_false_sound ρ _ hb', ih]
      simp

theorem filterMV_good (x : MV RPoly) (hx : AllGood (GoodR ρ) x) : AllGood (GoodR ρ) (filterMV x) := by
  intro kv hkv
  exact hx kv (List.mem_filter.1 hkv).1

/-- a blade removed by the pre-simplification has a coefficient that evaluates to 0 under every valuation -/
theorem filterMV_dropped_zero (x : MV RPoly) (kv : Nat × RPoly) (hm : kv ∈ x) (hd : kv ∉ filterMV x) :
    RPoly.eval ρ kv.2 = 0 := by
  apply RPoly.toBool_false_sound
  cases hb : kv.2.toBool
  · rfl
  · exact absurd (List.mem_filter.2 ⟨hm, by simpa using hb⟩) hd

variable (c : Cfg) (hr : TableRange c.computeSign)
include hr

/-- **a >> b = a * b * ~a** for all key patterns and all values: the function generated for the sandwich, as a
    rational map of the coefficients, is the composition of the elementary operators -/
theorem swGen_den (kx ky : List Nat) :
    den (mapV (RPoly.eval ρ) (swGen c kx ky)) =
      clMulS c.computeSign
        (clMulS c.computeSign (den (mapV (RPoly.eval ρ) (symMV c "a" kx))) (den (mapV (RPoly.eval ρ) (symMV c "b" ky))))
        (lin (involSign [2, 3]) (den (mapV (RPoly.eval ρ) (symMV c "a" kx)))) := by
  have hP := rpoly_partialHom ρ
  have ga := symMV_good ρ c "a" kx
  have gb := symMV_good ρ c "b" ky
  unfold swGen gp reverse clMulS
  dsimp only
  rw [filterMV_den,
    codegenProduct_den_partial hP _ _ _ _ _
      (filterMV_good ρ _ (codegenProduct_good hP _ _ _ _ _ ga gb))
      (filterMV_good ρ _ (involutions_good hP _ _ ga)),
    effSign_noFilter _ _ hr, filterMV_den, filterMV_den,
    codegenProduct_den_partial hP _ _ _ _ _ ga gb, effSign_noFilter _ _ hr,
    involutions_den_partial hP _ _ ga]

/-- **a @ b = (a | b) * ~b** -/
theorem projGen_den (kx ky : List Nat) :
    den (mapV (RPoly.eval ρ) (projGen c kx ky)) =
      clMulS c.computeSign
        (bilin (gradedTable c.computeSign fun r s g => g + r == s || g + s == r) (· ^^^ ·)
          (den (mapV (RPoly.eval ρ) (symMV c "a" kx))) (den (mapV (RPoly.eval ρ) (symMV c "b" ky))))
        (lin (involSign [2, 3]) (den (mapV (RPoly.eval ρ) (symMV c "b" ky)))) := by
  have hP := rpoly_partialHom ρ
  have ga := symMV_good ρ c "a" kx
  have gb := symMV_good ρ c "b" ky
  unfold projGen gp ip reverse clMulS
  dsimp only
  rw [filterMV_den,
    codegenProduct_den_partial hP _ _ _ _ _
      (filterMV_good ρ _ (codegenProduct_good hP _ _ _ _ _ ga gb))
      (filterMV_good ρ _ (involutions_good hP _ _ gb)),
    effSign_noFilter _ _ hr, filterMV_den, filterMV_den,
    codegenProduct_den_partial hP _ _ _ _ _ ga gb,
    involutions_den_partial hP _ _ gb, effSign_filter _ hr]
  intro i j
  rw [Bool.eq_iff_iff, ip_filter_iff, Bool.or_eq_true, beq_iff_eq, beq_iff_eq]

/-- **a.normsq() = a * ~a** -/
theorem normsqGen_den (kx : List Nat) :
    den (mapV (RPoly.eval ρ) (normsqGen c kx)) =
      clMulS c.computeSign (den (mapV (RPoly.eval ρ) (symMV c "a" kx)))
        (lin (involSign [2, 3]) (den (mapV (RPoly.eval ρ) (symMV c "a" kx)))) := by
  have hP := rpoly_partialHom ρ
  have ga := symMV_good ρ c "a" kx
  unfold normsqGen gp reverse clMulS
  dsimp only
  rw [filterMV_den,
    codegenProduct_den_partial hP _ _ _ _ _ ga (filterMV_good ρ _ (involutions_good hP _ _ ga)),
    effSign_noFilter _ _ hr, filterMV_den, involutions_den_partial hP _ _ ga]

end c06
end Kingdon

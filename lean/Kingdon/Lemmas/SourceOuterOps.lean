/-
  The operators the translated outer series (`codegen_outerexp`, ...) is instantiated with: the model's operators
  (`modelOps`), with the symbolic zero filter of `OperatorDict.__call__` on `^` and the coefficient-wise division by a
  python int (`Wj._values = tuple(v / j for v in Wj._values)`).  Import-free (the driver runs the translation with it).
-/
import Kingdon.Lemmas.SourceComposite
namespace Kingdon.SrcEq
open Kingdon

def outerOps {α : Type} [Add α] [Sub α] [Mul α] [Neg α] [One α] [Zero α] [Div α] [IntCast α] (c : Cfg) (isZero : α → Bool) : Src.Ops α :=
  { modelOps c with
    op := fun a b => castMV ((op c (uncastMV a) (uncastMV b)).filter fun kv => !isZero kv.2)
    divInt := fun a j => a.map fun kv => (kv.1, kv.2 / (j : α)) }

end Kingdon.SrcEq

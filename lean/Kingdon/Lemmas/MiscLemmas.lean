/-
  Smaller decision-logic facts: argument binding of symbolic multivector calls (C12), dual()/undual() kind selection
  (C05), key sets in graded mode for the linear operators (C13).
-/
import Kingdon.Model.Binding
import Kingdon.Model.Codegen
import Kingdon.Generated.Tables
import Mathlib.Data.String.Basic
import Mathlib.Data.List.Sort
import Mathlib.Data.List.Perm.Basic
namespace Kingdon
open Kingdon.Bind

/-! ### C12: binding of call arguments -/

theorem insertBy_perm {β : Type} (key : β → String) (x : β) (l : List β) :
    (insertBy key x l).Perm (x :: l) := by
  induction l with
  | nil => exact List.Perm.refl _
  | cons y ys ih =>
    simp only [insertBy]
    split
    · exact (List.Perm.cons y ih).trans (List.Perm.swap x y ys)
    · exact List.Perm.refl _

theorem sortBy_cons {β : Type} (key : β → String) (x : β) (l : List β) :
    sortBy key (x :: l) = insertBy key x (sortBy key l) := rfl

theorem sortBy_perm {β : Type} (key : β → String) (l : List β) : (sortBy key l).Perm l := by
  induction l with
  | nil => exact List.Perm.refl _
  | cons x xs ih =>
    rw [sortBy_cons]
    exact (insertBy_perm key x _).trans (List.Perm.cons x ih)

theorem insertBy_sorted {β : Type} (key : β → String) (x : β) (l : List β)
    (h : l.Pairwise (fun a b => ¬ key b < key a)) :
    (insertBy key x l).Pairwise (fun a b => ¬ key b < key a) := by
  induction l with
  | nil => simp [insertBy]
  | cons y ys ih =>
    rw [List.pairwise_cons] at h
    simp only [insertBy]
    split
    · rename_i hyx
      rw [List.pairwise_cons]
      refine ⟨?_, ih h.2⟩
      intro b hb
      have hb' := (insertBy_perm key x ys).subset hb
      rcases List.mem_cons.1 hb' with rfl | hb'
      · exact fun hlt => lt_irrefl _ (lt_trans hlt hyx)
      · exact h.1 b hb'
    · rename_i hyx
      rw [List.pairwise_cons]
      refine ⟨?_, List.pairwise_cons.2 h⟩
      intro b hb
      rcases List.mem_cons.1 hb with rfl | hb
      · exact hyx
      · intro hlt
        have h1 : key x ≤ key y := not_lt.1 hyx
        have h2 : key y ≤ key b := not_lt.1 (h.1 b hb)
        exact absurd hlt (not_lt.2 (le_trans h1 h2))

theorem sortBy_sorted {β : Type} (key : β → String) (l : List β) :
    (sortBy key l).Pairwise (fun a b => ¬ key b < key a) := by
  induction l with
  | nil => exact List.Pairwise.nil
  | cons x xs ih =>
    rw [sortBy_cons]
    exact insertBy_sorted key x _ ih

theorem sortBy_map_sorted {β : Type} (key : β → String) (l : List β) :
    ((sortBy key l).map key).Pairwise (· ≤ ·) := by
  rw [List.pairwise_map]
  exact (sortBy_sorted key l).imp (fun h => not_lt.1 h)

/-- two lists with the same duplicate-free key set are sorted into the same key sequence -/
theorem sortBy_keys_eq {β γ : Type} (k1 : β → String) (k2 : γ → String) (l1 : List β) (l2 : List γ)
    (hn : (l1.map k1).Nodup) (hp : (l1.map k1).Perm (l2.map k2)) :
    (sortBy k1 l1).map k1 = (sortBy k2 l2).map k2 := by
  have _ := hn  -- not needed: `≤` on strings is antisymmetric, so sorted permutations coincide anyway
  have hperm : ((sortBy k1 l1).map k1).Perm ((sortBy k2 l2).map k2) :=
    ((sortBy_perm k1 l1).map k1).trans (hp.trans ((sortBy_perm k2 l2).map k2).symm)
  exact List.Perm.eq_of_pairwise (fun _ _ _ _ h1 h2 => le_antisymm h1 h2)
    (sortBy_map_sorted k1 l1) (sortBy_map_sorted k2 l2) hperm

/-- **keyword arguments bind by name**: if the keywords are exactly the free symbols (any order), every symbol
    receives the value passed under its own name -/
theorem keyword_binds_by_name {V : Type} (syms : List String) (kwargs : List (String × V))
    (hn : syms.Nodup) (hp : (kwargs.map (·.1)).Perm syms) :
    ∀ kv ∈ kwargs, kv ∈ bindKeyword syms kwargs := by
  have hkeys : (sortBy (·.1) kwargs).map (·.1) = params syms := by
    have h := sortBy_keys_eq (fun kv : String × V => kv.1) id kwargs syms
      (hp.nodup_iff.2 hn) (by simpa using hp)
    simpa [params] using h
  have hz : bindKeyword syms kwargs = sortBy (·.1) kwargs := by
    unfold bindKeyword
    exact (List.zip_of_prod hkeys rfl).symm
  intro kv hkv
  rw [hz]
  exact (sortBy_perm _ kwargs).symm.subset hkv

/-- **positional arguments bind to the free symbols in name order** -/
theorem positional_binds_in_name_order {V : Type} (syms : List String) (args : List V) (hl : args.length = syms.length) :
    (bindPositional syms args).map (·.1) = params syms ∧ (bindPositional syms args).map (·.2) = args ∧
    (params syms).Pairwise (fun a b => ¬ b < a) ∧ (params syms).Perm syms := by
  have hperm : (params syms).Perm syms := sortBy_perm id syms
  have hlen : (params syms).length = args.length := by rw [hperm.length_eq, hl]
  refine ⟨?_, ?_, sortBy_sorted id syms, hperm⟩
  · unfold bindPositional
    exact List.map_fst_zip (le_of_eq hlen)
  · unfold bindPositional
    exact List.map_snd_zip (le_of_eq hlen.symm)

/-! ### C05: dual()/undual() kind selection (table re-extracted from source) -/

/-- polarity for non-degenerate metrics (r = 0), Hodge duality when exactly one generator is null (r = 1), an error
    for r > 1; undual likewise -/
theorem dual_kind_selection :
    (Gen.dualDispatch.filter (·.1 == "mv")) =
      [("mv", "dual", 0, "polarity"), ("mv", "undual", 0, "unpolarity"), ("mv", "dual", 1, "hodge"),
       ("mv", "undual", 1, "unhodge"), ("mv", "dual", 2, "raises:Exception"), ("mv", "undual", 2, "raises:Exception")] := by
  decide

/-- the involutions negate exactly the documented grades mod 4 (extracted by probing the real codegen functions) -/
theorem involution_grade_sets :
    Gen.invertGrades = [("reverse", [2, 3]), ("involute", [1, 3]), ("conjugate", [1, 2])] := by
  rfl

/-! ### C13: the linear operators keep the stored key tuple (so complete grades stay complete) -/

variable {α : Type}

theorem keys_neg [Neg α] (x : MV α) : (neg x).map (·.1) = x.map (·.1) := by
  simp [neg, List.map_map, Function.comp_def]
theorem keys_involutions [Neg α] (gs : List Nat) (x : MV α) : (involutions gs x).map (·.1) = x.map (·.1) := by
  simp [involutions, List.map_map, Function.comp_def]
/-- the Hodge dual stores the complement blades in the same order: a complete grade-g block becomes the (reversed)
    complete grade-(d-g) block as a set -/
theorem keys_hodge [Neg α] (c : Cfg) (u : Bool) (x : MV α) :
    (hodgeGen c u x).map (·.1) = x.map (fun kv => c.pss - kv.1) := by
  simp [hodgeGen, List.map_map, Function.comp_def]
theorem keys_insertAdd_mem [Add α] (vals : MV α) (k : Nat) (v : α) (hk : k ∈ vals.map (·.1)) :
    (insertAdd vals k v).map (·.1) = vals.map (·.1) := by
  induction vals with
  | nil => simp at hk
  | cons p r ih =>
    obtain ⟨k', w⟩ := p
    simp only [insertAdd]
    split
    · simp
    · rename_i hne
      simp only [List.map_cons, List.mem_cons] at hk
      rcases hk with rfl | hk
      · exact absurd rfl hne
      · simp only [List.map_cons, ih hk]

theorem keys_insertSub_mem [Sub α] [Neg α] (vals : MV α) (k : Nat) (v : α) (hk : k ∈ vals.map (·.1)) :
    (insertSub vals k v).map (·.1) = vals.map (·.1) := by
  induction vals with
  | nil => simp at hk
  | cons p r ih =>
    obtain ⟨k', w⟩ := p
    simp only [insertSub]
    split
    · simp
    · rename_i hne
      simp only [List.map_cons, List.mem_cons] at hk
      rcases hk with rfl | hk
      · exact absurd rfl hne
      · simp only [List.map_cons, ih hk]

theorem keys_add_subset [Add α] (x y : MV α) (h : ∀ k ∈ y.map (·.1), k ∈ x.map (·.1)) :
    (add x y).map (·.1) = x.map (·.1) := by
  unfold add
  induction y generalizing x with
  | nil => rfl
  | cons p r ih =>
    obtain ⟨k, v⟩ := p
    simp only [List.foldl_cons]
    have hk : k ∈ x.map (·.1) := h k (by simp)
    have he := keys_insertAdd_mem x k v hk
    rw [ih (insertAdd x k v) (by rw [he]; intro k' hk'; exact h k' (by simp only [List.map_cons, List.mem_cons]; exact Or.inr hk')), he]

theorem keys_sub_subset [Sub α] [Neg α] (x y : MV α) (h : ∀ k ∈ y.map (·.1), k ∈ x.map (·.1)) :
    (sub x y).map (·.1) = x.map (·.1) := by
  unfold sub
  induction y generalizing x with
  | nil => rfl
  | cons p r ih =>
    obtain ⟨k, v⟩ := p
    simp only [List.foldl_cons]
    have hk : k ∈ x.map (·.1) := h k (by simp)
    have he := keys_insertSub_mem x k v hk
    rw [ih (insertSub x k v) (by rw [he]; intro k' hk'; exact h k' (by simp only [List.map_cons, List.mem_cons]; exact Or.inr hk')), he]

/-- sum and difference of two operands storing the same key tuple store that tuple -/
theorem keys_add_same [Add α] (x y : MV α) (h : x.map (·.1) = y.map (·.1)) (hn : (x.map (·.1)).Nodup) :
    (add x y).map (·.1) = x.map (·.1) := by
  have _ := hn  -- not needed: the key tuple is kept even with duplicate keys
  exact keys_add_subset x y (fun _ hk => h ▸ hk)
theorem keys_sub_same [Sub α] [Neg α] (x y : MV α) (h : x.map (·.1) = y.map (·.1)) (hn : (x.map (·.1)).Nodup) :
    (sub x y).map (·.1) = x.map (·.1) := by
  have _ := hn  -- not needed: the key tuple is kept even with duplicate keys
  exact keys_sub_subset x y (fun _ hk => h ▸ hk)

end Kingdon

/-
  C11 / C16: dispatch logic.  The tables in Kingdon/Generated/Tables.lean are regenerated from the source on every
  run; every `decide` below is re-checked against what the code says now.
-/
import Kingdon.Model.Api
import Kingdon.Generated.Tables
namespace Kingdon.Api
open Kingdon

variable {M : Type}

/-! ### C16: `_call_binary` -/

theorem callBinaryList_eq_map (f : M → M → M) (scalar : Int → M) (a : Operand M) (ys : List (Operand M)) :
    callBinaryList f scalar a ys = ys.map (callBinary f scalar a) := by
  induction ys with
  | nil => simp [callBinaryList]
  | cons y ys ih => simp [callBinaryList, ih]

theorem cbLeftList_eq_map (f : M → M → M) (scalar : Int → M) (b : M) (xs : List (Operand M)) :
    cbLeftList f scalar b xs = xs.map (cbLeft f scalar b) := by
  induction xs with
  | nil => simp [cbLeftList]
  | cons x xs ih => simp [cbLeftList, ih]

mutual
theorem callBinary_thunk_left_op (f : M → M → M) (scalar : Int → M) (a : Operand M) :
    ∀ b : Operand M, callBinary f scalar (.thunk a) b = callBinary f scalar a b
  | .mv y => by simp [callBinary, cbLeft]
  | .num n => by simp [callBinary, cbLeft]
  | .seq t ys => by simp [callBinary, callBinary_thunk_left_list f scalar a ys]
  | .thunk y => by simp [callBinary, callBinary_thunk_left_op f scalar a y]
theorem callBinary_thunk_left_list (f : M → M → M) (scalar : Int → M) (a : Operand M) :
    ∀ bs : List (Operand M), callBinaryList f scalar (.thunk a) bs = callBinaryList f scalar a bs
  | [] => by simp [callBinaryList]
  | b :: bs => by simp [callBinaryList, callBinary_thunk_left_op f scalar a b, callBinary_thunk_left_list f scalar a bs]
end

theorem callBinary_mv_mv (f : M → M → M) (scalar : Int → M) (x y : M) :
    callBinary f scalar (.mv x) (.mv y) = .mv (f x y) := by
  simp [callBinary, cbLeft]

/-- a plain number on either side behaves as the scalar multivector, and `left op right` keeps its order -/
theorem callBinary_num_left (f : M → M → M) (scalar : Int → M) (n : Int) (y : M) :
    callBinary f scalar (.num n) (.mv y) = .mv (f (scalar n) y) := by
  simp [callBinary, cbLeft]
theorem callBinary_num_right (f : M → M → M) (scalar : Int → M) (x : M) (n : Int) :
    callBinary f scalar (.mv x) (.num n) = .mv (f x (scalar n)) := by
  simp [callBinary, cbLeft]

/-- a zero-argument callable is replaced by its value (on either side, nested to any depth) -/
theorem callBinary_thunk_left (f : M → M → M) (scalar : Int → M) (a b : Operand M) :
    callBinary f scalar (.thunk a) b = callBinary f scalar a b := by
  exact callBinary_thunk_left_op f scalar a b
theorem callBinary_thunk_right (f : M → M → M) (scalar : Int → M) (a b : Operand M) :
    callBinary f scalar a (.thunk b) = callBinary f scalar a b := by
  simp [callBinary]

/-- a list or tuple operand yields the sequence of results (same container kind, same order) -/
theorem callBinary_seq_right (f : M → M → M) (scalar : Int → M) (a : Operand M) (t : Bool) (ys : List (Operand M)) :
    callBinary f scalar a (.seq t ys) = .seq t (ys.map (callBinary f scalar a)) := by
  simp [callBinary, callBinaryList_eq_map]
theorem callBinary_seq_left (f : M → M → M) (scalar : Int → M) (t : Bool) (xs : List (Operand M)) (y : M) :
    callBinary f scalar (.seq t xs) (.mv y) = .seq t (xs.map fun x => callBinary f scalar x (.mv y)) := by
  simp [callBinary, cbLeft, cbLeftList_eq_map]

/-- exchanging the operands of the call is the same as exchanging the arguments of the operator, when no sequence
    is involved: the operator always receives (left, right) -/
theorem callBinary_order (f : M → M → M) (scalar : Int → M) (x y : M) :
    callBinary (fun a b => f b a) scalar (.mv y) (.mv x) = callBinary f scalar (.mv x) (.mv y) := by
  simp [callBinary, cbLeft]

/-- every reflected dunder of `MultiVector` passes (other, self) to its operator (table re-extracted from source) -/
theorem reflected_methods_swap :
    ["__rmul__", "__rxor__", "__ror__", "__rand__", "__rrshift__", "__rmatmul__", "__rsub__", "__rtruediv__"].all
      (fun m => match Gen.mvDispatch.lookup m with | some (_, sw, 1) => sw | _ => false) = true := by
  decide +kernel

/-- ... with the operator of the corresponding non-reflected dunder -/
theorem reflected_methods_same_operator :
    [("__rmul__", "__mul__"), ("__rxor__", "__xor__"), ("__ror__", "__or__"), ("__rand__", "__and__"),
     ("__rrshift__", "__rshift__"), ("__rmatmul__", "__matmul__"), ("__rsub__", "__sub__"),
     ("__rtruediv__", "__truediv__"), ("__radd__", "__add__")].all
      (fun p => (Gen.mvDispatch.lookup p.1).map (·.1) == (Gen.mvDispatch.lookup p.2).map (·.1) &&
                (Gen.mvDispatch.lookup p.1).isSome) = true := by
  decide +kernel

/-- a plain number meets a multivector on the side it was written: for every dunder of `MultiVector` the number is
    the left operand of the operator exactly for the reflected forms (`__radd__` excepted, where it does not matter) -/
theorem number_side_mv :
    (Gen.numberDispatch.filter (·.1 == "mv")).all
      (fun r => r.2.2.2.2 == 1 && (r.2.2.2.1 == (r.2.1.startsWith "__r" && r.2.1 != "__rshift__") || r.2.1 == "__radd__")) = true := by
  decide +kernel

/-! ### C11: the two dispatch routes agree -/

/-- on every method through which two multivector-valued operands can meet, `TapeRecorder` consults the same
    operator with the same operand order as `MultiVector` -/
theorem tables_agree :
    mvMethods.all (fun m => lookupBin Gen.mvDispatch m == lookupBin Gen.tapeDispatch m &&
                            (lookupBin Gen.mvDispatch m).isSome) = true := by
  decide +kernel

/-- dual()/undual() select the same kind of duality in both classes, for r = 0, 1 and > 1 -/
theorem dual_dispatch_agrees :
    [("dual", 0), ("undual", 0), ("dual", 1), ("undual", 1), ("dual", 2), ("undual", 2)].all
      (fun (p : String × Nat) =>
        (Gen.dualDispatch.find? (fun r => r.1 == "mv" && r.2.1 == p.1 && r.2.2.1 == p.2)).map (·.2.2.2) ==
        (Gen.dualDispatch.find? (fun r => r.1 == "tape" && r.2.1 == p.1 && r.2.2.1 == p.2)).map (·.2.2.2)) = true ∧
    (Gen.dualDispatch.find? (fun r => r.1 == "mv" && r.2.1 == "dual" && r.2.2.1 == 0)).map (·.2.2.2) = some "polarity" ∧
    (Gen.dualDispatch.find? (fun r => r.1 == "mv" && r.2.1 == "undual" && r.2.2.1 == 1)).map (·.2.2.2) = some "unhodge" := by
  decide +kernel

/-- for plain-number operands `TapeRecorder` either raises, or uses the operator `MultiVector` uses, with the number
    on the same side or in an operator where scalars are central -/
theorem number_dispatch_never_wrong :
    (Gen.numberDispatch.filter (·.1 == "tape")).all
      (fun r => match lookupNum Gen.numberDispatch "tape" r.2.1, lookupNum Gen.numberDispatch "mv" r.2.1 with
        | some (o2, l2), some (o1, l1) => o1 == o2 && (l1 == l2 || scalarCentral.contains o1)
        | none, _ => true
        | _, none => false) = true := by
  decide +kernel

/-- **registered = direct**: for every expression tree whose nodes are supported, evaluation through the
    `TapeRecorder` dispatch equals evaluation through the `MultiVector` dispatch — given that scalars are central in
    gp, op and add (proved for the algebra model in C02/C04) — for arbitrary dispatch tables, hence in particular
    for the extracted ones -/
theorem registered_eq_direct (S : Sem M) (mvT tapeT : BinTable) (nt : NumTable) (env : List M)
    (hc : ∀ op ∈ scalarCentral, ∀ n x, S.bin op (S.scalar n) x = S.bin op x (S.scalar n))
    (e : Expr) (h : supported mvT tapeT nt e = true) :
    eval S tapeT nt "tape" env e = eval S mvT nt "mv" env e := by
  induction e with
  | arg i => simp [eval]
  | binm m a b iha ihb =>
    simp only [supported, Bool.and_eq_true] at h
    obtain ⟨⟨⟨⟨_, heq⟩, _⟩, ha⟩, hb⟩ := h
    have heq' := eq_of_beq heq
    simp only [eval, iha ha, ihb hb, heq']
  | unm m a iha =>
    simp only [supported, Bool.and_eq_true] at h
    obtain ⟨⟨⟨_, heq⟩, _⟩, ha⟩ := h
    have heq' := eq_of_beq heq
    simp only [eval, iha ha, heq']
  | numm m a n iha =>
    simp only [supported, Bool.and_eq_true] at h
    obtain ⟨hm, ha⟩ := h
    simp only [eval, iha ha]
    cases h1 : lookupNum nt "mv" m with
    | none => simp [h1] at hm
    | some p1 =>
      cases h2 : lookupNum nt "tape" m with
      | none => simp [h1, h2] at hm
      | some p2 =>
        obtain ⟨o1, l1⟩ := p1
        obtain ⟨o2, l2⟩ := p2
        simp only [h1, h2, Bool.and_eq_true, Bool.or_eq_true, beq_iff_eq] at hm
        obtain ⟨ho, hl⟩ := hm
        subst ho
        cases hv : eval S mvT nt "mv" env a with
        | none => rfl
        | some va =>
          simp only
          rcases hl with hl | hl
          · subst hl; rfl
          · have hmem : o1 ∈ scalarCentral := by simpa using hl
            have := hc o1 hmem n va
            cases l1 <;> cases l2 <;> simp [this]

/-- the extracted tables support every tree built from the shared methods and the number forms of + and * -/
theorem supported_example :
    supported Gen.mvDispatch Gen.tapeDispatch Gen.numberDispatch
      (.binm "__add__" (.numm "__rmul__" (.binm "__rshift__" (.arg 0) (.unm "__invert__" (.arg 1))) 2)
                       (.numm "__add__" (.binm "cp" (.arg 0) (.arg 1)) 3)) = true := by
  decide +kernel

end Kingdon.Api

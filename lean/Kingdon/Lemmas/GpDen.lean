import Kingdon.Lemmas.CodegenDen
open Finsupp
namespace Kingdon
noncomputable section
variable {α : Type} [CommRing α]

def SigOK (sig : List Int) : Prop := ∀ s ∈ sig, s = 1 ∨ s = -1 ∨ s = 0

theorem csign_range (sig : List Int) (h : SigOK sig) (I J : Nat) :
    csign sig I J = 1 ∨ csign sig I J = -1 ∨ csign sig I J = 0 := by
  induction sig generalizing I J with
  | nil => simp [csign]
  | cons s sig ih =>
    have hs := h s (by simp)
    have := ih (fun t ht => h t (by simp [ht])) (I/2) (J/2)
    simp only [csign]
    rcases hs with rfl | rfl | rfl <;> rcases this with e | e | e <;> rw [e] <;> split <;> split <;> simp

theorem bilin_add_left (s ko) (a a' b : ℕ →₀ α) :
    bilin s ko (a + a') b = bilin s ko a b + bilin s ko a' b := by
  classical
  unfold bilin
  rw [Finsupp.sum_add_index' (by intro; simp) (by intro i x y; simp [mul_add, add_mul, Finsupp.sum_add])]

theorem bilin_add_right (s ko) (a b b' : ℕ →₀ α) :
    bilin s ko a (b + b') = bilin s ko a b + bilin s ko a b' := by
  classical
  unfold bilin
  rw [← Finsupp.sum_add]
  refine Finsupp.sum_congr fun i _ => ?_
  rw [Finsupp.sum_add_index' (by intro; simp) (by intro i x y; simp [mul_add])]

@[simp] theorem bilin_zero_left (s ko) (b : ℕ →₀ α) : bilin s ko 0 b = 0 := by simp [bilin]
@[simp] theorem bilin_zero_right (s ko) (a : ℕ →₀ α) : bilin s ko a 0 = 0 := by simp [bilin]

theorem bilin_single_single (s ko) (i j : Nat) (a b : α) :
    bilin s ko (single i a) (single j b) = single (ko i j) ((s i j : α) * a * b) := by
  classical
  simp [bilin, Finsupp.sum_single_index]

theorem bilin_den_right (s ko) (a : ℕ →₀ α) (y : List (Nat × α)) :
    bilin s ko a (den y) = (y.map fun q => bilin s ko a (single q.1 q.2)).sum := by
  induction y with
  | nil => simp
  | cons q y ih => simp [bilin_add_right, ih]

theorem bilin_den (s ko) (x y : List (Nat × α)) :
    bilin s ko (den x) (den y) =
      ((pairs x y).map fun pq => bilin s ko (single pq.1.1 pq.1.2) (single pq.2.1 pq.2.2)).sum := by
  induction x with
  | nil => simp [pairs]
  | cons p x ih =>
    rw [den_cons, bilin_add_left, ih, bilin_den_right]
    simp [pairs, List.map_map, Function.comp_def]

/-- the blade table a call of `codegen_product` realises: the sign function collapsed to its sign
    (`sign > 0` / else branch of the code), zeroed where the filter rejects the pair -/
def effSign (signf : Nat → Nat → Int) (keyout : Nat → Nat → Nat) (filt : Nat → Nat → Nat → Bool)
    (i j : Nat) : Int :=
  if signf i j = 0 ∨ filt i j (keyout i j) = false then 0 else if signf i j > 0 then 1 else -1

theorem cpTerm_eq (signf keyout filt) (pq : (Nat × α) × (Nat × α)) :
    cpTerm signf keyout filt pq =
      bilin (effSign signf keyout filt) keyout (single pq.1.1 pq.1.2) (single pq.2.1 pq.2.2) := by
  rw [bilin_single_single]
  unfold cpTerm effSign
  by_cases h : signf pq.1.1 pq.2.1 = 0 ∨ filt pq.1.1 pq.2.1 (keyout pq.1.1 pq.2.1) = false
  · simp [h]
  · by_cases hp : signf pq.1.1 pq.2.1 > 0 <;> simp [h, hp]

/-- **Refinement theorem for every product-type generator** (codegen.py:114-138): for all key tuples in
    any order, with repetitions or empty, and all values of any commutative ring, the dictionary
    `codegen_product` accumulates denotes the bilinear extension of its (filtered, sign-collapsed) blade
    table — no contributing term omitted, duplicated or attributed to another blade. -/
theorem codegenProduct_den (signf keyout filt) (x y : List (Nat × α)) :
    den (codegenProduct signf keyout filt x y) =
      bilin (effSign signf keyout filt) keyout (den x) (den y) := by
  rw [den_codegenProduct, bilin_den]
  exact congrArg List.sum (List.map_congr_left fun pq _ => cpTerm_eq signf keyout filt pq)

/-- with no filter and a sign function with values in {1,-1,0}, the effective table is the table -/
theorem effSign_noFilter (signf : Nat → Nat → Int) (keyout)
    (h : ∀ i j, signf i j = 1 ∨ signf i j = -1 ∨ signf i j = 0) :
    effSign signf keyout noFilter = signf := by
  funext i j
  unfold effSign noFilter
  rcases h i j with e | e | e <;> simp [e]

/-- C02 for the canonical table: the generated geometric product is the Clifford product -/
theorem gp_den_csign (sig : List Int) (h : SigOK sig) (x y : List (Nat × α)) :
    den (codegenProduct (csign sig) (· ^^^ ·) noFilter x y) = clMul sig (den x) (den y) := by
  rw [codegenProduct_den, effSign_noFilter _ _ (csign_range sig h)]; rfl

end
end Kingdon

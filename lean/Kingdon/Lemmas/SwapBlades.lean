import Kingdon.Lemmas.Swap
namespace Kingdon

theorem prodSig_append (sig) (a b : List Nat) : prodSig sig (a ++ b) = prodSig sig a * prodSig sig b := by
  simp [prodSig]

/-- decomposition of a nodup list around a member -/
theorem nodup_split {c : Nat} {b1 : List Nat} (hc : c ∈ b1) (hnd : b1.Nodup) :
    ∃ l1 l2, b1 = l1 ++ c :: l2 ∧ c ∉ l1 ∧ c ∉ l2 ∧ b1.idxOf c = l1.length ∧ b1.erase c = l1 ++ l2 := by
  obtain ⟨l1, l2, rfl⟩ := List.append_of_mem hc
  have h1 : c ∉ l1 := by
    intro h; have := List.nodup_append.mp hnd; exact (this.2.2 c h c (by simp)) rfl
  have h2 : c ∉ l2 := by
    have := (List.nodup_append.mp hnd).2.1; exact (List.nodup_cons.mp this).1
  refine ⟨l1, l2, rfl, h1, h2, ?_, ?_⟩
  · rw [List.idxOf_append_of_notMem h1]; simp
  · rw [List.erase_append_right _ h1]; simp

theorem phase1_sound (sig : List Int) : ∀ (b2 b1 : List Nat) (sw : Nat) (el : List Nat),
    b1.Nodup → Valid sig b1 → Valid sig b2 →
    ∃ n new, (phase1 b1 b2 sw el).2.1 = sw + n ∧ (phase1 b1 b2 sw el).2.2 = el ++ new ∧
      (phase1 b1 b2 sw el).1.Nodup ∧ Valid sig (phase1 b1 b2 sw el).1 ∧
      evalWord sig (b1 ++ b2) = SB.smul ((-1) ^ n * prodSig sig new) (evalWord sig (phase1 b1 b2 sw el).1) := by
  intro b2
  induction b2 with
  | nil =>
    intro b1 sw el hnd hv1 _
    exact ⟨0, [], by simp [phase1], by simp [phase1], by simpa [phase1] using hnd, by simpa [phase1] using hv1,
      by simp [phase1, prodSig, SB.one_smul]⟩
  | cons c b2 ih =>
    intro b1 sw el hnd hv1 hv2
    have hc : c < sig.length := hv2 c (by simp)
    have hv2' : Valid sig b2 := fun x hx => hv2 x (by simp [hx])
    by_cases hm : c ∈ b1
    · obtain ⟨l1, l2, rfl, h1, h2, hidx, her⟩ := nodup_split hm hnd
      have hnd' : (l1 ++ l2).Nodup := by
        have := hnd
        rw [List.nodup_append] at this ⊢
        refine ⟨this.1, (List.nodup_cons.mp this.2.1).2, ?_⟩
        intro a ha b hb; exact this.2.2 a ha b (by simp [hb])
      have hvl2 : Valid sig l2 := fun x hx => hv1 x (by simp [hx])
      have hv' : Valid sig (l1 ++ l2) := by
        intro x hx; rcases List.mem_append.mp hx with h | h
        · exact hv1 x (by simp [h])
        · exact hv1 x (by simp [h])
      obtain ⟨n, new, e1, e2, e3, e4, e5⟩ := ih (l1 ++ l2) (sw + ((l1 ++ c :: l2).length - (l1 ++ c :: l2).idxOf c - 1)) (el ++ [c]) hnd' hv' hv2'
      have hlen : (l1 ++ c :: l2).length - (l1 ++ c :: l2).idxOf c - 1 = l2.length := by
        rw [hidx]; simp
      refine ⟨l2.length + n, c :: new, ?_, ?_, ?_, ?_, ?_⟩
      · simp only [phase1, hm, if_true, her]; rw [e1, hlen]; omega
      · simp only [phase1, hm, if_true, her]; rw [e2]; simp
      · simpa only [phase1, hm, if_true, her] using e3
      · simpa only [phase1, hm, if_true, her] using e4
      · simp only [phase1, hm, if_true, her]
        have step : evalWord sig ((l1 ++ c :: l2) ++ c :: b2) =
            SB.smul ((-1) ^ l2.length * sig[c]!) (evalWord sig ((l1 ++ l2) ++ b2)) := by
          have := move_front' sig c (l1 ++ [c]) l2 b2 hc hvl2 h2
          have e : (l1 ++ c :: l2) ++ c :: b2 = (l1 ++ [c]) ++ (l2 ++ c :: b2) := by simp
          rw [e, this]
          have e' : (l1 ++ [c]) ++ c :: (l2 ++ b2) = l1 ++ (c :: c :: (l2 ++ b2)) := by simp
          rw [e', evalWord_append, contract_adj sig c _ hc, SB.mul_smul, SB.smul_smul, ← evalWord_append]
          simp
        rw [step, e5, SB.smul_smul]
        congr 1
        simp [prodSig, Int.pow_add]; grind
    · have hnd' : (b1 ++ [c]).Nodup := by
        rw [List.nodup_append]; exact ⟨hnd, by simp, by intro a ha b hb; simp at hb; subst hb; intro e; exact hm (e ▸ ha)⟩
      have hv' : Valid sig (b1 ++ [c]) := by
        intro x hx; rcases List.mem_append.mp hx with h | h
        · exact hv1 x h
        · simp at h; subst h; exact hc
      obtain ⟨n, new, e1, e2, e3, e4, e5⟩ := ih (b1 ++ [c]) sw el hnd' hv' hv2'
      refine ⟨n, new, ?_, ?_, ?_, ?_, ?_⟩
      · simpa only [phase1, hm, if_false] using e1
      · simpa only [phase1, hm, if_false] using e2
      · simpa only [phase1, hm, if_false] using e3
      · simpa only [phase1, hm, if_false] using e4
      · simp only [phase1, hm, if_false]
        have : b1 ++ c :: b2 = (b1 ++ [c]) ++ b2 := by simp
        rw [this, e5]

end Kingdon

/-
  C05: duality maps and the regressive product at the level of denotations.
-/
import Kingdon.Lemmas.CfgAlgebra
namespace Kingdon
open Finsupp
noncomputable section
variable {α : Type} [CommRing α]

/-! ### bit facts about complements w.r.t. the pseudoscalar -/

theorem compl_and (d I : Nat) (hI : I < 2 ^ d) : I &&& (2 ^ d - 1 - I) = 0 := by
  apply Nat.eq_of_testBit_eq
  intro n
  have e : 2 ^ d - 1 - I = 2 ^ d - (I + 1) := by omega
  rw [e, Nat.testBit_and, Nat.testBit_two_pow_sub_succ hI]
  cases Nat.testBit I n <;> simp

namespace Cfg
theorem pss_lt (c : Cfg) : c.pss < 2 ^ c.d := by
  have := Nat.pow_pos (n := c.d) (show 0 < 2 by omega)
  unfold pss; omega

theorem le_pss (c : Cfg) (I : Nat) (hI : I < 2 ^ c.d) : I ≤ c.pss := by unfold pss; omega

theorem compl_lt (c : Cfg) (I : Nat) : c.pss - I < 2 ^ c.d := by
  have := c.pss_lt; omega

theorem and_compl (c : Cfg) (I : Nat) (hI : I < 2 ^ c.d) : I &&& (c.pss - I) = 0 := compl_and c.d I hI

theorem xor_compl (c : Cfg) (I : Nat) (hI : I < 2 ^ c.d) : I ^^^ (c.pss - I) = c.pss := by
  rw [(xor_eq_add_iff _ _).2 (c.and_compl I hI)]
  have := c.le_pss I hI; omega

theorem compl_eq_xor (c : Cfg) (I : Nat) (hI : I < 2 ^ c.d) : c.pss - I = c.pss ^^^ I := by
  conv_rhs => rw [← c.xor_compl I hI, Nat.xor_comm I, Nat.xor_assoc, Nat.xor_self, Nat.xor_zero]

theorem compl_xor_compl (c : Cfg) (I J : Nat) (hI : I < 2 ^ c.d) (hJ : J < 2 ^ c.d) :
    (c.pss - I) ^^^ (c.pss - J) = I ^^^ J := by
  rw [c.compl_eq_xor I hI, c.compl_eq_xor J hJ, Nat.xor_assoc, ← Nat.xor_assoc I, Nat.xor_comm I c.pss,
    Nat.xor_assoc c.pss I, ← Nat.xor_assoc c.pss c.pss, Nat.xor_self, Nat.zero_xor]

theorem computeSign_zero_right (c : Cfg) (h : Adm c) (I : Nat) (hI : I < 2 ^ c.d) : c.computeSign I 0 = 1 := by
  rw [computeSign_twist c h I 0 hI (Nat.pow_pos (by omega)), Nat.xor_zero, epsK_zero c h, csign_zero_right]
  have := epsK_mul_self c h I hI
  simpa using this

theorem computeSign_zero_left (c : Cfg) (h : Adm c) (I : Nat) (hI : I < 2 ^ c.d) : c.computeSign 0 I = 1 := by
  rw [computeSign_twist c h 0 I (Nat.pow_pos (by omega)) hI, Nat.zero_xor, epsK_zero c h, csign_zero_left]
  have := epsK_mul_self c h I hI
  simpa using this
end Cfg
theorem bilin_neg_left (s ko) (a b : ℕ →₀ α) : bilin s ko (-a) b = - bilin s ko a b := by
  apply eq_neg_of_add_eq_zero_left
  rw [← bilin_add_left]; simp

theorem bilin_neg_right (s ko) (a b : ℕ →₀ α) : bilin s ko a (-b) = - bilin s ko a b := by
  apply eq_neg_of_add_eq_zero_left
  rw [← bilin_add_right]; simp

theorem bilin_single_left (s ko) (i : Nat) (v : α) (b : ℕ →₀ α) :
    bilin s ko (single i v) b = b.sum fun j bj => single (ko i j) ((s i j : α) * v * bj) := by
  classical
  simp [bilin, Finsupp.sum_single_index]

theorem bilin_single_right (s ko) (j : Nat) (v : α) (a : ℕ →₀ α) :
    bilin s ko a (single j v) = a.sum fun i ai => single (ko i j) ((s i j : α) * ai * v) := by
  classical
  simp [bilin, Finsupp.sum_single_index]

/-- congruence of blade tables on the supports -/
theorem bilin_congr_ko (s s' : Nat → Nat → Int) (ko ko' : Nat → Nat → Nat) (a b : ℕ →₀ α)
    (h : ∀ i ∈ a.support, ∀ j ∈ b.support, s i j = s' i j ∧ ko i j = ko' i j) :
    bilin s ko a b = bilin s' ko' a b := by
  unfold bilin
  refine Finsupp.sum_congr fun i hi => ?_
  refine Finsupp.sum_congr fun j hj => ?_
  obtain ⟨e1, e2⟩ := h i hi j hj
  rw [e1, e2]

/-- blade-wise map: blade `k` goes to `f k` times blade `g k` -/
def linMap (f : Nat → Int) (g : Nat → Nat) (a : ℕ →₀ α) : ℕ →₀ α := a.sum fun k v => single (g k) ((f k : α) * v)

theorem linMap_single (f g) (k : Nat) (v : α) : linMap f g (single k v) = single (g k) ((f k : α) * v) := by
  simp [linMap, Finsupp.sum_single_index]

theorem linMap_add (f g) (a b : ℕ →₀ α) : linMap f g (a + b) = linMap f g a + linMap f g b := by
  classical
  unfold linMap
  rw [Finsupp.sum_add_index' (by intro; simp) (by intro i x y; simp [mul_add])]

@[simp] theorem linMap_zero (f g) : linMap f g (0 : ℕ →₀ α) = 0 := by simp [linMap]

theorem linMap_bilin (f g) (s ko) (a b : ℕ →₀ α) :
    linMap f g (bilin s ko a b) = bilin (fun i j => f (ko i j) * s i j) (fun i j => g (ko i j)) a b := by
  classical
  unfold linMap bilin
  rw [Finsupp.sum_sum_index (by intro; simp) (by intro i x y; simp [mul_add])]
  refine Finsupp.sum_congr fun i _ => ?_
  rw [Finsupp.sum_sum_index (by intro; simp) (by intro i x y; simp [mul_add])]
  refine Finsupp.sum_congr fun j _ => ?_
  rw [Finsupp.sum_single_index (by simp)]
  congr 1
  push_cast; ring

theorem bilin_linMap_left (f g) (s ko) (a b : ℕ →₀ α) :
    bilin s ko (linMap f g a) b = bilin (fun i j => f i * s (g i) j) (fun i j => ko (g i) j) a b := by
  classical
  unfold linMap bilin
  rw [Finsupp.sum_sum_index (by intro; simp) (by intro i x y; simp [mul_add, add_mul, Finsupp.sum_add])]
  refine Finsupp.sum_congr fun i _ => ?_
  rw [Finsupp.sum_single_index (by simp)]
  refine Finsupp.sum_congr fun j _ => ?_
  congr 1
  push_cast; ring

theorem bilin_linMap_right (f g) (s ko) (a b : ℕ →₀ α) :
    bilin s ko a (linMap f g b) = bilin (fun i j => f j * s i (g j)) (fun i j => ko i (g j)) a b := by
  classical
  unfold linMap bilin
  refine Finsupp.sum_congr fun i _ => ?_
  rw [Finsupp.sum_sum_index (by intro; simp) (by intro i x y; simp [mul_add])]
  refine Finsupp.sum_congr fun j _ => ?_
  rw [Finsupp.sum_single_index (by simp)]
  congr 1
  push_cast; ring

/-- sign of the Hodge dual (`undual = false`) resp. undual of blade `k`, collapsed as in the code -/
def hodgeSign (c : Cfg) (u : Bool) (k : Nat) : Int :=
  if (if u then c.computeSign (c.pss - k) k else c.computeSign k (c.pss - k)) < 0 then -1 else 1

theorem hodgeGen_den (c : Cfg) (u : Bool) (x : MV α) :
    den (hodgeGen c u x) = linMap (hodgeSign c u) (fun k => c.pss - k) (den x) := by
  induction x with
  | nil => simp [hodgeGen]
  | cons p x ih =>
    have : hodgeGen c u (p :: x) = (c.pss - p.1, if (if u then c.computeSign (c.pss - p.1) p.1 else c.computeSign p.1 (c.pss - p.1)) < 0 then -p.2 else p.2) :: hodgeGen c u x := rfl
    rw [this, den_cons, den_cons, linMap_add, linMap_single, ih]
    congr 1
    unfold hodgeSign
    split <;> simp

/-! ### duality (C05) -/

theorem rp_table (c : Cfg) (h : Cfg.Adm c) (i j : Nat) (hi : i < 2 ^ c.d) (hj : j < 2 ^ c.d) :
    effSign (fun kx ky => c.computeSign kx (c.pss - kx) * c.computeSign ky (c.pss - ky) *
                  c.computeSign (c.pss - kx) (c.pss - ky) * c.computeSign (c.pss - (kx ^^^ ky)) (kx ^^^ ky))
        (fun kx ky => c.pss - (kx ^^^ ky))
        (fun kx ky ko => (c.pss : Int) == (kx : Int) + ky - ko) i j =
      hodgeSign c false j * (hodgeSign c false i * (hodgeSign c true ((c.pss - i) ^^^ (c.pss - j)) *
        effSign c.computeSign (· ^^^ ·) (fun kx ky ko => ko == kx + ky) (c.pss - i) (c.pss - j))) := by
  have hK : i ^^^ j < 2 ^ c.d := Nat.xor_lt_two_pow hi hj
  have h1 := Cfg.computeSign_disjoint c h i (c.pss - i) hi (c.compl_lt i) (c.and_compl i hi)
  have h2 := Cfg.computeSign_disjoint c h j (c.pss - j) hj (c.compl_lt j) (c.and_compl j hj)
  have h4 := Cfg.computeSign_disjoint c h (c.pss - (i ^^^ j)) (i ^^^ j) (c.compl_lt _) hK
    (by rw [Nat.and_comm]; exact c.and_compl _ hK)
  have h3 := Cfg.tableRange_of_adm c h (c.pss - i) (c.pss - j)
  have li := c.le_pss i hi
  have lj := c.le_pss j hj
  have lK := c.le_pss _ hK
  have hf : ((c.pss : Int) == (i : Int) + j - ((c.pss - (i ^^^ j) : Nat) : Int)) =
      ((i ^^^ j) == (c.pss - i) + (c.pss - j)) := by
    rw [Bool.eq_iff_iff, beq_iff_eq, beq_iff_eq]; omega
  unfold effSign hodgeSign
  simp only [c.compl_xor_compl i j hi hj, hf, Bool.false_eq_true, if_false, if_true]
  rcases h1 with e1 | e1 <;> rcases h2 with e2 | e2 <;> rcases h4 with e4 | e4 <;>
    rcases h3 with e3 | e3 | e3 <;> simp only [e1, e2, e3, e4] <;>
    cases ((i ^^^ j) == (c.pss - i) + (c.pss - j)) <;> simp

/-- the regressive product is the dual of the outer product of the duals -/
theorem rp_den (c : Cfg) (h : Cfg.Adm c) (x y : MV α)
    (hx : ∀ p ∈ x, p.1 < 2 ^ c.d) (hy : ∀ p ∈ y, p.1 < 2 ^ c.d) :
    den (rp c x y) = den (unhodge c (op c (hodge c x) (hodge c y))) := by
  unfold rp unhodge hodge op
  rw [codegenProduct_den, hodgeGen_den, codegenProduct_den, hodgeGen_den, hodgeGen_den,
    linMap_bilin, bilin_linMap_left, bilin_linMap_right]
  refine bilin_congr_ko _ _ _ _ _ _ fun i hi j hj => ⟨?_, ?_⟩
  · exact rp_table c h i j (inRange_den c x hx i hi) (inRange_den c y hy j hj)
  · rw [c.compl_xor_compl i j (inRange_den c x hx i hi) (inRange_den c y hy j hj)]

theorem den_singleton (k : Nat) (v : α) : den [(k, v)] = single k v := by simp

theorem rp_table_pss_left (c : Cfg) (h : Cfg.Adm c) (j : Nat) (hj : j < 2 ^ c.d) :
    effSign (fun kx ky => c.computeSign kx (c.pss - kx) * c.computeSign ky (c.pss - ky) *
                  c.computeSign (c.pss - kx) (c.pss - ky) * c.computeSign (c.pss - (kx ^^^ ky)) (kx ^^^ ky))
        (fun kx ky => c.pss - (kx ^^^ ky))
        (fun kx ky ko => (c.pss : Int) == (kx : Int) + ky - ko) c.pss j = 1 := by
  have h2 := Cfg.computeSign_disjoint c h j (c.pss - j) hj (c.compl_lt j) (c.and_compl j hj)
  have lj := c.le_pss j hj
  have e : c.pss - (c.pss - j) = j := by omega
  unfold effSign
  simp only [← c.compl_eq_xor j hj, Nat.sub_self, e, c.computeSign_zero_right h c.pss c.pss_lt,
    c.computeSign_zero_left h _ (c.compl_lt j)]
  rcases h2 with e2 | e2 <;> simp [e2]

theorem rp_table_pss_right (c : Cfg) (h : Cfg.Adm c) (i : Nat) (hi : i < 2 ^ c.d) :
    effSign (fun kx ky => c.computeSign kx (c.pss - kx) * c.computeSign ky (c.pss - ky) *
                  c.computeSign (c.pss - kx) (c.pss - ky) * c.computeSign (c.pss - (kx ^^^ ky)) (kx ^^^ ky))
        (fun kx ky => c.pss - (kx ^^^ ky))
        (fun kx ky ko => (c.pss : Int) == (kx : Int) + ky - ko) i c.pss = 1 := by
  have h2 := Cfg.computeSign_disjoint c h i (c.pss - i) hi (c.compl_lt i) (c.and_compl i hi)
  have li := c.le_pss i hi
  have e : c.pss - (c.pss - i) = i := by omega
  unfold effSign
  simp only [Nat.xor_comm i c.pss, ← c.compl_eq_xor i hi, Nat.sub_self, e, c.computeSign_zero_right h c.pss c.pss_lt,
    c.computeSign_zero_right h _ (c.compl_lt i)]
  rcases h2 with e2 | e2 <;> simp [e2]

/-- the pseudoscalar is the identity of the regressive product -/
theorem rp_pss_left (c : Cfg) (h : Cfg.Adm c) (y : MV α) (hy : ∀ p ∈ y, p.1 < 2 ^ c.d) :
    den (rp c [(c.pss, (1 : α))] y) = den y := by
  unfold rp
  rw [codegenProduct_den, den_singleton, bilin_single_left]
  conv_rhs => rw [← Finsupp.sum_single (den y)]
  refine Finsupp.sum_congr fun j hj => ?_
  have hj' := inRange_den c y hy j hj
  have lj := c.le_pss j hj'
  rw [rp_table_pss_left c h j hj', ← c.compl_eq_xor j hj']
  have e : c.pss - (c.pss - j) = j := by omega
  simp [e]

theorem rp_pss_right (c : Cfg) (h : Cfg.Adm c) (x : MV α) (hx : ∀ p ∈ x, p.1 < 2 ^ c.d) :
    den (rp c x [(c.pss, (1 : α))]) = den x := by
  unfold rp
  rw [codegenProduct_den, den_singleton, bilin_single_right]
  conv_rhs => rw [← Finsupp.sum_single (den x)]
  refine Finsupp.sum_congr fun i hi => ?_
  have hi' := inRange_den c x hx i hi
  have li := c.le_pss i hi'
  rw [rp_table_pss_right c h i hi', Nat.xor_comm i c.pss, ← c.compl_eq_xor i hi']
  have e : c.pss - (c.pss - i) = i := by omega
  simp [e]

/-- every basis blade E satisfies E ^ hodge(E) = pseudoscalar -/
theorem blade_wedge_hodge (c : Cfg) (h : Cfg.Adm c) (I : Nat) (hI : I < 2 ^ c.d) :
    den (op c [(I, (1 : α))] (hodge c [(I, (1 : α))])) = single c.pss 1 := by
  unfold op hodge
  rw [codegenProduct_den, hodgeGen_den, den_singleton, linMap_single, bilin_single_single,
    c.xor_compl I hI]
  congr 1
  have h1 := Cfg.computeSign_disjoint c h I (c.pss - I) hI (c.compl_lt I) (c.and_compl I hI)
  have hf : ((I ^^^ (c.pss - I)) == I + (c.pss - I)) = true := by
    rw [beq_iff_eq, xor_eq_add_iff]; exact c.and_compl I hI
  unfold effSign hodgeSign
  simp only [hf]
  rcases h1 with e | e <;> simp [e]

/-- polarity raises ZeroDivisionError exactly when the metric is degenerate -/
theorem polarity_raises_iff (c : Cfg) (h : Cfg.Adm c) (x : MV α) :
    polarityGen c false x = none ↔ (0 : Int) ∈ c.signature := by
  rw [← Cfg.pss_sq_zero_iff c h]
  unfold polarityGen
  rcases Cfg.tableRange_of_adm c h c.pss c.pss with e | e | e <;> simp [e]

theorem unpolarity_never_raises (c : Cfg) (x : MV α) : (polarityGen c true x).isSome = true := by
  simp [polarityGen]

theorem unpolarity_eq (c : Cfg) (x : MV α) : polarityGen c true x = some (gp c x [(c.pss, 1)]) := by
  simp [polarityGen]

/-- polarity(x) = x * pss⁻¹ with pss⁻¹ = (pss²)·pss, pss² = ±1 -/
theorem polarity_den (c : Cfg) (h : Cfg.Adm c) (x y : MV α) (hx : polarityGen c false x = some y) :
    den y = clMulS c.computeSign (den x) (single c.pss ((c.computeSign c.pss c.pss : Int) : α)) := by
  have hr := Cfg.tableRange_of_adm c h
  unfold polarityGen at hx
  rcases hr c.pss c.pss with e | e | e
  · simp [e] at hx
    subst hx
    rw [gp_den c hr, den_singleton, e]; simp
  · simp [e] at hx
    subst hx
    rw [gp_den c hr, den_singleton, neg_den, e]
    unfold clMulS
    rw [bilin_neg_left]
    have : (single c.pss (((-1 : Int) : α)) : ℕ →₀ α) = - single c.pss 1 := by simp
    rw [this, bilin_neg_right]
  · simp [e] at hx

theorem polarity_some_sign (c : Cfg) (x y : MV α) (hx : polarityGen c false x = some y) :
    c.computeSign c.pss c.pss = 1 ∨ c.computeSign c.pss c.pss = -1 := by
  unfold polarityGen at hx
  by_cases e1 : c.computeSign c.pss c.pss = -1
  · exact Or.inr e1
  · by_cases e2 : c.computeSign c.pss c.pss = 1
    · exact Or.inl e2
    · simp [e1, e2] at hx

theorem inRange_single (c : Cfg) (k : Nat) (hk : k < 2 ^ c.d) (v : α) : InRange c (single k v) := by
  intro i hi
  have := Finsupp.support_single_subset hi
  simp at this; omega

theorem clMulS_one_right (c : Cfg) (h : Cfg.Adm c) (a : ℕ →₀ α) (ha : InRange c a) :
    clMulS c.computeSign a (single 0 1) = a := by
  unfold clMulS
  rw [bilin_single_right]
  conv_rhs => rw [← Finsupp.sum_single a]
  refine Finsupp.sum_congr fun i hi => ?_
  rw [c.computeSign_zero_right h i (ha i hi)]
  simp

/-- x * (s pss) * pss = x = x * pss * (s pss) for s = pss² = ±1 -/
theorem pss_cancel (c : Cfg) (h : Cfg.Adm c) (a : ℕ →₀ α) (ha : InRange c a) (u v : α)
    (huv : ((c.computeSign c.pss c.pss : Int) : α) * u * v = 1) :
    clMulS c.computeSign (clMulS c.computeSign a (single c.pss u)) (single c.pss v) = a := by
  rw [clMulS_assoc_cfg c h a _ _ ha (inRange_single c _ c.pss_lt _) (inRange_single c _ c.pss_lt _)]
  have : clMulS c.computeSign (single c.pss u) (single c.pss v) = (single 0 1 : ℕ →₀ α) := by
    unfold clMulS
    rw [bilin_single_single, Nat.xor_self, huv]
  rw [this, clMulS_one_right c h a ha]

/-- unpolarity(polarity(x)) = x when the pseudoscalar is invertible -/
theorem unpolarity_polarity (c : Cfg) (h : Cfg.Adm c) (x y z : MV α) (hx : ∀ p ∈ x, p.1 < 2 ^ c.d)
    (h1 : polarityGen c false x = some y) (h2 : polarityGen c true y = some z) : den z = den x := by
  have hr := Cfg.tableRange_of_adm c h
  rw [unpolarity_eq] at h2
  injection h2 with h2
  subst h2
  rw [gp_den c hr, den_singleton, polarity_den c h x y h1]
  apply pss_cancel c h _ (inRange_den c x hx)
  rcases polarity_some_sign c x y h1 with e | e <;> simp [e]

theorem polarity_unpolarity (c : Cfg) (h : Cfg.Adm c) (x y z : MV α) (hx : ∀ p ∈ x, p.1 < 2 ^ c.d)
    (h1 : polarityGen c true x = some y) (h2 : polarityGen c false y = some z) : den z = den x := by
  have hr := Cfg.tableRange_of_adm c h
  rw [unpolarity_eq] at h1
  injection h1 with h1
  subst h1
  rw [polarity_den c h _ z h2, gp_den c hr, den_singleton]
  apply pss_cancel c h _ (inRange_den c x hx)
  rcases polarity_some_sign c _ z h2 with e | e <;> simp [e]
end
end Kingdon

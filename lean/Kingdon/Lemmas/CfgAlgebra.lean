/-
  Consequences of the twist theorem at the level of multivectors (finitely supported coefficient functions):
  table symmetry (C03 cp/acp), anti-automorphisms (C04), duality (C05), the relabelling isomorphism (C14).
-/
import Kingdon.Lemmas.CfgSign
import Kingdon.Lemmas.Products
import Kingdon.Lemmas.Linear
import Kingdon.Lemmas.Reverse
import Mathlib.Data.List.Perm.Subperm
namespace Kingdon
open Finsupp

/-! ### helper lemmas on bits, words and the swap algorithm -/

theorem bitsOf_lt (d : Nat) (w : List Nat) (h : ∀ g ∈ w, g < d) : bitsOf w < 2 ^ d := by
  induction w with
  | nil => simp only [bitsOf]; exact Nat.pow_pos (by omega)
  | cons a w ih =>
    simp only [bitsOf]
    exact Nat.xor_lt_two_pow (Nat.pow_lt_pow_right (by omega) (h a (by simp)))
      (ih (fun g hg => h g (by simp [hg])))

theorem parity_eq_popcount (n I : Nat) (hI : I < 2 ^ n) : parity n I = decide (popcount I % 2 = 1) := by
  induction n generalizing I with
  | zero =>
    have : I = 0 := by simpa using hI
    subst this; simp [parity, popcount]
  | succ n ih =>
    have h2 : I / 2 < 2 ^ n := by rw [Nat.pow_succ] at hI; omega
    rw [parity, ih _ h2, popcount_unfold I]
    rcases Nat.mod_two_eq_zero_or_one I with h | h <;>
    rcases Nat.mod_two_eq_zero_or_one (popcount (I / 2)) with h' | h' <;>
    simp [h, h'] <;> omega

theorem sgn_cases (b : Bool) : sgn b = 1 ∨ sgn b = -1 := by cases b <;> simp [sgn]

theorem csign_disjoint (sig : List Int) (I J : Nat) (hd : I &&& J = 0) :
    csign sig I J = 1 ∨ csign sig I J = -1 := by
  induction sig generalizing I J with
  | nil => simp [csign]
  | cons s sig ih =>
    have h2 : I / 2 &&& J / 2 = 0 := by rw [← Nat.and_div_two, hd]
    have hm := and_mod_two' I J
    rw [hd] at hm
    have hn : ¬ (I % 2 = 1 ∧ J % 2 = 1) := by
      rintro ⟨a, b⟩; rw [a, b] at hm; simp at hm
    simp only [csign, hn, if_false]
    rcases ih _ _ h2 with e | e <;> rw [e] <;> split <;> simp

theorem phase1_disjoint : ∀ (b2 b1 : List Nat) (sw : Nat) (el : List Nat), b2.Nodup →
    (∀ x ∈ b2, x ∉ b1) → phase1 b1 b2 sw el = (b1 ++ b2, sw, el) := by
  intro b2
  induction b2 with
  | nil => intro b1 sw el _ _; simp [phase1]
  | cons c b2 ih =>
    intro b1 sw el hnd hdis
    have hc : c ∉ b1 := hdis c (by simp)
    have hnd' := List.nodup_cons.mp hnd
    simp only [phase1, hc, if_false]
    rw [ih _ _ _ hnd'.2]
    · simp
    · intro x hx hm
      rcases List.mem_append.mp hm with hm | hm
      · exact hdis x (by simp [hx]) hm
      · simp at hm; subst hm; exact hnd'.1 hx

theorem phase2_short : ∀ (t b1 : List Nat) (i sw : Nat), b1.length ≤ i → (phase2 b1 t i sw).2 = sw := by
  intro t
  induction t with
  | nil => intro b1 i sw _; simp [phase2]
  | cons c t ih =>
    intro b1 i sw hl
    have h1 : b1.idxOf c ≤ b1.length := List.idxOf_le_length
    simp only [phase2]
    rw [ih]
    · omega
    · have : (b1.eraseIdx (b1.idxOf c)).length ≤ b1.length := by
        rw [List.length_eraseIdx]; split <;> omega
      rw [List.length_insertIdx]; split <;> omega


theorem int_prod_eq_zero_iff (l : List Int) : l.prod = 0 ↔ (0 : Int) ∈ l := by
  induction l with
  | nil => simp
  | cons a l ih =>
    rw [List.prod_cons, Int.mul_eq_zero, ih, List.mem_cons]
    constructor
    · rintro (h | h)
      · exact Or.inl h.symm
      · exact Or.inr h
    · rintro (h | h)
      · exact Or.inl h.symm
      · exact Or.inr h

theorem two_pow_succ_sub_one (n : Nat) : (2 ^ (n + 1) - 1) % 2 = 1 ∧ (2 ^ (n + 1) - 1) / 2 = 2 ^ n - 1 := by
  have : 0 < 2 ^ n := Nat.pow_pos (by omega)
  rw [Nat.pow_succ]; omega

theorem csign_full (sig : List Int) :
    ∃ e : Int, (e = 1 ∨ e = -1) ∧
      csign sig (2 ^ sig.length - 1) (2 ^ sig.length - 1) = e * sig.prod := by
  induction sig with
  | nil => exact ⟨1, Or.inl rfl, by simp [csign]⟩
  | cons s sig ih =>
    obtain ⟨e, he, h⟩ := ih
    obtain ⟨h1, h2⟩ := two_pow_succ_sub_one sig.length
    simp only [List.length_cons, csign, h1, h2, h, List.prod_cons, true_and, and_self, if_true]
    by_cases hp : parity sig.length (2 ^ sig.length - 1) = true
    · refine ⟨-e, by rcases he with r | r <;> simp [r], ?_⟩
      simp only [hp, if_true]; ring
    · refine ⟨e, he, ?_⟩
      simp only [hp]; simp; ring

theorem csign_full_zero_iff (sig : List Int) :
    csign sig (2 ^ sig.length - 1) (2 ^ sig.length - 1) = 0 ↔ (0 : Int) ∈ sig := by
  obtain ⟨e, he, h⟩ := csign_full sig
  rw [h, ← int_prod_eq_zero_iff]
  rcases he with r | r <;> simp [r]


/-- a generator times a blade all of whose bits are above it: sign `+1` -/
theorem csign_gen_below (sig : List Int) (g K : Nat) (h : ∀ i, i ≤ g → K.testBit i = false) :
    csign sig (2 ^ g) K = 1 := by
  induction sig generalizing g K with
  | nil => simp [csign]
  | cons s sig ih =>
    have hK : K % 2 = 0 := by
      have := Nat.testBit_zero (x := K); rw [h 0 (by omega)] at this; simpa using this.symm
    cases g with
    | zero => simp [csign, hK, csign_zero_left]
    | succ g =>
      have e1 : 2 ^ (g + 1) % 2 = 0 := by rw [Nat.pow_succ]; omega
      have e2 : 2 ^ (g + 1) / 2 = 2 ^ g := by rw [Nat.pow_succ]; omega
      have hK' : ∀ i, i ≤ g → (K / 2).testBit i = false := by
        intro i hi
        have := Nat.testBit_succ (x := K) (i := i); rw [← this]; exact h (i + 1) (by omega)
      simp [csign, e1, e2, hK, ih g (K / 2) hK']

theorem evalWord_asc (sig : List Int) (w : List Nat) (hw : w.Pairwise (· < ·)) : (evalWord sig w).c = 1 := by
  induction w with
  | nil => simp [evalWord, SB.one]
  | cons g w ih =>
    have hp := List.pairwise_cons.mp hw
    have hnd : w.Nodup := hp.2.imp (fun h => Nat.ne_of_lt h)
    have hb : ∀ i, i ≤ g → (bitsOf w).testBit i = false := by
      intro i hi
      rw [testBit_bitsOf w hnd]
      simp only [decide_eq_false_iff_not]
      intro hm; have := hp.1 i hm; omega
    simp only [evalWord, SB.mul, gen, evalWord_key, ih hp.2, csign_gen_below sig g _ hb]
    simp

namespace Cfg

theorem tableRange_of_adm (c : Cfg) (h : Adm c) : TableRange c.computeSign :=
  fun I J => computeSign_range c h.sig_range I J

theorem binOf_lt (c : Cfg) (h : Adm c) (n : List Nat) (hn : n ∈ c.basis) : c.binOf n < 2 ^ c.d := by
  rw [binOf_eq_bitsOf]
  apply bitsOf_lt
  intro g hg
  have := wordOf_valid c n (h.names_letters n hn) g hg
  rwa [sigBits_length c h] at this

theorem nameOf_out (c : Cfg) (h : Adm c) (I : Nat) (hI : 2 ^ c.d ≤ I) : c.nameOf I = [] := by
  unfold nameOf
  rw [List.find?_eq_none.mpr]
  · rfl
  · intro n hn
    have := binOf_lt c h n hn
    simp; omega

theorem nameOf_nodup (c : Cfg) (h : Adm c) (I : Nat) : (c.nameOf I).Nodup := by
  by_cases hI : I < 2 ^ c.d
  · exact h.names_nodup _ (nameOf_mem c h I hI).1
  · rw [nameOf_out c h I (by omega)]; simp

theorem computeSign_out (c : Cfg) (h : Adm c) (I J : Nat) (hI : 2 ^ c.d ≤ I) :
    c.computeSign I J = 1 ∧ c.computeSign J I = 1 := by
  have nI := nameOf_out c h I hI
  have ndJ := nameOf_nodup c h J
  by_cases hJ : J < 2 ^ c.d
  · have hK : 2 ^ c.d ≤ I ^^^ J := by
      by_contra hlt
      have := Nat.xor_lt_two_pow (Nat.lt_of_not_le hlt) hJ
      rw [Nat.xor_assoc, Nat.xor_self, Nat.xor_zero] at this
      omega
    have nK := nameOf_out c h _ hK
    have nK' : c.nameOf (J ^^^ I) = [] := by rw [Nat.xor_comm]; exact nK
    have e1 : swapBlades [] (c.nameOf J) [] = (0, c.nameOf J, []) := by
      simp only [swapBlades]
      rw [phase1_disjoint _ _ _ _ ndJ (by simp)]
      simp [phase2]
    have e2 : swapBlades (c.nameOf J) [] [] = (0, c.nameOf J, []) := by
      simp [swapBlades, phase1, phase2]
    unfold computeSign
    rw [nI, nK, nK', e1, e2]
    simp
  · have nJ := nameOf_out c h J (by omega)
    have e1 : ∀ t, (swapBlades [] [] t).1 = 0 := by
      intro t
      simp only [swapBlades, phase1]
      exact phase2_short _ _ _ _ (by simp)
    have e2 : ∀ t, (swapBlades [] [] t).2.2 = [] := by
      intro t
      simp [swapBlades, phase1]
    unfold computeSign
    rw [nI, nJ]
    simp [e1, e2]

/-- `e_J e_I = ± e_I e_J` for the stored table, for all keys (also outside the algebra, where the model's
    table is trivially 1) -/
theorem tableSymm_of_adm (c : Cfg) (h : Adm c) : TableSymm c.computeSign := by
  intro I J
  by_cases hI : I < 2 ^ c.d
  · by_cases hJ : J < 2 ^ c.d
    · rw [computeSign_twist c h J I hJ hI, computeSign_twist c h I J hI hJ, Nat.xor_comm J I,
        csign_swap c.sigBits I J]
      rcases sgn_cases ((parity c.sigBits.length I && parity c.sigBits.length J) !=
        parity c.sigBits.length (I &&& J)) with e | e <;> rw [e]
      · left; ring
      · right; ring
    · have := computeSign_out c h J I (by omega)
      left; rw [this.1, this.2]
  · have := computeSign_out c h I J (by omega)
    left; rw [this.1, this.2]

/-- disjoint blades never multiply to zero -/
theorem computeSign_disjoint (c : Cfg) (h : Adm c) (I J : Nat) (hI : I < 2 ^ c.d) (hJ : J < 2 ^ c.d)
    (hd : I &&& J = 0) : c.computeSign I J = 1 ∨ c.computeSign I J = -1 := by
  rw [computeSign_twist c h I J hI hJ]
  rcases epsK_sq c h I hI with e1 | e1 <;> rcases epsK_sq c h J hJ with e2 | e2 <;>
  rcases epsK_sq c h _ (Nat.xor_lt_two_pow hI hJ) with e3 | e3 <;>
  rcases csign_disjoint c.sigBits I J hd with e4 | e4 <;> simp [e1, e2, e3, e4]


theorem vecs_perm (c : Cfg) (h : Adm c) : c.vecs.Perm (List.range' c.start c.d) := by
  apply List.Subperm.perm_of_length_le
  · apply List.subperm_of_subset h.vecs_nodup
    intro v hv
    rw [List.mem_range'_1]
    exact h.vecs_range v hv
  · rw [List.length_range', h.vecs_len]

theorem zero_mem_sigBits_iff (c : Cfg) (h : Adm c) : (0 : Int) ∈ c.sigBits ↔ (0 : Int) ∈ c.signature := by
  unfold sigBits
  rw [List.mem_map]
  constructor
  · rintro ⟨v, hv, e⟩
    obtain ⟨h1, h2⟩ := h.vecs_range v hv
    have hlt : v - c.start < c.signature.length := by unfold d at h2; omega
    unfold metric at e
    rw [getElem!_pos c.signature _ hlt] at e
    rw [← e]; exact List.getElem_mem _
  · intro h0
    obtain ⟨i, hi, e⟩ := List.getElem_of_mem h0
    have hm : c.start + i ∈ c.vecs := by
      rw [(vecs_perm c h).mem_iff, List.mem_range'_1]
      unfold d; omega
    refine ⟨c.start + i, hm, ?_⟩
    unfold metric
    have e2 : c.start + i - c.start = i := by omega
    rw [e2, getElem!_pos c.signature _ hi, e]

/-- the pseudoscalar squares to zero exactly for degenerate metrics -/
theorem pss_sq_zero_iff (c : Cfg) (h : Adm c) : c.computeSign c.pss c.pss = 0 ↔ (0 : Int) ∈ c.signature := by
  have hp : c.pss < 2 ^ c.d := by
    have : 0 < 2 ^ c.d := Nat.pow_pos (by omega)
    unfold pss; omega
  rw [computeSign_twist c h _ _ hp hp, Nat.xor_self, epsK_zero c h, epsK_mul_self c h _ hp,
    ← zero_mem_sigBits_iff c h, ← csign_full_zero_iff, sigBits_length c h]
  simp [pss]


theorem mem_insertSorted (x y : List Nat) (l : List (List Nat)) :
    x ∈ insertSorted y l ↔ x = y ∨ x ∈ l := by
  induction l with
  | nil => simp [insertSorted]
  | cons z l ih =>
    simp only [insertSorted]
    split
    · simp
    · simp only [List.mem_cons, ih]; tauto

theorem mem_sortNames (x : List Nat) (l : List (List Nat)) : x ∈ sortNames l ↔ x ∈ l := by
  induction l with
  | nil => simp [sortNames]
  | cons z l ih =>
    have : sortNames (z :: l) = insertSorted z (sortNames l) := rfl
    rw [this, mem_insertSorted, ih]; simp

theorem wordOf_defaultName (sig : List Int) (start K : Nat) (h : Adm (Cfg.default sig start)) :
    (Cfg.default sig start).wordOf (defaultName start sig.length K) =
      (List.range sig.length).filter (fun ei => K.testBit ei) := by
  have hnd := h.vecs_nodup
  have hv : (Cfg.default sig start).vecs = (List.range sig.length).map (· + start) := rfl
  unfold wordOf defaultName
  rw [List.map_filterMap]
  rw [← List.filterMap_eq_filter]
  apply List.filterMap_congr
  intro ei hei
  have hlt : ei < sig.length := List.mem_range.mp hei
  have hlen : ei < (Cfg.default sig start).vecs.length := by rw [hv]; simpa using hlt
  have hidx := List.Nodup.idxOf_getElem hnd ei hlen
  have hget : (Cfg.default sig start).vecs[ei] = ei + start := by simp [hv]
  rw [hget] at hidx
  by_cases hb : K.testBit ei <;> simp [hb, hidx, Option.guard]

/-- in a default basis every name is ascending, so all orientations are +1 -/
theorem epsK_default (sig : List Int) (start : Nat) (I : Nat) (hI : I < 2 ^ sig.length)
    (h : Adm (Cfg.default sig start)) : (Cfg.default sig start).epsK I = 1 := by
  have hm := (nameOf_mem _ h I hI).1
  have hb : (Cfg.default sig start).basis =
      sortNames ((List.range (2 ^ sig.length)).map (defaultName start sig.length)) := rfl
  rw [hb, mem_sortNames, List.mem_map] at hm
  obtain ⟨K, _, hK⟩ := hm
  unfold epsK eps
  rw [← hK, wordOf_defaultName sig start K h]
  apply evalWord_asc
  exact List.Pairwise.sublist List.filter_sublist List.pairwise_lt_range

end Cfg

/-! ### sign rules of the involutions (C04) -/

theorem tri_succ (n : Nat) : (n + 1) * (n + 1 - 1) / 2 = n * (n - 1) / 2 + n := by
  cases n with
  | zero => simp
  | succ m =>
    have : (m + 1 + 1) * (m + 1 + 1 - 1) = (m + 1) * (m + 1 - 1) + 2 * (m + 1) := by
      simp only [Nat.add_sub_cancel]; ring
    rw [this, Nat.add_mul_div_left _ _ (by omega)]

theorem tri_mod (n : Nat) : (n * (n - 1) / 2) % 2 = if n % 4 = 2 ∨ n % 4 = 3 then 1 else 0 := by
  induction n with
  | zero => simp
  | succ n ih => rw [tri_succ]; split at ih <;> split <;> omega

theorem involSign_reverse (k : Nat) :
    involSign [2, 3] k = (-1 : Int) ^ (popcount k * (popcount k - 1) / 2) := by
  rw [← neg_one_pow_ite]
  have := tri_mod (popcount k)
  unfold involSign
  generalize popcount k * (popcount k - 1) / 2 = T at *
  rcases (by omega : popcount k % 4 = 0 ∨ popcount k % 4 = 1 ∨ popcount k % 4 = 2 ∨ popcount k % 4 = 3)
    with e | e | e | e <;> simp [e] at this ⊢ <;> simp [this]

theorem involSign_involute (k : Nat) : involSign [1, 3] k = (-1 : Int) ^ (popcount k) := by
  rw [← neg_one_pow_ite]
  unfold involSign
  rcases (by omega : popcount k % 4 = 0 ∨ popcount k % 4 = 1 ∨ popcount k % 4 = 2 ∨ popcount k % 4 = 3)
    with e | e | e | e <;> simp [e] <;> omega

theorem involSign_conjugate (k : Nat) :
    involSign [1, 2] k = (-1 : Int) ^ (popcount k * (popcount k + 1) / 2) := by
  rw [← neg_one_pow_ite]
  have := tri_mod (popcount k + 1)
  rw [Nat.add_sub_cancel, Nat.mul_comm] at this
  unfold involSign
  generalize popcount k * (popcount k + 1) / 2 = T at *
  rcases (by omega : popcount k % 4 = 0 ∨ popcount k % 4 = 1 ∨ popcount k % 4 = 2 ∨ popcount k % 4 = 3)
    with e | e | e | e <;> simp [e] <;> split at this <;> omega

/-- the sign relating `e_J e_I` to `e_I e_J`, from grades -/
def swapSgn (I J : Nat) : Int :=
  sgn ((decide (popcount I % 2 = 1) && decide (popcount J % 2 = 1)) != decide (popcount (I &&& J) % 2 = 1))

theorem computeSign_swap (c : Cfg) (h : Cfg.Adm c) (I J : Nat) (hI : I < 2 ^ c.d) (hJ : J < 2 ^ c.d) :
    c.computeSign J I = swapSgn I J * c.computeSign I J := by
  have hl := Cfg.sigBits_length c h
  rw [Cfg.computeSign_twist c h J I hJ hI, Cfg.computeSign_twist c h I J hI hJ, Nat.xor_comm J I,
    csign_swap c.sigBits I J, hl, parity_eq_popcount _ _ hI, parity_eq_popcount _ _ hJ,
    parity_eq_popcount _ _ (Nat.and_lt_two_pow I hJ)]
  unfold swapSgn
  ring


theorem rev_table : ∀ r < 4, ∀ s < 4, ∀ m < 2, ∀ g < 4, (g + 2 * m) % 4 = (r + s) % 4 →
    (if [2, 3].contains g then -1 else 1 : Int) =
      (if ((decide (r % 2 = 1) && decide (s % 2 = 1)) != decide (m % 2 = 1)) then -1 else 1) *
      (if [2, 3].contains r then -1 else 1) * (if [2, 3].contains s then -1 else 1) := by
  decide

theorem conj_table : ∀ r < 4, ∀ s < 4, ∀ m < 2, ∀ g < 4, (g + 2 * m) % 4 = (r + s) % 4 →
    (if [1, 2].contains g then -1 else 1 : Int) =
      (if ((decide (r % 2 = 1) && decide (s % 2 = 1)) != decide (m % 2 = 1)) then -1 else 1) *
      (if [1, 2].contains r then -1 else 1) * (if [1, 2].contains s then -1 else 1) := by
  decide

theorem invol_table : ∀ r < 4, ∀ s < 4, ∀ m < 2, ∀ g < 4, (g + 2 * m) % 4 = (r + s) % 4 →
    (if [1, 3].contains g then -1 else 1 : Int) =
      (if [1, 3].contains r then -1 else 1) * (if [1, 3].contains s then -1 else 1) := by
  decide

theorem involSign_rev_xor (I J : Nat) :
    involSign [2, 3] (I ^^^ J) = swapSgn I J * involSign [2, 3] I * involSign [2, 3] J := by
  have h := popcount_xor_add I J
  have := rev_table (popcount I % 4) (Nat.mod_lt _ (by omega)) (popcount J % 4) (Nat.mod_lt _ (by omega))
    (popcount (I &&& J) % 2) (Nat.mod_lt _ (by omega)) (popcount (I ^^^ J) % 4) (Nat.mod_lt _ (by omega))
    (by omega)
  rw [Nat.mod_mod_of_dvd _ (by decide : 2 ∣ 4), Nat.mod_mod_of_dvd _ (by decide : 2 ∣ 4), Nat.mod_mod] at this
  unfold involSign swapSgn sgn
  exact this

theorem involSign_conj_xor (I J : Nat) :
    involSign [1, 2] (I ^^^ J) = swapSgn I J * involSign [1, 2] I * involSign [1, 2] J := by
  have h := popcount_xor_add I J
  have := conj_table (popcount I % 4) (Nat.mod_lt _ (by omega)) (popcount J % 4) (Nat.mod_lt _ (by omega))
    (popcount (I &&& J) % 2) (Nat.mod_lt _ (by omega)) (popcount (I ^^^ J) % 4) (Nat.mod_lt _ (by omega))
    (by omega)
  rw [Nat.mod_mod_of_dvd _ (by decide : 2 ∣ 4), Nat.mod_mod_of_dvd _ (by decide : 2 ∣ 4), Nat.mod_mod] at this
  unfold involSign swapSgn sgn
  exact this

theorem involSign_invol_xor (I J : Nat) :
    involSign [1, 3] (I ^^^ J) = involSign [1, 3] I * involSign [1, 3] J := by
  have h := popcount_xor_add I J
  have := invol_table (popcount I % 4) (Nat.mod_lt _ (by omega)) (popcount J % 4) (Nat.mod_lt _ (by omega))
    (popcount (I &&& J) % 2) (Nat.mod_lt _ (by omega)) (popcount (I ^^^ J) % 4) (Nat.mod_lt _ (by omega))
    (by omega)
  unfold involSign
  exact this

noncomputable section
variable {α : Type} [CommRing α]

/-- all stored blades lie inside the algebra -/
def InRange (c : Cfg) (a : ℕ →₀ α) : Prop := ∀ k ∈ a.support, k < 2 ^ c.d

theorem inRange_den (c : Cfg) (x : MV α) (hx : ∀ p ∈ x, p.1 < 2 ^ c.d) : InRange c (den x) := by
  classical
  induction x with
  | nil => intro k hk; simp at hk
  | cons p x ih =>
    intro k hk
    rw [den_cons] at hk
    rcases Finset.mem_union.mp (Finsupp.support_add hk) with h1 | h1
    · have := Finsupp.support_single_subset h1
      simp only [Finset.mem_singleton] at this
      subst this; exact hx p (by simp)
    · exact ih (fun q hq => hx q (by simp [hq])) k h1

theorem inRange_clMulS (c : Cfg) (a b : ℕ →₀ α) (ha : InRange c a) (hb : InRange c b) :
    InRange c (clMulS c.computeSign a b) := by
  classical
  intro k hk
  unfold clMulS bilin at hk
  have h1 := Finsupp.support_sum hk
  rw [Finset.mem_biUnion] at h1
  obtain ⟨i, hi, h2⟩ := h1
  have h3 := Finsupp.support_sum h2
  rw [Finset.mem_biUnion] at h3
  obtain ⟨j, hj, h4⟩ := h3
  have := Finsupp.support_single_subset h4
  simp only [Finset.mem_singleton] at this
  subst this
  exact Nat.xor_lt_two_pow (ha i hi) (hb j hj)

/-- associativity of the geometric product of the real algebra's model -/
theorem clMulS_assoc_cfg (c : Cfg) (h : Cfg.Adm c) (a b d : ℕ →₀ α)
    (ha : InRange c a) (hb : InRange c b) (hd : InRange c d) :
    clMulS c.computeSign (clMulS c.computeSign a b) d = clMulS c.computeSign a (clMulS c.computeSign b d) := by
  classical
  simp only [clMulS, bilin]
  rw [Finsupp.sum_sum_index (by intro; simp) (by intro i x y; simp [mul_add, add_mul])]
  refine Finsupp.sum_congr fun i hi => ?_
  rw [Finsupp.sum_sum_index (by intro; simp) (by intro i x y; simp [mul_add, add_mul])]
  conv_rhs => rw [Finsupp.sum_sum_index (by intro; simp) (by intro i x y; simp [mul_add])]
  refine Finsupp.sum_congr fun j hj => ?_
  rw [Finsupp.sum_single_index (by simp)]
  conv_rhs => rw [Finsupp.sum_sum_index (by intro; simp) (by intro i x y; simp [mul_add])]
  refine Finsupp.sum_congr fun k hk => ?_
  rw [Finsupp.sum_single_index (by simp)]
  rw [Nat.xor_assoc]
  congr 1
  have h2 := congrArg (Int.cast (R := α)) (Cfg.computeSign_cocycle c h i j k (ha i hi) (hb j hj) (hd k hk))
  push_cast at h2
  linear_combination (a i * b j * d k) * h2

theorem bilin_congr (s s' : Nat → Nat → Int) (ko) (a b : ℕ →₀ α)
    (h : ∀ i ∈ a.support, ∀ j ∈ b.support, s i j = s' i j) : bilin s ko a b = bilin s' ko a b := by
  unfold bilin
  refine Finsupp.sum_congr fun i hi => ?_
  refine Finsupp.sum_congr fun j hj => ?_
  rw [h i hi j hj]

theorem lin_congr (f g : Nat → Int) (a : ℕ →₀ α) (h : ∀ k ∈ a.support, f k = g k) : lin f a = lin g a := by
  unfold lin
  refine Finsupp.sum_congr fun k hk => ?_
  rw [h k hk]

theorem lin_one (a : ℕ →₀ α) : lin (fun _ => 1) a = a := by
  unfold lin
  simp

theorem lin_lin (f g : Nat → Int) (a : ℕ →₀ α) : lin f (lin g a) = lin (fun k => f k * g k) a := by
  induction a using Finsupp.induction_linear with
  | zero => simp
  | add x y h1 h2 => rw [lin_add, lin_add, lin_add, h1, h2]
  | single k v => rw [lin_single, lin_single, lin_single]; congr 1; push_cast; ring

theorem lin_bilin (f : Nat → Int) (s ko) (a b : ℕ →₀ α) :
    lin f (bilin s ko a b) = bilin (fun i j => f (ko i j) * s i j) ko a b := by
  induction a using Finsupp.induction_linear with
  | zero => simp
  | add x y h1 h2 => rw [bilin_add_left, bilin_add_left, lin_add, h1, h2]
  | single i v =>
    induction b using Finsupp.induction_linear with
    | zero => simp
    | add x y h1 h2 => rw [bilin_add_right, bilin_add_right, lin_add, h1, h2]
    | single j w =>
      rw [bilin_single_single, bilin_single_single, lin_single]; congr 1; push_cast; ring

theorem bilin_lin (f g : Nat → Int) (s ko) (a b : ℕ →₀ α) :
    bilin s ko (lin f a) (lin g b) = bilin (fun i j => s i j * f i * g j) ko a b := by
  induction a using Finsupp.induction_linear with
  | zero => simp
  | add x y h1 h2 => rw [lin_add, bilin_add_left, bilin_add_left, h1, h2]
  | single i v =>
    induction b using Finsupp.induction_linear with
    | zero => simp
    | add x y h1 h2 => rw [lin_add, bilin_add_right, bilin_add_right, h1, h2]
    | single j w =>
      rw [lin_single, lin_single, bilin_single_single, bilin_single_single]; congr 1; push_cast; ring

/-- a blade-wise sign map that is compatible with swapping is an anti-automorphism -/
theorem antiaut_of_blade (c : Cfg) (h : Cfg.Adm c) (f : Nat → Int)
    (hf : ∀ I J, f (I ^^^ J) = swapSgn I J * f I * f J)
    (a b : ℕ →₀ α) (ha : InRange c a) (hb : InRange c b) :
    lin f (clMulS c.computeSign a b) = clMulS c.computeSign (lin f b) (lin f a) := by
  rw [clMulS_swap_aux _ (lin f a) (lin f b), bilin_lin]
  unfold clMulS
  rw [lin_bilin]
  apply bilin_congr
  intro i hi j hj
  rw [computeSign_swap c h i j (ha i hi) (hb j hj), hf]
  ring

theorem aut_of_blade (c : Cfg) (f : Nat → Int)
    (hf : ∀ I J, f (I ^^^ J) = f I * f J)
    (a b : ℕ →₀ α) :
    lin f (clMulS c.computeSign a b) = clMulS c.computeSign (lin f a) (lin f b) := by
  unfold clMulS
  rw [bilin_lin, lin_bilin]
  apply bilin_congr
  intro i hi j hj
  rw [hf]
  ring


/-- C04: reversion is an anti-automorphism of the geometric product -/
theorem reverse_antiaut (c : Cfg) (h : Cfg.Adm c) (a b : ℕ →₀ α) (ha : InRange c a) (hb : InRange c b) :
    lin (involSign [2, 3]) (clMulS c.computeSign a b) =
      clMulS c.computeSign (lin (involSign [2, 3]) b) (lin (involSign [2, 3]) a) :=
  antiaut_of_blade c h _ involSign_rev_xor a b ha hb

/-- C04: Clifford conjugation is an anti-automorphism -/
theorem conjugate_antiaut (c : Cfg) (h : Cfg.Adm c) (a b : ℕ →₀ α) (ha : InRange c a) (hb : InRange c b) :
    lin (involSign [1, 2]) (clMulS c.computeSign a b) =
      clMulS c.computeSign (lin (involSign [1, 2]) b) (lin (involSign [1, 2]) a) :=
  antiaut_of_blade c h _ involSign_conj_xor a b ha hb

set_option linter.unusedVariables false in
/-- C04: grade involution is an automorphism -/
theorem involute_aut (c : Cfg) (h : Cfg.Adm c) (a b : ℕ →₀ α) (ha : InRange c a) (hb : InRange c b) :
    lin (involSign [1, 3]) (clMulS c.computeSign a b) =
      clMulS c.computeSign (lin (involSign [1, 3]) a) (lin (involSign [1, 3]) b) :=
  aut_of_blade c _ involSign_invol_xor a b

/-- C14: the relabelling map `e_K^custom ↦ ε_K • e_K` is a homomorphism onto the default-basis algebra of the
    bit-ordered signature -/
theorem relabel_hom (c : Cfg) (h : Cfg.Adm c) (a b : ℕ →₀ α) (ha : InRange c a) (hb : InRange c b) :
    lin c.epsK (clMulS c.computeSign a b) = clMul c.sigBits (lin c.epsK a) (lin c.epsK b) := by
  unfold clMul clMulS
  rw [bilin_lin, lin_bilin]
  apply bilin_congr
  intro i hi j hj
  have hI := ha i hi
  have hJ := hb j hj
  have h1 := Cfg.epsK_mul_self c h _ (Nat.xor_lt_two_pow hI hJ)
  rw [Cfg.computeSign_twist c h i j hI hJ]
  linear_combination (c.epsK i * c.epsK j * csign c.sigBits i j) * h1

/-- C14: the relabelling map is its own inverse on multivectors of the algebra -/
theorem relabel_involutive (c : Cfg) (h : Cfg.Adm c) (a : ℕ →₀ α) (ha : InRange c a) :
    lin c.epsK (lin c.epsK a) = a := by
  rw [lin_lin, lin_congr _ (fun _ => 1) a (fun k hk => Cfg.epsK_mul_self c h k (ha k hk)), lin_one]


end
end Kingdon

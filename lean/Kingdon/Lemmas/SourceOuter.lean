/-
  The outer series `codegen_outerexp` / `codegen_outersin` / `codegen_outercos` (kingdon/codegen.py) as translated from the
  source, instantiated with the model's operators over a field: the terms are the wedge powers divided by j!, the loop
  terminates within `d` iterations, and the results denote the finite sums  Σ_{j ≤ d} x^{∧j} / j!  (all / odd / even j).
  In the library `Ws[-1] ^ x` runs through `OperatorDict.__call__` on symbolic operands, which drops the coefficients
  that simplify to zero; `isZero` is that test and `if Wj:` is "some coefficient is left".
-/
import Kingdon.Lemmas.SourceOuterOps
import Kingdon.Lemmas.SeriesLemmas
import Kingdon.Lemmas.Products
import Kingdon.Lemmas.Linear
import Mathlib.Algebra.BigOperators.Group.Finset.Basic
import Mathlib.Data.Nat.Factorial.Basic
import Mathlib.Algebra.CharZero.Defs
import Kingdon.Lemmas.Duality
import Mathlib.Tactic.Ring
set_option linter.unusedSectionVars false
namespace Kingdon.SrcEq
open Kingdon Finsupp
variable {α : Type} [Field α] [CharZero α]

/-- the wedge product on denotations (C03: `op_refines`) -/
noncomputable def wedge (c : Cfg) (X Y : ℕ →₀ α) : ℕ →₀ α :=
  bilin (gradedTable c.computeSign fun r s g => g == r + s) (· ^^^ ·) X Y

/-- `X^{∧j}`: `wpow 0 = 1`, `wpow (j+1) = wpow j ∧ X` -/
noncomputable def wpow (c : Cfg) (X : ℕ →₀ α) : Nat → (ℕ →₀ α)
  | 0 => single 0 1
  | j + 1 => wedge c (wpow c X j) X


/-! ### algebraic helpers -/

theorem oe_bilin_smul_left (s ko) (u : α) (a b : ℕ →₀ α) : bilin s ko (u • a) b = u • bilin s ko a b := by
  induction a using Finsupp.induction_linear with
  | zero => simp
  | add x y h1 h2 => rw [smul_add, bilin_add_left, bilin_add_left, smul_add, h1, h2]
  | single i v =>
    induction b using Finsupp.induction_linear with
    | zero => simp
    | add x y h1 h2 => rw [bilin_add_right, bilin_add_right, smul_add, h1, h2]
    | single j w =>
      rw [smul_single, bilin_single_single, bilin_single_single, smul_single, smul_eq_mul, smul_eq_mul]
      congr 1; ring

theorem oe_wedge_smul_left (c : Cfg) (u : α) (X Y : ℕ →₀ α) : wedge c (u • X) Y = u • wedge c X Y :=
  oe_bilin_smul_left _ _ u X Y

theorem oe_wedge_zero_left (c : Cfg) (Y : ℕ →₀ α) : wedge c 0 Y = 0 := bilin_zero_left _ _ Y

theorem oe_computeSign_zero_left (c : Cfg) (h : Cfg.Adm c) (I : Nat) : c.computeSign 0 I = 1 := by
  by_cases hI : I < 2 ^ c.d
  · exact c.computeSign_zero_left h I hI
  · have e := c.nameOf_out h I (by omega)
    unfold Cfg.computeSign
    rw [Nat.zero_xor, e]
    simp [swapBlades, phase1, phase2]

theorem oe_popcount_zero : popcount 0 = 0 := by simp [popcount]

theorem oe_wedge_one_left (c : Cfg) (h : Cfg.Adm c) (X : ℕ →₀ α) : wedge c (single 0 1) X = X := by
  unfold wedge
  rw [bilin_single_left]
  conv_rhs => rw [← Finsupp.sum_single X]
  refine Finsupp.sum_congr fun i _ => ?_
  unfold gradedTable
  rw [Nat.zero_xor, oe_popcount_zero]
  simp [oe_computeSign_zero_left c h i]

theorem oe_wpow_zero_of_le (c : Cfg) (X : ℕ →₀ α) (n m : Nat) (hnm : n ≤ m) (h0 : wpow c X n = 0) : wpow c X m = 0 := by
  induction m with
  | zero =>
    have : n = 0 := by omega
    subst this; exact h0
  | succ m ih =>
    by_cases e : n = m + 1
    · subst e; exact h0
    · show wedge c (wpow c X m) X = 0
      rw [ih (by omega), oe_wedge_zero_left]

theorem oe_den_map_div (t : α) (m : MV α) : den (m.map fun kv => (kv.1, kv.2 / t)) = t⁻¹ • den m := by
  induction m with
  | nil => simp
  | cons p m ih => rw [List.map_cons, den_cons, den_cons, ih, smul_add, smul_single, smul_eq_mul, div_eq_inv_mul]

/-- one step of the series on the model's multivectors: `Ws[-1] ^ x`, zero filter, division by `n` -/
def nextTerm (c : Cfg) (isZero : α → Bool) (x w : MV α) (n : Nat) : MV α :=
  ((op c w x).filter fun kv => !isZero kv.2).map fun kv => (kv.1, kv.2 / (n : α))

theorem oe_nextTerm_den (c : Cfg) (hr : TableRange c.computeSign) (isZero : α → Bool) (hz : ∀ v, isZero v = true → v = 0)
    (x w : MV α) (n : Nat) (hw : den w = ((n.factorial : α))⁻¹ • wpow c (den x) n) :
    den (nextTerm c isZero x w (n + 1)) = (((n + 1).factorial : α))⁻¹ • wpow c (den x) (n + 1) := by
  unfold nextTerm
  rw [oe_den_map_div, filter_zero_den isZero hz, op_den c hr, hw]
  show _ • wedge c _ _ = _
  rw [oe_wedge_smul_left, smul_smul, Nat.factorial_succ]
  push_cast
  rw [mul_inv]
  rfl

theorem oe_factorial_ne (n : Nat) : ((n.factorial : α)) ≠ 0 := by
  exact_mod_cast n.factorial_ne_zero

/-! ### the loop -/

abbrev OSt (α : Type) := List (Py.Dict Int α) × Int × Bool

/-- the body of the `while` loop of `codegen_outerexp`, as elaborated (state: `Ws, j, broke`) -/
def outerBody (k : Int) (ops : Src.Ops α) (x : Py.Dict Int α) (_i : Nat) (s : OSt α) : Py.M (ForInStep (OSt α)) :=
  if (!decide (s.2.1 ≤ k)) = true then pure (ForInStep.done (s.1, s.2.1, s.2.2))
  else do
    let w ← Py.getItem s.1 (-(1 : Int))
    if Py.truthy (ops.divInt (ops.op w x) s.2.1) = true then
      pure (ForInStep.yield (Py.append s.1 (ops.divInt (ops.op w x) s.2.1), s.2.1 + (1 : Int), s.2.2))
    else pure (ForInStep.done (s.1, s.2.1, true))

def outerFinish (k : Int) (s : OSt α) : Py.M (List (Py.Dict Int α)) :=
  if (!s.2.2 && decide (s.2.1 ≤ k)) = true then throw "FUEL" else pure s.1

def outerFinishSum (k : Int) (ops : Src.Ops α) (s : OSt α) : Py.M (Py.Dict Int α) :=
  if (!s.2.2 && decide (s.2.1 ≤ k)) = true then throw "FUEL" else Py.reduce ops.add s.1

theorem outerexp_terms_unfold (alg : Src.Alg) (ops : Src.Ops α) (x : Py.Dict Int α) :
    Src.outerexp_terms alg ops x =
      (forIn (List.range alg.d.toNat) (([ops.one, x], (2 : Int), false) : OSt α) (outerBody alg.d ops x)) >>= outerFinish alg.d := rfl

theorem codegen_outerexp_unfold (alg : Src.Alg) (ops : Src.Ops α) (x : Py.Dict Int α) :
    Src.codegen_outerexp alg ops x =
      (forIn (List.range alg.d.toNat) (([ops.one, x], (2 : Int), false) : OSt α) (outerBody alg.d ops x)) >>= outerFinishSum alg.d ops := rfl

theorem oe_getItem_last {β : Type} (l : List β) (h : 0 < l.length) :
    Py.getItem l (-(1 : Int)) = .ok (l[l.length - 1]'(by omega)) := by
  unfold Py.getItem Py.normIdx
  have e : (-(-(1 : Int))).toNat = 1 := rfl
  have hn : ¬ (0 ≤ (-(1 : Int))) := by omega
  rw [if_neg hn, e, if_pos (by omega)]
  simp only [List.getElem?_eq_getElem (show l.length - 1 < l.length by omega)]
  rfl

theorem oe_step_ops (c : Cfg) (isZero : α → Bool) (x w : MV α) (n : Nat) :
    (outerOps c isZero).divInt ((outerOps c isZero).op (castMV w) (castMV x)) (Int.ofNat n) = castMV (nextTerm c isZero x w n) := by
  show List.map _ (castMV _) = _
  rw [uncast_cast, uncast_cast]
  unfold nextTerm castMV
  rw [List.map_map, List.map_map]
  apply List.map_congr_left
  intro kv _
  simp

theorem oe_forIn_yield {σ : Type} (i : Nat) (l : List Nat) (init b : σ) (f : Nat → σ → Py.M (ForInStep σ))
    (h : f i init = .ok (.yield b)) : forIn (i :: l) init f = forIn l b f := by
  rw [List.forIn_cons, h]; rfl
theorem oe_forIn_done {σ : Type} (i : Nat) (l : List Nat) (init b : σ) (f : Nat → σ → Py.M (ForInStep σ))
    (h : f i init = .ok (.done b)) : forIn (i :: l) init f = .ok b := by
  rw [List.forIn_cons, h]; rfl

theorem oe_ofNat_le (a b : Nat) : decide (Int.ofNat a ≤ Int.ofNat b) = decide (a ≤ b) := by
  simp only [decide_eq_decide]; exact Int.ofNat_le

/-- the loop invariant: entry `j` denotes `X^{∧j} / j!` -/
def TermsOK (c : Cfg) (x : MV α) (Ws : List (MV α)) : Prop :=
  ∀ j (hj : j < Ws.length), den Ws[j] = ((j.factorial : α))⁻¹ • wpow c (den x) j

theorem oe_body_stop (c : Cfg) (isZero : α → Bool) (x : MV α) (i : Nat) (Ws : List (MV α)) (b : Bool) (h : c.d < Ws.length) :
    outerBody (Int.ofNat c.d) (outerOps c isZero) (castMV x) i (Ws.map castMV, Int.ofNat Ws.length, b) =
      .ok (.done (Ws.map castMV, Int.ofNat Ws.length, b)) := by
  have e : decide (Ws.length ≤ c.d) = false := by simp; omega
  simp only [outerBody, oe_ofNat_le, e]
  rfl

theorem oe_body_go (c : Cfg) (isZero : α → Bool) (x : MV α) (i : Nat) (Ws : List (MV α)) (b : Bool) (h0 : 0 < Ws.length)
    (h : Ws.length ≤ c.d) :
    outerBody (Int.ofNat c.d) (outerOps c isZero) (castMV x) i (Ws.map castMV, Int.ofNat Ws.length, b) =
      .ok (if (nextTerm c isZero x (Ws[Ws.length - 1]'(by omega)) Ws.length).isEmpty then .done (Ws.map castMV, Int.ofNat Ws.length, true)
        else .yield ((Ws ++ [nextTerm c isZero x (Ws[Ws.length - 1]'(by omega)) Ws.length]).map castMV,
          Int.ofNat (Ws ++ [nextTerm c isZero x (Ws[Ws.length - 1]'(by omega)) Ws.length]).length, b)) := by
  have e : decide (Ws.length ≤ c.d) = true := by simp; omega
  have hl : 0 < (Ws.map castMV).length := by simpa using h0
  have hg := oe_getItem_last (Ws.map castMV) hl
  simp only [List.length_map, List.getElem_map] at hg
  simp only [outerBody, oe_ofNat_le, e, hg]
  show (if Py.truthy _ = true then _ else _) = _
  rw [oe_step_ops]
  generalize nextTerm c isZero x (Ws[Ws.length - 1]'(by omega)) Ws.length = t
  cases t with
  | nil => rfl
  | cons p t =>
    simp only [List.isEmpty_cons, Bool.false_eq_true, if_false]
    simp [Py.truthy, Py.Truthy.truthy, castMV, Py.append, pure, Except.pure]

theorem oe_termsOK_snoc (c : Cfg) (hr : TableRange c.computeSign) (isZero : α → Bool) (hz : ∀ v, isZero v = true → v = 0)
    (x : MV α) (Ws : List (MV α)) (h0 : 0 < Ws.length) (hok : TermsOK c x Ws) :
    TermsOK c x (Ws ++ [nextTerm c isZero x (Ws[Ws.length - 1]'(by omega)) Ws.length]) := by
  intro j hj
  by_cases hlt : j < Ws.length
  · rw [List.getElem_append_left hlt]; exact hok j hlt
  · have hj' : j = Ws.length := by simp at hj; omega
    subst hj'
    rw [List.getElem_append_right (Nat.le_refl _)]
    simp only [Nat.sub_self, List.getElem_cons_zero]
    have hw := hok (Ws.length - 1) (by omega)
    have := oe_nextTerm_den c hr isZero hz x _ (Ws.length - 1) hw
    rwa [Nat.sub_add_cancel h0] at this

theorem oe_loop_spec (c : Cfg) (hr : TableRange c.computeSign) (isZero : α → Bool) (hz : ∀ v, isZero v = true → v = 0) (x : MV α)
    (l : List Nat) : ∀ (Ws : List (MV α)), 0 < Ws.length → TermsOK c x Ws → c.d + 1 ≤ l.length + Ws.length →
      ∃ (Ws' : List (MV α)) (b : Bool),
        forIn l ((Ws.map castMV, Int.ofNat Ws.length, false) : OSt α) (outerBody (Int.ofNat c.d) (outerOps c isZero) (castMV x)) =
          .ok (Ws'.map castMV, Int.ofNat Ws'.length, b) ∧
        TermsOK c x Ws' ∧ Ws.length ≤ Ws'.length ∧ Ws'.length ≤ max Ws.length (c.d + 1) ∧
        (b = true → wpow c (den x) Ws'.length = 0) ∧ (b = false → c.d < Ws'.length) := by
  induction l with
  | nil =>
    intro Ws h0 hok hf
    refine ⟨Ws, false, rfl, hok, Nat.le_refl _, Nat.le_max_left _ _, by simp, ?_⟩
    intro _; simp at hf; omega
  | cons i l ih =>
    intro Ws h0 hok hf
    by_cases hd : c.d < Ws.length
    · refine ⟨Ws, false, ?_, hok, Nat.le_refl _, Nat.le_max_left _ _, by simp, fun _ => hd⟩
      exact oe_forIn_done _ _ _ _ _ (oe_body_stop c isZero x i Ws false hd)
    · have hle : Ws.length ≤ c.d := by omega
      have hb := oe_body_go c isZero x i Ws false h0 hle
      by_cases he : (nextTerm c isZero x (Ws[Ws.length - 1]'(by omega)) Ws.length).isEmpty = true
      · rw [if_pos he] at hb
        refine ⟨Ws, true, oe_forIn_done _ _ _ _ _ hb, hok, Nat.le_refl _, Nat.le_max_left _ _, ?_, by simp⟩
        intro _
        have hw := hok (Ws.length - 1) (by omega)
        have hden := oe_nextTerm_den c hr isZero hz x _ (Ws.length - 1) hw
        rw [Nat.sub_add_cancel h0, List.isEmpty_iff.mp he, den_nil] at hden
        have := hden.symm
        rw [smul_eq_zero] at this
        rcases this with h1 | h1
        · exact absurd (inv_eq_zero.mp h1) (oe_factorial_ne _)
        · exact h1
      · rw [if_neg he] at hb
        rw [oe_forIn_yield _ _ _ _ _ hb]
        obtain ⟨Ws', b, h1, h2, h3, h4, h5, h6⟩ := ih _ (by simp) (oe_termsOK_snoc c hr isZero hz x Ws h0 hok)
          (by simp only [List.length_cons, List.length_append, List.length_nil] at hf ⊢; omega)
        refine ⟨Ws', b, h1, h2, ?_, ?_, h5, h6⟩
        · simp only [List.length_append, List.length_cons, List.length_nil] at h3; omega
        · simp only [List.length_append, List.length_cons, List.length_nil] at h4; omega

theorem oe_castMV_injective : Function.Injective (castMV : MV α → Py.Dict Int α) := by
  intro a b h
  rw [← uncast_cast a, ← uncast_cast b, h]

theorem oe_termsOK_init (c : Cfg) (h : Cfg.Adm c) (x : MV α) : TermsOK c x [[(0, 1)], x] := by
  intro j hj
  match j, hj with
  | 0, _ => simp [wpow]
  | 1, _ =>
    simp only [List.getElem_cons_succ, List.getElem_cons_zero, Nat.factorial_one, Nat.cast_one, inv_one, one_smul]
    show den x = wedge c (single 0 1) (den x)
    rw [oe_wedge_one_left c h]

/-- the loop of the translated generator, run from the initial state -/
theorem oe_loop_run (c : Cfg) (h : c.admissible = true) (isZero : α → Bool) (hz : ∀ v, isZero v = true → v = 0) (x : MV α) :
    ∃ (Ws : List (MV α)) (b : Bool),
      forIn (List.range (algOf c).d.toNat) (([(outerOps c isZero).one, castMV x], (2 : Int), false) : OSt α)
          (outerBody (algOf c).d (outerOps c isZero) (castMV x)) = .ok (Ws.map castMV, Int.ofNat Ws.length, b) ∧
      (b = false → c.d < Ws.length) ∧
      2 ≤ Ws.length ∧ Ws.length ≤ max 2 (c.d + 1) ∧ TermsOK c x Ws ∧
      (∀ j, Ws.length ≤ j → j ≤ c.d → wpow c (den x) j = 0) := by
  have ha := Cfg.adm_of_admissible c h
  have hr := Cfg.tableRange_of_adm c ha
  have hd : (algOf c).d = Int.ofNat c.d := rfl
  have hn : (Int.ofNat c.d).toNat = c.d := rfl
  rw [hd, hn]
  obtain ⟨Ws, b, h1, h2, h3, h4, h5, h6⟩ := oe_loop_spec c hr isZero hz x (List.range c.d) [[(0, 1)], x] (by simp)
    (oe_termsOK_init c ha x) (by simp)
  refine ⟨Ws, b, h1, h6, h3, h4, h2, ?_⟩
  intro j hj hjd
  cases b with
  | true => exact oe_wpow_zero_of_le c _ _ _ hj (h5 rfl)
  | false => have := h6 rfl; omega

theorem oe_terms_main (c : Cfg) (h : c.admissible = true) (isZero : α → Bool) (hz : ∀ v, isZero v = true → v = 0) (x : MV α) :
    ∃ Ws : List (MV α), Src.outerexp_terms (algOf c) (outerOps c isZero) (castMV x) = .ok (Ws.map castMV) ∧
      2 ≤ Ws.length ∧ Ws.length ≤ max 2 (c.d + 1) ∧ TermsOK c x Ws ∧
      (∀ j, Ws.length ≤ j → j ≤ c.d → wpow c (den x) j = 0) := by
  obtain ⟨Ws, b, h1, h2, h3⟩ := oe_loop_run c h isZero hz x
  refine ⟨Ws, ?_, h3⟩
  rw [outerexp_terms_unfold, h1]
  show outerFinish _ _ = _
  have hd : (algOf c).d = Int.ofNat c.d := rfl
  unfold outerFinish
  rw [hd, oe_ofNat_le]
  cases b with
  | true => rfl
  | false =>
    have e : decide (Ws.length ≤ c.d) = false := by have := h2 rfl; simp; omega
    simp only [e]
    rfl

/-- the translated term list exists (the `while` loop ends within `d` iterations), has between 2 and d+1 entries, its j-th entry
    denotes `X^{∧j} / j!`, and every wedge power beyond the list vanishes (the loop stopped at the first power without a
    non-zero coefficient, or at j > d) -/
theorem outerexp_terms_spec (c : Cfg) (h : c.admissible = true) (isZero : α → Bool) (hz : ∀ v, isZero v = true → v = 0) (x : MV α) :
    ∃ Ws : List (MV α), Src.outerexp_terms (algOf c) (outerOps c isZero) (castMV x) = .ok (Ws.map castMV) ∧
      2 ≤ Ws.length ∧ Ws.length ≤ max 2 (c.d + 1) := by
  obtain ⟨Ws, h1, h2, h3, _⟩ := oe_terms_main c h isZero hz x
  exact ⟨Ws, h1, h2, h3⟩

theorem outerexp_terms_den (c : Cfg) (h : c.admissible = true) (isZero : α → Bool) (hz : ∀ v, isZero v = true → v = 0) (x : MV α)
    (Ws : List (MV α)) (hW : Src.outerexp_terms (algOf c) (outerOps c isZero) (castMV x) = .ok (Ws.map castMV)) :
    (∀ j (hj : j < Ws.length), den Ws[j] = ((j.factorial : α))⁻¹ • wpow c (den x) j) ∧
    (∀ j, Ws.length ≤ j → j ≤ c.d → wpow c (den x) j = 0) := by
  obtain ⟨Ws', h1, _, _, h4, h5⟩ := oe_terms_main c h isZero hz x
  rw [h1] at hW
  have e : Ws' = Ws := (List.map_injective_iff.mpr oe_castMV_injective) (Except.ok.inj hW)
  subst e
  exact ⟨h4, h5⟩

/-! ### the sums -/

theorem oe_foldl_add (c : Cfg) (isZero : α → Bool) (L : List (MV α)) (a : MV α) :
    List.foldl (outerOps c isZero).add (castMV a) (L.map castMV) = castMV (L.foldl add a) := by
  induction L generalizing a with
  | nil => rfl
  | cons b L ih =>
    rw [List.map_cons, List.foldl_cons, List.foldl_cons, ← ih]
    show List.foldl _ (castMV (add (uncastMV (castMV a)) (uncastMV (castMV b)))) _ = _
    rw [uncast_cast, uncast_cast]

theorem oe_den_foldl_add (L : List (MV α)) (a : MV α) : den (L.foldl add a) = den a + (L.map den).sum := by
  induction L generalizing a with
  | nil => simp
  | cons b L ih => rw [List.foldl_cons, ih, add_den, List.map_cons, List.sum_cons, add_assoc]

theorem oe_reduce (c : Cfg) (isZero : α → Bool) (L : List (MV α)) (hL : L ≠ []) :
    ∃ r : MV α, Py.reduce (outerOps c isZero).add (L.map castMV) = .ok (castMV r) ∧ den r = (L.map den).sum := by
  cases L with
  | nil => exact absurd rfl hL
  | cons a L =>
    refine ⟨L.foldl add a, ?_, ?_⟩
    · show Except.ok (List.foldl _ (castMV a) (L.map castMV)) = _
      rw [oe_foldl_add]
    · rw [oe_den_foldl_add, List.map_cons, List.sum_cons]

theorem oe_sliceStep_map {β γ : Type} (g : β → γ) (l : List β) (lo st : Nat) :
    Py.sliceStep (l.map g) lo st = (Py.sliceStep l lo st).map g := by
  unfold Py.sliceStep
  rw [← List.map_drop, List.zipIdx_map, List.filter_map, List.map_map, List.map_map]
  rfl

theorem oe_sliceStep_snoc {β : Type} (l : List β) (a : β) (lo : Nat) :
    Py.sliceStep (l ++ [a]) lo 2 = Py.sliceStep l lo 2 ++ (if lo ≤ l.length ∧ (l.length - lo) % 2 = 0 then [a] else []) := by
  unfold Py.sliceStep
  by_cases h : lo ≤ l.length
  · rw [List.drop_append_of_le_length h, List.zipIdx_append, List.filter_append, List.map_append, List.zipIdx_singleton]
    congr 1
    simp only [List.length_drop, Nat.zero_add, h, true_and]
    by_cases h2 : (l.length - lo) % 2 = 0
    · simp [h2]
    · simp [h2]
  · have e1 : (l ++ [a]).drop lo = [] := by
      apply List.drop_eq_nil_of_le; simp; omega
    have e2 : l.drop lo = [] := by
      apply List.drop_eq_nil_of_le; omega
    rw [e1, e2, if_neg (by intro hh; exact h hh.1)]
    rfl

theorem oe_slice_ne {β : Type} (a b : β) (rest : List β) (lo : Nat) (hlo : lo ≤ 1) : Py.sliceStep (a :: b :: rest) lo 2 ≠ [] := by
  have hl : lo = 0 ∨ lo = 1 := by omega
  rcases hl with rfl | rfl <;> simp [Py.sliceStep]

theorem oe_slice_sum {M : Type} [AddCommMonoid M] (f : ℕ → M) (lo n : Nat) :
    (Py.sliceStep ((List.range n).map f) lo 2).sum =
      ∑ j ∈ (Finset.range n).filter (fun j => lo ≤ j ∧ (j - lo) % 2 = 0), f j := by
  induction n with
  | zero => simp [Py.sliceStep]
  | succ n ih =>
    rw [List.range_succ, List.map_append, List.map_cons, List.map_nil, oe_sliceStep_snoc, List.sum_append, ih,
      Finset.range_add_one, Finset.filter_insert, List.length_map, List.length_range]
    by_cases h : lo ≤ n ∧ (n - lo) % 2 = 0
    · rw [if_pos h, if_pos h, Finset.sum_insert (by simp), List.sum_singleton, add_comm]
    · rw [if_neg h, if_neg h, List.sum_nil, add_zero]

theorem oe_range_sum {M : Type} [AddCommMonoid M] (f : ℕ → M) (n : Nat) :
    ((List.range n).map f).sum = ∑ j ∈ Finset.range n, f j := by
  induction n with
  | zero => simp
  | succ n ih => rw [List.range_succ, List.map_append, List.sum_append, ih, Finset.sum_range_succ]; simp

/-- the term function -/
noncomputable def oeTerm (c : Cfg) (x : MV α) (j : Nat) : ℕ →₀ α := ((j.factorial : α))⁻¹ • wpow c (den x) j

theorem oe_map_den (c : Cfg) (x : MV α) (Ws : List (MV α)) (hok : TermsOK c x Ws) :
    Ws.map den = (List.range Ws.length).map (oeTerm c x) := by
  apply List.ext_getElem
  · simp
  · intro i h1 h2
    simp only [List.getElem_map, List.getElem_range]
    exact hok i (by simpa using h1)

theorem oe_sum_extend (c : Cfg) (x : MV α) (n : Nat) (p : ℕ → Prop) [DecidablePred p] (hn : n ≤ c.d + 1)
    (hz : ∀ j, n ≤ j → j ≤ c.d → wpow c (den x) j = 0) :
    ∑ j ∈ (Finset.range n).filter p, oeTerm c x j = ∑ j ∈ (Finset.range (c.d + 1)).filter p, oeTerm c x j := by
  apply Finset.sum_subset
  · exact Finset.filter_subset_filter _ (Finset.range_subset_range.mpr hn)
  · intro j hj hnj
    simp only [Finset.mem_filter, Finset.mem_range] at hj hnj
    unfold oeTerm
    rw [hz j (by by_contra hlt; exact hnj ⟨by omega, hj.2⟩) (by omega), smul_zero]

theorem oe_slice_main (c : Cfg) (h : c.admissible = true) (hd : 1 ≤ c.d) (isZero : α → Bool) (hz : ∀ v, isZero v = true → v = 0)
    (x : MV α) (lo : Nat) (hlo : lo ≤ 1) :
    ∃ r : MV α, (Src.outerexp_terms (algOf c) (outerOps c isZero) (castMV x) >>= fun Ws =>
                    (Py.reduce (outerOps c isZero).add (Py.sliceStep Ws lo 2) >>= fun r => pure r)) = .ok (castMV r) ∧
      den r = ∑ j ∈ (Finset.range (c.d + 1)).filter (fun j => lo ≤ j ∧ (j - lo) % 2 = 0), oeTerm c x j := by
  obtain ⟨Ws, h1, h2, h3, h4, h5⟩ := oe_terms_main c h isZero hz x
  rw [h1]
  show ∃ r : MV α, (Py.reduce _ (Py.sliceStep (Ws.map castMV) lo 2) >>= fun r => pure r) = _ ∧ _
  rw [oe_sliceStep_map]
  have hne : Py.sliceStep Ws lo 2 ≠ [] := by
    obtain ⟨a, b, rest, rfl⟩ : ∃ a b rest, Ws = a :: b :: rest := by
      match Ws, h2 with
      | a :: b :: rest, _ => exact ⟨a, b, rest, rfl⟩
    exact oe_slice_ne a b rest lo hlo
  obtain ⟨r, hr1, hr2⟩ := oe_reduce c isZero _ hne
  refine ⟨r, by rw [hr1]; rfl, ?_⟩
  rw [hr2, ← oe_sliceStep_map, oe_map_den c x Ws h4, oe_slice_sum]
  exact oe_sum_extend c x Ws.length _ (by have := Nat.max_eq_right (show 2 ≤ c.d + 1 by omega); omega) h5

/-- **outerexp**: the translated generator returns, and its result denotes Σ_{j ≤ d} X^{∧j} / j!  (for d ≥ 1) -/
theorem codegen_outerexp_den (c : Cfg) (h : c.admissible = true) (hd : 1 ≤ c.d) (isZero : α → Bool) (hz : ∀ v, isZero v = true → v = 0) (x : MV α) :
    ∃ r : MV α, Src.codegen_outerexp (algOf c) (outerOps c isZero) (castMV x) = .ok (castMV r) ∧
      den r = ∑ j ∈ Finset.range (c.d + 1), ((j.factorial : α))⁻¹ • wpow c (den x) j := by
  obtain ⟨Ws, b, h1, h2, h3, h4, h5, h6⟩ := oe_loop_run c h isZero hz x
  have hne : Ws ≠ [] := by intro e; rw [e] at h3; simp at h3
  obtain ⟨r, hr1, hr2⟩ := oe_reduce c isZero Ws hne
  refine ⟨r, ?_, ?_⟩
  · rw [codegen_outerexp_unfold, h1]
    show outerFinishSum _ _ _ = _
    have hd' : (algOf c).d = Int.ofNat c.d := rfl
    unfold outerFinishSum
    rw [hd', oe_ofNat_le]
    cases b with
    | true => exact hr1
    | false =>
      have e : decide (Ws.length ≤ c.d) = false := by have := h2 rfl; simp; omega
      simp only [e]
      exact hr1
  · rw [hr2, oe_map_den c x Ws h5, oe_range_sum]
    have := oe_sum_extend c x Ws.length (fun _ => True)
      (by have := Nat.max_eq_right (show 2 ≤ c.d + 1 by omega); omega) h6
    simpa [oeTerm] using this

/-- **outersin / outercos**: the odd / even terms -/
theorem codegen_outersin_den (c : Cfg) (h : c.admissible = true) (hd : 1 ≤ c.d) (isZero : α → Bool) (hz : ∀ v, isZero v = true → v = 0) (x : MV α) :
    ∃ r : MV α, Src.codegen_outersin (algOf c) (outerOps c isZero) (castMV x) = .ok (castMV r) ∧
      den r = ∑ j ∈ (Finset.range (c.d + 1)).filter (fun j => j % 2 = 1), ((j.factorial : α))⁻¹ • wpow c (den x) j := by
  obtain ⟨r, h1, h2⟩ := oe_slice_main c h hd isZero hz x 1 (Nat.le_refl _)
  refine ⟨r, h1, ?_⟩
  rw [h2]
  have e : (Finset.range (c.d + 1)).filter (fun j => 1 ≤ j ∧ (j - 1) % 2 = 0) = (Finset.range (c.d + 1)).filter (fun j => j % 2 = 1) := by
    apply Finset.filter_congr
    intro j _
    omega
  rw [e]
  rfl
theorem codegen_outercos_den (c : Cfg) (h : c.admissible = true) (hd : 1 ≤ c.d) (isZero : α → Bool) (hz : ∀ v, isZero v = true → v = 0) (x : MV α) :
    ∃ r : MV α, Src.codegen_outercos (algOf c) (outerOps c isZero) (castMV x) = .ok (castMV r) ∧
      den r = ∑ j ∈ (Finset.range (c.d + 1)).filter (fun j => j % 2 = 0), ((j.factorial : α))⁻¹ • wpow c (den x) j := by
  obtain ⟨r, h1, h2⟩ := oe_slice_main c h hd isZero hz x 0 (Nat.zero_le _)
  refine ⟨r, h1, ?_⟩
  rw [h2]
  have e : (Finset.range (c.d + 1)).filter (fun j => 0 ≤ j ∧ (j - 0) % 2 = 0) = (Finset.range (c.d + 1)).filter (fun j => j % 2 = 0) := by
    apply Finset.filter_congr
    intro j _
    simp
  rw [e]
  rfl

end Kingdon.SrcEq

/-
  The keyword-blade branch of `MultiVector.__new__` (`alg.multivector(e12=1, e31=2)`; kingdon/multivector.py) as translated
  from the source (`Src.mv_new_keywords`: the body of `if items and keys is None and values is None:`) is the model's
  `Con.keywordBranch`: same re-keying of permuted spellings with their parity sign, same refusals (unknown blade, a blade
  named twice, nothing left), same order of the result (the order of the algebra's basis).
-/
import Kingdon.Lemmas.SourceAccessors
import Kingdon.Model.Construct
namespace Kingdon.SrcEq
open Kingdon
variable {α : Type} [Neg α]

/-- the keyword arguments as python sees them: spelling (a string) ↦ value -/
def castItems (items : List (List Nat × α)) : Py.Dict (List Char) α := items.map fun p => (pyName p.1, p.2)

/-- the names of the keys the keyword branch returns (it only ever returns names) -/
def keyNames (ks : List Con.KeyIn) : List (List Char) := ks.map fun | .name n => pyName n | .int _ => []

/-- the body of the re-keying loop -/
def kwBody (alg : Src.Alg) (key : List Char) (items : Py.Dict (List Char) α) :
    Py.M (ForInStep (Py.Dict (List Char) α)) :=
  if Py.dictHas alg.canon2bin key = true then pure (ForInStep.yield items) else
  Src.blade2canon alg key >>= fun r =>
    if Py.dictHas alg.canon2bin r.1 = true then
      if Py.dictHas items r.1 = true then .error "ValueError" else
        Py.dictGet items key >>= fun value =>
          pure (ForInStep.yield (Py.dictSet (Py.dictDel items key) r.1 (if Py.truthy (r.2 % (2 : Int)) = true then -value else value)))
    else .error "ValueError"

/-- the final collection -/
def kwCollect (alg : Src.Alg) (items : Py.Dict (List Char) α) : Py.M (List (List Char) × List α) :=
  List.mapM (fun blade => if Py.dictHas items blade = true then
      Py.dictGet items blade >>= fun v => pure (some (blade, v)) else pure none) (Py.dictKeys alg.canon2bin) >>= fun l =>
    if (l.filterMap id).isEmpty = true then .error "ValueError"
    else .ok ((l.filterMap id).map (·.1), (l.filterMap id).map (·.2))

theorem mv_new_keywords_unfold (alg : Src.Alg) (items : Py.Dict (List Char) α) :
    Src.mv_new_keywords alg items = forIn (Py.dictKeys items) items (kwBody alg) >>= kwCollect alg := by
  unfold Src.mv_new_keywords
  dsimp only
  congr 1
  · congr 1
    funext key s
    unfold kwBody
    cases h1 : Py.dictHas alg.canon2bin key
    · simp only [Bool.not_false, if_true, Bool.false_eq_true, if_false]
      congr 1
      funext r
      obtain ⟨target, swaps⟩ := r
      dsimp only
      cases h2 : Py.dictHas alg.canon2bin target
      · rfl
      · simp only [Bool.not_true, Bool.false_eq_true, if_false, if_true]
        cases h3 : Py.dictHas s target
        · rfl
        · rfl
    · rfl

/-! ### the python dict operations on `castItems` -/

theorem pyName_beq (a b : List Nat) (ha : ∀ x ∈ a, x < 16) (hb : ∀ x ∈ b, x < 16) :
    (pyName a == pyName b) = (a == b) := by
  by_cases e : a = b
  · subst e; simp
  · have : pyName a ≠ pyName b := fun h => e (pyName_inj a b ha hb h)
    simp [e, this]

omit [Neg α] in
theorem dictHas_castItems (acc : List (List Nat × α)) (hacc : ∀ p ∈ acc, ∀ l ∈ p.1, l < 16)
    (sp : List Nat) (hsp : ∀ l ∈ sp, l < 16) :
    Py.dictHas (castItems acc) (pyName sp) = (acc.map (·.1)).contains sp := by
  unfold Py.dictHas castItems
  induction acc with
  | nil => rfl
  | cons p acc ih =>
    rw [List.map_cons, List.any_cons, List.map_cons, List.contains_cons,
      ih (fun q hq => hacc q (by simp [hq]))]
    dsimp only
    rw [pyName_beq p.1 sp (hacc p (by simp)) hsp]
    congr 1
    exact Bool.beq_comm

omit [Neg α] in
theorem find?_castItems (acc : List (List Nat × α)) (hacc : ∀ p ∈ acc, ∀ l ∈ p.1, l < 16)
    (sp : List Nat) (hsp : ∀ l ∈ sp, l < 16) :
    (castItems acc).find? (·.1 == pyName sp) =
      (acc.find? (·.1 == sp)).map fun p => (pyName p.1, p.2) := by
  unfold castItems
  induction acc with
  | nil => rfl
  | cons p acc ih =>
    rw [List.map_cons, List.find?_cons, List.find?_cons, ih (fun q hq => hacc q (by simp [hq]))]
    dsimp only
    rw [pyName_beq p.1 sp (hacc p (by simp)) hsp]
    cases p.1 == sp <;> rfl

omit [Neg α] in
theorem dictGet_castItems (acc : List (List Nat × α)) (hacc : ∀ p ∈ acc, ∀ l ∈ p.1, l < 16)
    (sp : List Nat) (hsp : ∀ l ∈ sp, l < 16) (p : List Nat × α) (hf : acc.find? (·.1 == sp) = some p) :
    Py.dictGet (castItems acc) (pyName sp) = .ok p.2 := by
  unfold Py.dictGet
  rw [find?_castItems acc hacc sp hsp, hf]
  rfl

omit [Neg α] in
theorem dictDel_castItems (acc : List (List Nat × α)) (hacc : ∀ p ∈ acc, ∀ l ∈ p.1, l < 16)
    (sp : List Nat) (hsp : ∀ l ∈ sp, l < 16) :
    Py.dictDel (castItems acc) (pyName sp) = castItems (acc.filter (·.1 != sp)) := by
  unfold Py.dictDel castItems
  induction acc with
  | nil => rfl
  | cons p acc ih =>
    rw [List.map_cons, List.filter_cons, List.filter_cons, ih (fun q hq => hacc q (by simp [hq]))]
    dsimp only
    rw [pyName_beq p.1 sp (hacc p (by simp)) hsp]
    cases h : p.1 == sp <;> simp [bne, h]

theorem dictSet_absent {κ ν : Type} [BEq κ] (d : Py.Dict κ ν) (k : κ) (v : ν) (h : Py.dictHas d k = false) :
    Py.dictSet d k v = d ++ [(k, v)] := by
  unfold Py.dictHas at h
  induction d with
  | nil => rfl
  | cons p d ih =>
    obtain ⟨k', v'⟩ := p
    rw [List.any_cons, Bool.or_eq_false_iff] at h
    unfold Py.dictSet
    dsimp only at h
    rw [h.1]
    simp only [Bool.false_eq_true, if_false, List.cons_append]
    rw [ih h.2]

theorem truthy_parity (swaps : Nat) : Py.truthy ((Int.ofNat swaps) % (2 : Int)) = decide (swaps % 2 = 1) := by
  show ((Int.ofNat swaps) % (2 : Int) != 0) = decide (swaps % 2 = 1)
  rcases Nat.mod_two_eq_zero_or_one swaps with h | h
  · have : (Int.ofNat swaps) % (2 : Int) = 0 := by simp only [Int.ofNat_eq_natCast]; omega
    rw [this, h]; rfl
  · have : (Int.ofNat swaps) % (2 : Int) = 1 := by simp only [Int.ofNat_eq_natCast]; omega
    rw [this, h]; rfl

/-! ### the re-keying loop -/

theorem kwBody_canonical (c : Cfg) (hb16 : ∀ n ∈ c.basis, ∀ l ∈ n, l < 16) (sp : List Nat) (hsp : ∀ l ∈ sp, l < 16)
    (hc : c.basis.contains sp = true) (items : Py.Dict (List Char) α) :
    kwBody (algOf c) (pyName sp) items = .ok (ForInStep.yield items) := by
  unfold kwBody
  rw [dictHas_canon2bin c hb16 sp hsp, hc]
  rfl

theorem kwBody_unknown (c : Cfg) (h : Cfg.Adm c) (h16 : ∀ v ∈ c.vecs, v < 16) (sp : List Nat) (hsp : ∀ l ∈ sp, l < 16)
    (hc : ¬ c.basis.contains sp = true) (hn : c.blade2canon sp = none) (items : Py.Dict (List Char) α) :
    kwBody (algOf c) (pyName sp) items = .error "ValueError" := by
  have hb16 : ∀ n ∈ c.basis, ∀ l ∈ n, l < 16 := fun n hn l hl => h16 l (h.names_letters n hn l hl)
  unfold kwBody
  rw [dictHas_canon2bin c hb16 sp hsp, if_neg hc, blade2canon_eq c h h16 sp hsp, hn]
  show (if Py.dictHas (algOf c).canon2bin (pyName sp) = true then _ else _) = _
  rw [dictHas_canon2bin c hb16 sp hsp, if_neg hc]

theorem kwBody_rekey (c : Cfg) (h : Cfg.Adm c) (h16 : ∀ v ∈ c.vecs, v < 16) (sp : List Nat) (hsp : ∀ l ∈ sp, l < 16)
    (hc : ¬ c.basis.contains sp = true) (target : List Nat) (swaps : Nat) (hn : c.blade2canon sp = some (target, swaps))
    (acc : List (List Nat × α)) (hacc : ∀ p ∈ acc, ∀ l ∈ p.1, l < 16) (v : α)
    (hf : acc.find? (·.1 == sp) = some (sp, v)) :
    kwBody (algOf c) (pyName sp) (castItems acc) =
      if (acc.map (·.1)).contains target = true then .error "ValueError"
      else .ok (ForInStep.yield (castItems (acc.filter (·.1 != sp) ++ [(target, if swaps % 2 = 1 then -v else v)]))) := by
  have hb16 : ∀ n ∈ c.basis, ∀ l ∈ n, l < 16 := fun n hn l hl => h16 l (h.names_letters n hn l hl)
  have ht := blade2canon_some_mem c sp target swaps hn
  have ht16 := hb16 target ht
  unfold kwBody
  rw [dictHas_canon2bin c hb16 sp hsp, if_neg hc, blade2canon_eq c h h16 sp hsp, hn]
  show (if Py.dictHas (algOf c).canon2bin (pyName target) = true then _ else _) = _
  rw [dictHas_canon2bin c hb16 target ht16, if_pos (by simpa using ht)]
  dsimp only
  rw [dictHas_castItems acc hacc target ht16]
  by_cases hm : (acc.map (·.1)).contains target = true
  · rw [if_pos hm, if_pos hm]
  · rw [if_neg hm, if_neg hm, dictGet_castItems acc hacc sp hsp _ hf]
    show Except.ok _ = _
    have hacc' : ∀ p ∈ acc.filter (·.1 != sp), ∀ l ∈ p.1, l < 16 := fun p hp => hacc p (List.mem_filter.mp hp).1
    have habs : Py.dictHas (castItems (acc.filter (·.1 != sp))) (pyName target) = false := by
      rw [dictHas_castItems _ hacc' target ht16]
      rw [Bool.eq_false_iff]
      intro hx
      apply hm
      rw [List.contains_iff_mem] at hx ⊢
      obtain ⟨q, hq, e⟩ := List.mem_map.mp hx
      exact List.mem_map.mpr ⟨q, (List.mem_filter.mp hq).1, e⟩
    rw [dictDel_castItems acc hacc sp hsp, dictSet_absent _ _ _ habs, truthy_parity]
    congr 2
    unfold castItems
    rw [List.map_append]
    congr 2
    by_cases hs : swaps % 2 = 1 <;> simp [hs]

theorem kw_loop (c : Cfg) (h : Cfg.Adm c) (h16 : ∀ v ∈ c.vecs, v < 16) :
    ∀ (rest acc : List (List Nat × α)),
      (∀ p ∈ acc, ∀ l ∈ p.1, l < 16) → (∀ p ∈ rest, ∀ l ∈ p.1, l < 16) → (rest.map (·.1)).Nodup →
      (∀ p ∈ rest, p.1 ∉ c.basis → acc.find? (·.1 == p.1) = some p) →
      match Con.rekeyItems c rest acc with
      | .ok re => forIn (rest.map fun p => pyName p.1) (castItems acc) (kwBody (algOf c)) = .ok (castItems re) ∧
          ∀ p ∈ re, ∀ l ∈ p.1, l < 16
      | .error _ => forIn (rest.map fun p => pyName p.1) (castItems acc) (kwBody (algOf c)) = .error "ValueError" := by
  intro rest
  induction rest with
  | nil => intro acc hacc _ _ _; exact ⟨rfl, hacc⟩
  | cons p rest ih =>
    obtain ⟨sp, v⟩ := p
    intro acc hacc hrest hnd hfind
    have hb16 : ∀ n ∈ c.basis, ∀ l ∈ n, l < 16 := fun n hn l hl => h16 l (h.names_letters n hn l hl)
    have hsp : ∀ l ∈ sp, l < 16 := hrest (sp, v) (by simp)
    have hrest' : ∀ p ∈ rest, ∀ l ∈ p.1, l < 16 := fun p hp => hrest p (by simp [hp])
    rw [List.map_cons, List.nodup_cons] at hnd
    rw [List.map_cons, List.forIn_cons]
    unfold Con.rekeyItems
    by_cases hc : c.basis.contains sp = true
    · rw [if_pos hc, kwBody_canonical c hb16 sp hsp hc]
      exact ih acc hacc hrest' hnd.2 (fun p hp => hfind p (by simp [hp]))
    · rw [if_neg hc]
      cases hn : c.blade2canon sp with
      | none =>
        rw [kwBody_unknown c h h16 sp hsp hc hn]
        rfl
      | some r =>
        obtain ⟨target, swaps⟩ := r
        have hf : acc.find? (·.1 == sp) = some (sp, v) := hfind (sp, v) (by simp) (by simpa using hc)
        rw [kwBody_rekey c h h16 sp hsp hc target swaps hn acc hacc v hf]
        dsimp only
        by_cases hm : (acc.map (·.1)).contains target = true
        · rw [if_pos hm, if_pos hm]
          rfl
        · rw [if_neg hm, if_neg hm]
          have ht := blade2canon_some_mem c sp target swaps hn
          refine ih _ ?_ hrest' hnd.2 ?_
          · intro p hp
            rcases List.mem_append.mp hp with hp | hp
            · exact hacc p (List.mem_filter.mp hp).1
            · rw [List.mem_singleton] at hp
              subst hp
              exact hb16 target ht
          · intro p hp hpb
            have hne : ¬ p.1 = sp := fun e => hnd.1 (List.mem_map.mpr ⟨p, hp, e⟩)
            have h0 := hfind p (by simp [hp]) hpb
            rw [List.find?_append, List.find?_filter]
            have : (fun a : List Nat × α => decide ((a.1 != sp) = true ∧ (a.1 == p.1) = true)) = fun x => x.1 == p.1 := by
              funext x
              by_cases e : x.1 = p.1
              · simp [e, hne]
              · simp [e]
            rw [this, h0]
            rfl

/-! ### the final collection -/

/-- a returned key as the python string -/
def keyName : Con.KeyIn → List Char
  | .name n => pyName n
  | .int _ => []

theorem keyNames_eq (ks : List Con.KeyIn) : keyNames ks = ks.map keyName := by
  unfold keyNames
  apply List.map_congr_left
  intro k _
  cases k <;> rfl

omit [Neg α] in
theorem kwCollect_step (re : List (List Nat × α)) (hre : ∀ p ∈ re, ∀ l ∈ p.1, l < 16) (n : List Nat) (hn : ∀ l ∈ n, l < 16) :
    (if Py.dictHas (castItems re) (pyName n) = true then
        Py.dictGet (castItems re) (pyName n) >>= fun v => pure (some (pyName n, v)) else pure none : Py.M (Option (List Char × α))) =
      .ok ((re.find? (·.1 == n)).map fun p => (pyName n, p.2)) := by
  cases hf : re.find? (·.1 == n) with
  | none =>
    have : Py.dictHas (castItems re) (pyName n) = false := by
      rw [dictHas_eq_isSome]
      unfold Py.dictGet?
      rw [find?_castItems re hre n hn, hf]
      rfl
    rw [this]
    rfl
  | some p =>
    have : Py.dictHas (castItems re) (pyName n) = true := by
      rw [dictHas_eq_isSome]
      unfold Py.dictGet?
      rw [find?_castItems re hre n hn, hf]
      rfl
    rw [this, if_pos rfl, dictGet_castItems re hre n hn p hf]
    rfl

omit [Neg α] in
theorem kwCollect_eq (c : Cfg) (hb16 : ∀ n ∈ c.basis, ∀ l ∈ n, l < 16) (re : List (List Nat × α))
    (hre : ∀ p ∈ re, ∀ l ∈ p.1, l < 16) (sel : List (Con.KeyIn × α))
    (hsel : sel = c.basis.filterMap fun n => (re.find? (·.1 == n)).map fun p => (Con.KeyIn.name n, p.2)) :
    kwCollect (algOf c) (castItems re) =
      if sel.isEmpty = true then .error "ValueError" else .ok (keyNames (sel.map (·.1)), sel.map (·.2)) := by
  unfold kwCollect
  have hk : Py.dictKeys (algOf c).canon2bin = c.basis.map pyName := by
    show (c.basis.map fun n => (pyName n, Int.ofNat (c.binOf n))).map (·.1) = _
    rw [List.map_map]
    rfl
  rw [hk, mapM_map_ok c.basis pyName _ (fun n => (re.find? (·.1 == n)).map fun p => (pyName n, p.2))
    (fun n hn => kwCollect_step re hre n (hb16 n hn))]
  show (if (List.filterMap id (c.basis.map _)).isEmpty = true then _ else _) = _
  have hpairs : List.filterMap id (c.basis.map fun n => (re.find? (·.1 == n)).map fun p => (pyName n, p.2)) =
      sel.map fun q => (keyName q.1, q.2) := by
    rw [List.filterMap_map, hsel, List.map_filterMap]
    apply List.filterMap_congr
    intro n _
    dsimp only [Function.comp, id]
    cases re.find? (·.1 == n) <;> rfl
  rw [hpairs, keyNames_eq]
  cases sel with
  | nil => rfl
  | cons q sel =>
    simp only [List.map_cons, List.isEmpty_cons, Bool.false_eq_true, if_false, List.map_map]
    rfl

/-! ### the branch -/

omit [Neg α] in
theorem find?_of_nodup (items : List (List Nat × α)) (hd : (items.map (·.1)).Nodup) :
    ∀ p ∈ items, items.find? (·.1 == p.1) = some p := by
  induction items with
  | nil => intro p hp; cases hp
  | cons q items ih =>
    intro p hp
    rw [List.map_cons, List.nodup_cons] at hd
    rw [List.find?_cons]
    rcases List.mem_cons.mp hp with e | hp'
    · subst e; simp
    · have hne : ¬ q.1 = p.1 := fun e => hd.1 (e ▸ List.mem_map.mpr ⟨p, hp', rfl⟩)
      have : (q.1 == p.1) = false := by simpa using hne
      rw [this]
      exact ih hd.2 p hp'

/-- **the translated keyword branch is the model's**: for an admissible configuration and keyword spellings over single hex
    digits, pairwise distinct as python keyword names are, the python returns exactly what `Con.keywordBranch` returns
    (names as strings), and raises `ValueError` exactly where the model does -/
theorem mv_new_keywords_eq (c : Cfg) (h : c.admissible = true) (items : List (List Nat × α))
    (hd : (items.map (·.1)).Nodup) (h16 : ∀ p ∈ items, ∀ l ∈ p.1, l < 16) :
    Src.mv_new_keywords (algOf c) (castItems items) =
      match Con.keywordBranch c items with
      | .ok (ks, vs) => .ok (keyNames ks, vs)
      | .error _ => .error "ValueError" := by
  have ha := Cfg.adm_of_admissible c h
  have hv := vecs16_of_admissible c h
  have hb16 : ∀ n ∈ c.basis, ∀ l ∈ n, l < 16 := fun n hn l hl => hv l (ha.names_letters n hn l hl)
  rw [mv_new_keywords_unfold]
  have hk : Py.dictKeys (castItems items) = items.map fun p => pyName p.1 := by
    unfold Py.dictKeys castItems
    rw [List.map_map]
    rfl
  rw [hk]
  have hl := kw_loop c ha hv items items h16 h16 hd (fun p hp _ => find?_of_nodup items hd p hp)
  unfold Con.keywordBranch
  cases hr : Con.rekeyItems c items items with
  | error e =>
    rw [hr] at hl
    dsimp only at hl
    rw [hl]
    rfl
  | ok re =>
    rw [hr] at hl
    obtain ⟨h1, h2⟩ := hl
    rw [h1]
    show kwCollect (algOf c) (castItems re) = _
    rw [kwCollect_eq c hb16 re h2 _ rfl]
    show _ = match (if _ then _ else _ : Except Con.Err (List Con.KeyIn × List α)) with
      | .ok (ks, vs) => Except.ok (keyNames ks, vs)
      | .error _ => Except.error "ValueError"
    split <;> rfl

end Kingdon.SrcEq

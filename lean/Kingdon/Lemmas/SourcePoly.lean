/-
  The methods of `Polynomial` (kingdon/polynomial.py) as translated from the source (Generated/SourcePoly.lean) are the
  hand-written model `KP` (Model/KPoly.lean): on the embedding of the model's monomials into python's heterogeneous
  lists the translated method returns `.ok` of the embedded model result — in particular no step of the python code
  raises or leaves the modelled fragment, and the `while` loops terminate within the stated fuel.
-/
import Kingdon.Model.KPoly
import Kingdon.Generated.SourcePoly
namespace Kingdon.SrcPolyEq
open Kingdon KP

/-- the python list `[coeff, name, name, ...]` of a model monomial -/
def atomsOf (m : Mono) : Py.Mono := .num m.coeff :: m.vars.map (fun s => .str s.toList)
/-- `Polynomial.args` of a model polynomial -/
def polyOf (p : Poly) : Py.Poly := p.map atomsOf

/-! ### lists and indices -/

theorem drop_cons_lt {α : Type} {l : List α} {k : Nat} {x : α} {r : List α} (h : l.drop k = x :: r) : k < l.length := by
  rcases Nat.lt_or_ge k l.length with h' | h'
  · exact h'
  · rw [List.drop_of_length_le h'] at h; cases h

theorem drop_succ_of_drop {α : Type} {l : List α} {k : Nat} {x : α} {r : List α} (h : l.drop k = x :: r) :
    l.drop (k + 1) = r := by
  rw [List.drop_eq_getElem_cons (drop_cons_lt h)] at h
  exact (List.cons.inj h).2

theorem getItem_of_drop {α : Type} (l : List α) (k : Nat) (x : α) (r : List α) (h : l.drop k = x :: r) :
    Py.getItem l (k : Int) = .ok x := by
  have hk : k < l.length := drop_cons_lt h
  rw [List.drop_eq_getElem_cons hk] at h
  have hx : l[k] = x := (List.cons.inj h).1
  unfold Py.getItem Py.normIdx
  simp [hk, hx]
  rfl

theorem strAtom_inj (a b : String) (h : Py.Atom.str a.toList = Py.Atom.str b.toList) : a = b := by
  simp only [Py.Atom.str.injEq] at h
  exact String.toList_inj.mp h

theorem atomsOf_inj {a b : Mono} (h : atomsOf a = atomsOf b) : a = b := by
  obtain ⟨ca, va⟩ := a
  obtain ⟨cb, vb⟩ := b
  simp only [atomsOf, List.cons.injEq, Py.Atom.num.injEq] at h
  obtain ⟨h1, h2⟩ := h
  have := (List.map_inj_right strAtom_inj).mp h2
  subst h1; subst this; rfl

theorem polyOf_inj {p q : Poly} (h : polyOf p = polyOf q) : p = q :=
  (List.map_inj_right (fun _ _ => atomsOf_inj)).mp h

/-- the atoms of a list of variable names -/
def strs (v : List String) : List Py.Atom := v.map (fun s => .str s.toList)

def cmpBody (a b : Option Py.Mono) (i : Int) (_s : Option Int × Unit) : Py.M (ForInStep (Option Int × Unit)) := do
  let x ← Py.ogetItem a i
  let y ← Py.ogetItem b i
  let c ← x.lt y
  if c = true then pure (ForInStep.done (some (-1), ()))
  else do
    let y ← Py.ogetItem b i
    let x ← Py.ogetItem a i
    let c ← y.lt x
    if c = true then pure (ForInStep.done (some 1, ())) else pure (ForInStep.yield (none, ()))

theorem str_lt (x y : String) : Py.Atom.lt (.str x.toList) (.str y.toList) = .ok (decide (x < y)) := by
  simp [Py.Atom.lt, String.lt_iff]
  rfl

@[simp] theorem ok_bind {ε α β : Type} (a : α) (f : α → Except ε β) : (Except.ok a >>= f) = f a := rfl

theorem cmpBody_eq (A B : Py.Mono) (i : Int) (x y : String) (s : Option Int × Unit)
    (gA : Py.getItem A i = .ok (.str x.toList)) (gB : Py.getItem B i = .ok (.str y.toList)) :
    cmpBody (some A) (some B) i s = .ok (if x < y then .done (some (-1), ()) else if y < x then .done (some 1, ())
      else .yield (none, ())) := by
  unfold cmpBody
  simp only [Py.ogetItem, gA, gB, str_lt, ok_bind, decide_eq_true_eq]
  by_cases h1 : x < y
  · simp only [h1, if_true]; rfl
  · by_cases h2 : y < x
    · simp only [h1, h2, if_true, if_false]; rfl
    · simp only [h1, h2, if_false]; rfl

theorem cmp_loop (va : List String) : ∀ (vb : List String) (k : Nat) (A B : Py.Mono),
    A.drop k = strs va → B.drop k = strs vb →
    ∃ r, forIn ((List.range' k (min va.length vb.length)).map Int.ofNat) ((none : Option Int), ())
        (cmpBody (some A) (some B)) = .ok (r, ()) ∧
      r.getD ((va.length : Int) - vb.length) = compareVars va vb := by
  induction va with
  | nil =>
    intro vb k A B _ _
    refine ⟨none, by simp; rfl, ?_⟩
    cases vb <;> simp [compareVars]
  | cons x va ih =>
    intro vb k A B hA hB
    cases vb with
    | nil => exact ⟨none, by simp; rfl, by simp [compareVars]⟩
    | cons y vb =>
      have hm : min (x :: va).length (y :: vb).length = min va.length vb.length + 1 := by
        simp only [List.length_cons]; omega
      rw [hm, List.range'_succ, List.map_cons, List.forIn_cons]
      have gA : Py.getItem A (Int.ofNat k) = .ok (.str x.toList) := getItem_of_drop A k _ _ hA
      have gB : Py.getItem B (Int.ofNat k) = .ok (.str y.toList) := getItem_of_drop B k _ _ hB
      rw [cmpBody_eq A B _ x y _ gA gB]
      by_cases h1 : x < y
      · exact ⟨some (-1), by simp only [h1, if_true]; rfl, by simp [compareVars, h1]⟩
      · by_cases h2 : y < x
        · exact ⟨some 1, by simp only [h1, h2, if_true, if_false]; rfl, by simp [compareVars, h1, h2]⟩
        · obtain ⟨r, hr1, hr2⟩ := ih vb (k + 1) A B (drop_succ_of_drop hA) (drop_succ_of_drop hB)
          refine ⟨r, ?_, ?_⟩
          · simp only [h1, h2, if_false]
            exact hr1
          · simp only [compareVars, h1, h2, if_false, List.length_cons]
            rw [← hr2]; congr 1; push_cast; omega

theorem range_one (n : Nat) : Py.range 1 (Int.ofNat (n + 1)) = (List.range' 1 n).map Int.ofNat := by
  unfold Py.range
  have : (Int.ofNat (n + 1) - 1).toNat = n := by simp
  rw [this, List.range'_eq_map_range, List.map_map]
  apply List.map_congr_left
  intro i _
  simp

theorem imin_ofNat (a b : Nat) : Py.imin (Int.ofNat a) (Int.ofNat b) = Int.ofNat (min a b) := by
  unfold Py.imin
  simp only [Int.ofNat_eq_natCast]
  split <;> congr 1 <;> omega

theorem compare_eq (a b : Mono) : SrcPoly.compare (some (atomsOf a)) (some (atomsOf b)) = .ok (KP.compare a b) := by
  obtain ⟨ca, va⟩ := a
  obtain ⟨cb, vb⟩ := b
  unfold SrcPoly.compare
  simp only [Option.isNone_some, Bool.false_eq_true, if_false, Py.olen, pure_bind]
  have hl : ∀ (c : Int) (v : List String), (atomsOf ⟨c, v⟩).length = v.length + 1 := by
    intro c v; simp [atomsOf]
  rw [hl, hl, imin_ofNat, show min (va.length + 1) (vb.length + 1) = min va.length vb.length + 1 by omega, range_one]
  obtain ⟨r, hr1, hr2⟩ := cmp_loop va vb 1 (atomsOf ⟨ca, va⟩) (atomsOf ⟨cb, vb⟩) rfl rfl
  change (forIn _ _ (cmpBody _ _) >>= _) = _
  rw [hr1]
  simp only [ok_bind]
  unfold KP.compare
  rw [← hr2]
  cases r with
  | none => simp only [Option.getD_none]; show Except.ok _ = _; congr 1; simp only [Int.ofNat_eq_natCast]; push_cast; omega
  | some r => rfl
theorem compare_none_left (b : Option Py.Mono) : SrcPoly.compare none b = .ok 1 := rfl
theorem compare_none_right (a : Mono) : SrcPoly.compare (some (atomsOf a)) none = .ok (-1) := rfl


theorem beq_polyOf (p q : Poly) : (polyOf p == polyOf q) = (p == q) := by
  rw [Bool.eq_iff_iff, beq_iff_eq, beq_iff_eq]
  exact ⟨polyOf_inj, congrArg polyOf⟩

theorem isEmpty_polyOf (p : Poly) : (polyOf p).isEmpty = p.isEmpty := by
  cases p <;> rfl

theorem polyOf_zero : [[Py.Atom.num 0]] = polyOf [⟨0, []⟩] := rfl
theorem polyOf_one : [[Py.Atom.num 1]] = polyOf [⟨1, []⟩] := rfl

theorem poly_eq_int_zero (p : Poly) : SrcPoly.poly_eq_int (polyOf p) 0 = .ok (KP.eqZero p) := by
  unfold SrcPoly.poly_eq_int KP.eqZero KP.isZeroish
  rw [polyOf_zero, beq_polyOf, isEmpty_polyOf]
  cases p.isEmpty <;> cases (p == [⟨0, []⟩]) <;> rfl

theorem poly_eq_int_one (p : Poly) : SrcPoly.poly_eq_int (polyOf p) 1 = .ok (KP.eqOne p) := by
  unfold SrcPoly.poly_eq_int KP.eqOne KP.isOne
  rw [polyOf_one, beq_polyOf]
  cases (p == [⟨1, []⟩]) <;> rfl

theorem poly_eq_eq (p q : Poly) : SrcPoly.poly_eq (polyOf p) (polyOf q) = .ok (KP.eq p q) := by
  unfold SrcPoly.poly_eq
  rw [poly_eq_int_zero, poly_eq_int_one]
  unfold KP.eq KP.eqZero KP.eqOne
  simp only [ok_bind]
  rw [polyOf_zero, polyOf_one, beq_polyOf, beq_polyOf, beq_polyOf, isEmpty_polyOf]
  have hz : (!!List.isEmpty p || p == [⟨0, []⟩]) = isZeroish p := by
    unfold KP.isZeroish; rw [Bool.not_not]
  rw [hz]
  unfold KP.isOne
  cases isZeroish q <;> cases isZeroish p <;> cases (q == [⟨1, []⟩]) <;> cases (p == [⟨1, []⟩]) <;> rfl

theorem poly_bool_eq (p : Poly) : SrcPoly.poly_bool (polyOf p) = .ok (KP.toBool p) := by
  unfold SrcPoly.poly_bool
  match p with
  | [] => rfl
  | [m] => rfl
  | a :: b :: r =>
    have : (Int.ofNat (polyOf (a :: b :: r)).length == 1) = false := by
      simp [polyOf]; omega
    simp only [this]
    rfl

/-! ### `Polynomial.__add__` -/

abbrev AddSt := Int × Int × Py.Poly × Option Py.Mono × Option Py.Mono × Int

def addBody (a b : Py.Poly) (_x : Nat) (__s : AddSt) : Py.M (ForInStep AddSt) :=
  if (!!(__s.fst == Int.ofNat (List.length a) && __s.snd.fst == Int.ofNat (List.length b))) = true then
    pure (ForInStep.done
      (__s.fst, __s.snd.fst, __s.snd.snd.fst, __s.snd.snd.snd.fst, __s.snd.snd.snd.snd.fst, __s.snd.snd.snd.snd.snd))
  else do
    let __do_lift ←
      (if decide (__s.fst < Int.ofNat (List.length a)) = true then (do
          let __do_lift ← Py.getItem a __s.fst
          pure (some __do_lift))
        else pure none)
    let __do_lift_1 ←
      (if decide (__s.snd.fst < Int.ofNat (List.length b)) = true then (do
          let __do_lift ← Py.getItem b __s.snd.fst
          pure (some __do_lift))
        else pure none)
    let __do_lift_2 ← SrcPoly.compare __do_lift __do_lift_1
    if decide (__do_lift_2 < 0) = true then do
        let __do_lift_3 ← Py.unwrap __do_lift
        pure (ForInStep.yield
              (__s.fst + 1, __s.snd.fst, __s.snd.snd.fst ++ [__do_lift_3], __do_lift, __do_lift_1, __do_lift_2))
      else
        if decide (__do_lift_2 > 0) = true then do
          let __do_lift_3 ← Py.unwrap __do_lift_1
          pure (ForInStep.yield
                (__s.fst, __s.snd.fst + 1, __s.snd.snd.fst ++ [__do_lift_3], __do_lift, __do_lift_1, __do_lift_2))
        else do
          let __do_lift ← Py.ocopy __do_lift
          let __do_lift_3 ← Py.ogetItem __do_lift 0
          let __do_lift_4 ← Py.ogetItem __do_lift_1 0
          let __do_lift_5 ← __do_lift_3.add __do_lift_4
          let __do_lift ← Py.osetItem __do_lift 0 __do_lift_5
          let __do_lift_6 ← Py.ogetItem __do_lift 0
          if (__do_lift_6 != Py.Atom.num 0) = true then do
              let __do_lift_7 ← Py.unwrap __do_lift
              pure (ForInStep.yield
                    (__s.fst + 1, __s.snd.fst + 1, __s.snd.snd.fst ++ [__do_lift_7], __do_lift, __do_lift_1, __do_lift_2))
            else
              pure (ForInStep.yield
                  (__s.fst + 1, __s.snd.fst + 1, __s.snd.snd.fst, __do_lift, __do_lift_1, __do_lift_2))

theorem poly_add_unfold (a b : Py.Poly) : SrcPoly.poly_add a b = (do
    let z ← SrcPoly.poly_eq_int b 0
    if z = true then pure a else do
      let z ← SrcPoly.poly_eq_int a 0
      if z = true then pure b else do
        let s ← forIn (List.range (Int.ofNat a.length + Int.ofNat b.length).toNat) ((0, 0, [], none, none, 0) : AddSt) (addBody a b)
        if (!(s.fst == Int.ofNat a.length && s.snd.fst == Int.ofNat b.length)) = true then throw "FUEL"
        else pure s.snd.snd.fst) := by
  unfold SrcPoly.poly_add
  simp only []
  unfold addBody
  rfl

theorem ofNat_beq (a b : Nat) : (Int.ofNat a == Int.ofNat b) = (a == b) := by
  rw [Bool.eq_iff_iff]; simp only [beq_iff_eq, Int.ofNat_eq_natCast]; omega
theorem ofNat_lt (a b : Nat) : decide (Int.ofNat a < Int.ofNat b) = decide (a < b) := by
  rw [Bool.eq_iff_iff]; simp
theorem ofNat_succ (a : Nat) : Int.ofNat a + 1 = Int.ofNat (a + 1) := rfl

@[simp] theorem length_polyOf (p : Poly) : (polyOf p).length = p.length := by simp [polyOf]

theorem getItem_polyOf (p : Poly) (k : Nat) (x : Mono) (r : Poly) (h : p.drop k = x :: r) :
    Py.getItem (polyOf p) (Int.ofNat k) = .ok (atomsOf x) := by
  apply getItem_of_drop (polyOf p) k (atomsOf x) (polyOf r)
  unfold polyOf
  rw [← List.map_drop, h]; rfl

theorem getItem_atomsOf_zero (m : Mono) : Py.getItem (atomsOf m) 0 = .ok (.num m.coeff) :=
  getItem_of_drop (atomsOf m) 0 _ _ rfl

theorem setItem_atomsOf_zero (m : Mono) (c : Int) : Py.setItem (atomsOf m) 0 (.num c) = .ok (atomsOf ⟨c, m.vars⟩) := by
  simp [Py.setItem, Py.normIdx, atomsOf]; rfl

theorem addBody_done (p q : Poly) (res : Py.Poly) (ea eb : Option Py.Mono) (diff : Int) (n : Nat) :
    addBody (polyOf p) (polyOf q) n (Int.ofNat p.length, Int.ofNat q.length, res, ea, eb, diff) =
      .ok (.done (Int.ofNat p.length, Int.ofNat q.length, res, ea, eb, diff)) := by
  unfold addBody
  simp only [length_polyOf, beq_self_eq_true, Bool.and_self, Bool.not_true, Bool.not_false, if_true]
  rfl

theorem addBody_left (p q : Poly) (ai : Nat) (x : Mono) (pr : Poly) (hp : p.drop ai = x :: pr)
    (res : Py.Poly) (ea eb : Option Py.Mono) (diff : Int) (n : Nat) :
    addBody (polyOf p) (polyOf q) n (Int.ofNat ai, Int.ofNat q.length, res, ea, eb, diff) =
      .ok (.yield (Int.ofNat (ai + 1), Int.ofNat q.length, res ++ [atomsOf x], some (atomsOf x), none, -1)) := by
  have h1 : ai < p.length := drop_cons_lt hp
  have h2 : (ai == p.length) = false := by simp; omega
  unfold addBody
  simp only [length_polyOf, ofNat_beq, ofNat_lt, h2, Bool.false_and, Bool.not_false, Bool.not_true, Bool.false_eq_true,
    if_false, h1, decide_true, if_true, getItem_polyOf p ai x pr hp, ok_bind, Nat.lt_irrefl, decide_false]
  rfl

theorem addBody_right (p q : Poly) (bi : Nat) (y : Mono) (qr : Poly) (hq : q.drop bi = y :: qr)
    (res : Py.Poly) (ea eb : Option Py.Mono) (diff : Int) (n : Nat) :
    addBody (polyOf p) (polyOf q) n (Int.ofNat p.length, Int.ofNat bi, res, ea, eb, diff) =
      .ok (.yield (Int.ofNat p.length, Int.ofNat (bi + 1), res ++ [atomsOf y], none, some (atomsOf y), 1)) := by
  have h1 : bi < q.length := drop_cons_lt hq
  have h2 : (bi == q.length) = false := by simp; omega
  unfold addBody
  simp only [length_polyOf, ofNat_beq, ofNat_lt, h2, Bool.and_false, Bool.not_false, Bool.not_true, Bool.false_eq_true,
    if_false, h1, decide_true, if_true, getItem_polyOf q bi y qr hq, ok_bind, Nat.lt_irrefl, decide_false]
  rfl

theorem num_bne_zero (c : Int) : (Py.Atom.num c != Py.Atom.num 0) = (c != 0) := by
  rw [Bool.eq_iff_iff]; simp

theorem addBody_both (p q : Poly) (ai bi : Nat) (x y : Mono) (pr qr : Poly) (hp : p.drop ai = x :: pr)
    (hq : q.drop bi = y :: qr) (res : Py.Poly) (ea eb : Option Py.Mono) (diff : Int) (n : Nat) :
    ∃ ea' eb' diff', addBody (polyOf p) (polyOf q) n (Int.ofNat ai, Int.ofNat bi, res, ea, eb, diff) =
      .ok (.yield (
        if KP.compare x y < 0 then (Int.ofNat (ai + 1), Int.ofNat bi, res ++ [atomsOf x], ea', eb', diff')
        else if KP.compare x y > 0 then (Int.ofNat ai, Int.ofNat (bi + 1), res ++ [atomsOf y], ea', eb', diff')
        else if x.coeff + y.coeff != 0 then
          (Int.ofNat (ai + 1), Int.ofNat (bi + 1), res ++ [atomsOf ⟨x.coeff + y.coeff, x.vars⟩], ea', eb', diff')
        else (Int.ofNat (ai + 1), Int.ofNat (bi + 1), res, ea', eb', diff'))) := by
  have h1 : ai < p.length := drop_cons_lt hp
  have h2 : (ai == p.length) = false := by simp; omega
  have h3 : bi < q.length := drop_cons_lt hq
  unfold addBody
  simp only [length_polyOf, ofNat_beq, ofNat_lt, h2, Bool.false_and, Bool.not_false, Bool.not_true, Bool.false_eq_true,
    if_false, h1, h3, decide_true, if_true, getItem_polyOf p ai x pr hp, getItem_polyOf q bi y qr hq, ok_bind,
    compare_eq, pure_bind, decide_eq_true_eq]
  by_cases c1 : KP.compare x y < 0
  · simp only [c1, if_true]
    exact ⟨_, _, _, rfl⟩
  · by_cases c2 : KP.compare x y > 0
    · simp only [c1, c2, if_true, if_false]
      exact ⟨_, _, _, rfl⟩
    · simp only [c1, c2, if_false, Py.ocopy, Py.ogetItem, getItem_atomsOf_zero, ok_bind, pure_bind, Py.Atom.add, Py.osetItem,
        setItem_atomsOf_zero, num_bne_zero]
      by_cases c3 : (x.coeff + y.coeff != 0) = true
      · simp only [c3, if_true]
        exact ⟨_, _, _, rfl⟩
      · simp only [c3]
        exact ⟨_, _, _, rfl⟩

theorem merge_nil_left (q : Poly) : merge [] q = q := by simp [merge]
theorem merge_nil_right (p : Poly) : merge p [] = p := by cases p <;> simp [merge]
theorem merge_cons_cons (x y : Mono) (p q : Poly) : merge (x :: p) (y :: q) =
    if KP.compare x y < 0 then x :: merge p (y :: q)
    else if KP.compare x y > 0 then y :: merge (x :: p) q
    else if x.coeff + y.coeff != 0 then ⟨x.coeff + y.coeff, x.vars⟩ :: merge p q else merge p q := by
  rw [merge]

theorem length_of_drop_nil {α : Type} {l : List α} {k : Nat} (h : l.drop k = []) (hk : k ≤ l.length) : k = l.length := by
  have := List.drop_eq_nil_iff.mp h; omega

theorem polyOf_cons (x : Mono) (p : Poly) : polyOf (x :: p) = atomsOf x :: polyOf p := rfl

theorem add_loop (p q : Poly) (l : List Nat) : ∀ (ai bi : Nat) (pa qb : Poly) (res : Py.Poly) (ea eb : Option Py.Mono) (diff : Int),
    p.drop ai = pa → q.drop bi = qb → ai ≤ p.length → bi ≤ q.length → pa.length + qb.length ≤ l.length →
    ∃ ea' eb' diff', forIn l ((Int.ofNat ai, Int.ofNat bi, res, ea, eb, diff) : AddSt) (addBody (polyOf p) (polyOf q)) =
      .ok (Int.ofNat p.length, Int.ofNat q.length, res ++ polyOf (merge pa qb), ea', eb', diff') := by
  induction l with
  | nil =>
    intro ai bi pa qb res ea eb diff hp hq ha hb hl
    simp only [List.length_nil] at hl
    have h1 : pa = [] := List.eq_nil_of_length_eq_zero (by omega)
    have h2 : qb = [] := List.eq_nil_of_length_eq_zero (by omega)
    subst h1; subst h2
    rw [← length_of_drop_nil hp ha, ← length_of_drop_nil hq hb]
    exact ⟨ea, eb, diff, by simp [merge, polyOf]; rfl⟩
  | cons n l ih =>
    intro ai bi pa qb res ea eb diff hp hq ha hb hl
    rw [List.forIn_cons]
    match pa, qb with
    | [], [] =>
      rw [length_of_drop_nil hp ha, length_of_drop_nil hq hb, addBody_done]
      exact ⟨ea, eb, diff, by simp [merge, polyOf]; rfl⟩
    | x :: pr, [] =>
      rw [length_of_drop_nil hq hb, addBody_left p q ai x pr hp]
      obtain ⟨ea', eb', diff', h⟩ := ih (ai + 1) q.length pr [] (res ++ [atomsOf x]) (some (atomsOf x)) none (-1)
        (drop_succ_of_drop hp) (by simp) (drop_cons_lt hp) (Nat.le_refl _) (by simp at hl ⊢; omega)
      refine ⟨ea', eb', diff', ?_⟩
      simp only [ok_bind]
      rw [h, merge_nil_right, merge_nil_right, polyOf_cons, List.append_assoc]; rfl
    | [], y :: qr =>
      rw [length_of_drop_nil hp ha, addBody_right p q bi y qr hq]
      obtain ⟨ea', eb', diff', h⟩ := ih p.length (bi + 1) [] qr (res ++ [atomsOf y]) none (some (atomsOf y)) 1
        (by simp) (drop_succ_of_drop hq) (Nat.le_refl _) (drop_cons_lt hq) (by simp at hl ⊢; omega)
      refine ⟨ea', eb', diff', ?_⟩
      simp only [ok_bind]
      rw [h, merge_nil_left, merge_nil_left, polyOf_cons, List.append_assoc]; rfl
    | x :: pr, y :: qr =>
      obtain ⟨ea1, eb1, diff1, hb1⟩ := addBody_both p q ai bi x y pr qr hp hq res ea eb diff n
      rw [hb1, merge_cons_cons]
      simp only [List.length_cons] at hl
      by_cases c1 : KP.compare x y < 0
      · simp only [c1, if_true, ok_bind]
        obtain ⟨ea', eb', diff', h⟩ := ih (ai + 1) bi pr (y :: qr) (res ++ [atomsOf x]) ea1 eb1 diff1
          (drop_succ_of_drop hp) hq (drop_cons_lt hp) hb (by simp; omega)
        exact ⟨ea', eb', diff', by rw [h, polyOf_cons, List.append_assoc]; rfl⟩
      · by_cases c2 : KP.compare x y > 0
        · simp only [c1, c2, if_true, if_false, ok_bind]
          obtain ⟨ea', eb', diff', h⟩ := ih ai (bi + 1) (x :: pr) qr (res ++ [atomsOf y]) ea1 eb1 diff1
            hp (drop_succ_of_drop hq) ha (drop_cons_lt hq) (by simp; omega)
          exact ⟨ea', eb', diff', by rw [h, polyOf_cons, List.append_assoc]; rfl⟩
        · by_cases c3 : (x.coeff + y.coeff != 0) = true
          · simp only [c1, c2, c3, if_true, if_false, ok_bind]
            obtain ⟨ea', eb', diff', h⟩ := ih (ai + 1) (bi + 1) pr qr (res ++ [atomsOf ⟨x.coeff + y.coeff, x.vars⟩]) ea1 eb1 diff1
              (drop_succ_of_drop hp) (drop_succ_of_drop hq) (drop_cons_lt hp) (drop_cons_lt hq) (by omega)
            exact ⟨ea', eb', diff', by rw [h, polyOf_cons, List.append_assoc]; rfl⟩
          · simp only [c1, c2, c3, if_false, ok_bind]
            exact ih (ai + 1) (bi + 1) pr qr res ea1 eb1 diff1
              (drop_succ_of_drop hp) (drop_succ_of_drop hq) (drop_cons_lt hp) (drop_cons_lt hq) (by omega)

theorem poly_add_eq (p q : Poly) : SrcPoly.poly_add (polyOf p) (polyOf q) = .ok (polyOf (KP.add p q)) := by
  rw [poly_add_unfold, poly_eq_int_zero, poly_eq_int_zero]
  unfold KP.add KP.eqZero
  simp only [ok_bind]
  by_cases z1 : isZeroish q = true
  · simp only [z1, if_true]; rfl
  · by_cases z2 : isZeroish p = true
    · simp only [z1, z2, if_true]; rfl
    · simp only [z1, z2]
      obtain ⟨ea', eb', diff', h⟩ := add_loop p q (List.range (Int.ofNat (polyOf p).length + Int.ofNat (polyOf q).length).toNat)
        0 0 p q [] none none 0 rfl rfl (Nat.zero_le _) (Nat.zero_le _) (by
          simp only [length_polyOf, List.length_range, Int.ofNat_eq_natCast]; omega)
      rw [show ((0, 0, [], none, none, 0) : AddSt) = (Int.ofNat 0, Int.ofNat 0, [], none, none, 0) from rfl, h]
      simp only [ok_bind, length_polyOf, beq_self_eq_true, Bool.and_self, Bool.not_true, Bool.false_eq_true,
        List.nil_append]
      rfl

/-! ### `Polynomial.__neg__`, `__sub__` -/

theorem mapM_ok {α β : Type} (f : α → Py.M β) (g : α → β) (l : List α) (h : ∀ a ∈ l, f a = .ok (g a)) :
    l.mapM f = .ok (l.map g) := by
  induction l with
  | nil => rfl
  | cons a l ih =>
    rw [List.mapM_cons, h a (by simp), ih (fun a ha => h a (by simp [ha]))]
    rfl

theorem poly_neg_eq (p : Poly) : SrcPoly.poly_neg (polyOf p) = .ok (polyOf (KP.neg p)) := by
  unfold SrcPoly.poly_neg
  rw [mapM_ok _ (fun a => match a with | [] => [] | c :: r => (match c with | .num c => .num (-c) | _ => c) :: r)]
  · unfold polyOf KP.neg
    rw [List.map_map, List.map_map]
    rfl
  · intro a ha
    simp only [polyOf, List.mem_map] at ha
    obtain ⟨m, _, rfl⟩ := ha
    simp only [getItem_atomsOf_zero, ok_bind, Py.Atom.neg, pure_bind]
    rfl

theorem poly_sub_eq (p q : Poly) : SrcPoly.poly_sub (polyOf p) (polyOf q) = .ok (polyOf (KP.sub p q)) := by
  unfold SrcPoly.poly_sub
  rw [poly_neg_eq]
  simp only [ok_bind]
  rw [poly_add_eq]
  rfl

/-! ### `Polynomial.__mul__` -/

abbrev InSt := Py.Mono × Int × Int × Py.Atom × Py.Atom
abbrev OutSt := Py.Poly × Py.Mono × Py.Mono × Py.Mono × Int × Int × Py.Atom × Py.Atom

def mulInner (A B : Py.Mono) (_x : Nat) (__s : InSt) : Py.M (ForInStep InSt) :=
  if (!(decide (__s.snd.fst < Int.ofNat (List.length A)) || decide (__s.snd.snd.fst < Int.ofNat (List.length B)))) = true then
    pure (ForInStep.done (__s.fst, __s.snd.fst, __s.snd.snd.fst, __s.snd.snd.snd.fst, __s.snd.snd.snd.snd))
  else do
    let __do_lift ←
      (if decide (__s.snd.fst < Int.ofNat (List.length A)) = true then Py.getItem A __s.snd.fst else pure Py.Atom.none)
    let __do_lift_5 ←
      (if decide (__s.snd.snd.fst < Int.ofNat (List.length B)) = true then Py.getItem B __s.snd.snd.fst
        else pure Py.Atom.none)
    let __do_lift_6 ← Py.orM __do_lift_5.isNone (Py.andM (!__do_lift.isNone) (__do_lift.lt __do_lift_5))
    if __do_lift_6 = true then
        if __do_lift.isStr = true then
          pure (ForInStep.yield (__s.fst ++ [__do_lift], __s.snd.fst + 1, __s.snd.snd.fst, __do_lift, __do_lift_5))
        else do
          let __do_lift_7 ← Py.getItem __s.fst 0
          let __do_lift_8 ← __do_lift_7.mul __do_lift
          let __do_lift_9 ← Py.setItem __s.fst 0 __do_lift_8
          pure (ForInStep.yield (__do_lift_9, __s.snd.fst + 1, __s.snd.snd.fst, __do_lift, __do_lift_5))
      else
        if __do_lift_5.isStr = true then
          pure (ForInStep.yield (__s.fst ++ [__do_lift_5], __s.snd.fst, __s.snd.snd.fst + 1, __do_lift, __do_lift_5))
        else do
          let __do_lift_7 ← Py.getItem __s.fst 0
          let __do_lift_8 ← __do_lift_7.mul __do_lift_5
          let __do_lift_9 ← Py.setItem __s.fst 0 __do_lift_8
          pure (ForInStep.yield (__do_lift_9, __s.snd.fst, __s.snd.snd.fst + 1, __do_lift, __do_lift_5))

def mulOuter (a b : Py.Poly) (x : Int × Int) (__s : OutSt) : Py.M (ForInStep OutSt) := do
  let A ← Py.getItem a x.fst
  let B ← Py.getItem b x.snd
  let __do_lift_2 ← Py.getItem A 0
  let __do_lift_3 ← Py.getItem B 0
  let __do_lift_4 ← __do_lift_2.mul __do_lift_3
  let __s_1 ← forIn (List.range (List.length A + List.length B))
      (([__do_lift_4], 1, 1, __s.snd.snd.snd.snd.snd.snd.fst, __s.snd.snd.snd.snd.snd.snd.snd) : InSt) (mulInner A B)
  if (decide (__s_1.snd.fst < Int.ofNat (List.length A)) || decide (__s_1.snd.snd.fst < Int.ofNat (List.length B))) = true then
    throw "FUEL"
  else do
    let __do_lift_5 ← SrcPoly.poly_add __s.fst [__s_1.fst]
    pure (ForInStep.yield
          (__do_lift_5, A, B, __s_1.fst, __s_1.snd.fst, __s_1.snd.snd.fst, __s_1.snd.snd.snd.fst, __s_1.snd.snd.snd.snd))

theorem poly_mul_unfold (a b : Py.Poly) : SrcPoly.poly_mul a b = (do
    let z ← SrcPoly.poly_eq_int a 0
    let z ← Py.orM z (SrcPoly.poly_eq_int b 0)
    if z = true then pure [] else do
      let s ← forIn (Py.product (Py.range 0 (Int.ofNat (List.length a))) (Py.range 0 (Int.ofNat (List.length b))))
        (([], [], [], [], 0, 0, Py.Atom.none, Py.Atom.none) : OutSt) (mulOuter a b)
      pure s.fst) := by
  unfold SrcPoly.poly_mul
  simp only []
  unfold mulOuter mulInner
  rfl

theorem poly_mul_int_unfold (a : Py.Poly) (b : Int) : SrcPoly.poly_mul_int a b = (do
    let z ← SrcPoly.poly_eq_int a 0
    if (z || b == 0) = true then pure [] else do
      let s ← forIn (Py.product (Py.range 0 (Int.ofNat (List.length a))) (Py.range 0 (Int.ofNat (List.length [[Py.Atom.num b]]))))
        (([], [], [], [], 0, 0, Py.Atom.none, Py.Atom.none) : OutSt) (mulOuter a [[Py.Atom.num b]])
      pure s.fst) := by
  unfold SrcPoly.poly_mul_int
  simp only []
  unfold mulOuter mulInner
  rfl

theorem strs_cons (x : String) (v : List String) : strs (x :: v) = .str x.toList :: strs v := rfl
theorem strs_snoc (c : Py.Atom) (d : List String) (x : String) :
    (c :: strs d) ++ [Py.Atom.str x.toList] = c :: strs (d ++ [x]) := by
  simp [strs]

theorem getItem_drop_ofNat {α : Type} (l : List α) (k : Nat) (x : α) (r : List α) (h : l.drop k = x :: r) :
    Py.getItem l (Int.ofNat k) = .ok x := getItem_of_drop l k x r h

theorem mulInner_done (A B : Py.Mono) (C : Py.Mono) (ea eb : Py.Atom) (n : Nat) :
    mulInner A B n (C, Int.ofNat A.length, Int.ofNat B.length, ea, eb) =
      .ok (.done (C, Int.ofNat A.length, Int.ofNat B.length, ea, eb)) := by
  unfold mulInner
  simp only [ofNat_lt, Nat.lt_irrefl, decide_false, Bool.or_self, Bool.not_false, if_true]
  rfl

theorem mulInner_left (A B : Py.Mono) (i : Nat) (x : String) (va : List String) (hA : A.drop i = strs (x :: va))
    (C : Py.Mono) (ea eb : Py.Atom) (n : Nat) :
    mulInner A B n (C, Int.ofNat i, Int.ofNat B.length, ea, eb) =
      .ok (.yield (C ++ [.str x.toList], Int.ofNat (i + 1), Int.ofNat B.length, .str x.toList, .none)) := by
  have h1 : i < A.length := drop_cons_lt hA
  unfold mulInner
  simp only [ofNat_lt, Nat.lt_irrefl, decide_false, h1, decide_true, Bool.or_false, Bool.not_true, Bool.false_eq_true,
    if_false, if_true, getItem_drop_ofNat A i _ _ hA, ok_bind, pure_bind, Py.Atom.isNone, Py.orM, Py.Atom.isStr]
  rfl

theorem mulInner_right (A B : Py.Mono) (j : Nat) (y : String) (vb : List String) (hB : B.drop j = strs (y :: vb))
    (C : Py.Mono) (ea eb : Py.Atom) (n : Nat) :
    mulInner A B n (C, Int.ofNat A.length, Int.ofNat j, ea, eb) =
      .ok (.yield (C ++ [.str y.toList], Int.ofNat A.length, Int.ofNat (j + 1), .none, .str y.toList)) := by
  have h1 : j < B.length := drop_cons_lt hB
  unfold mulInner
  simp only [ofNat_lt, Nat.lt_irrefl, decide_false, h1, decide_true, Bool.false_or, Bool.not_true, Bool.false_eq_true,
    if_false, if_true, getItem_drop_ofNat B j _ _ hB, ok_bind, pure_bind, Py.Atom.isNone, Py.orM, Py.andM, Py.Atom.isStr]
  rfl

theorem mulInner_both (A B : Py.Mono) (i j : Nat) (x y : String) (va vb : List String)
    (hA : A.drop i = strs (x :: va)) (hB : B.drop j = strs (y :: vb))
    (C : Py.Mono) (ea eb : Py.Atom) (n : Nat) :
    mulInner A B n (C, Int.ofNat i, Int.ofNat j, ea, eb) =
      .ok (.yield (if x < y then (C ++ [.str x.toList], Int.ofNat (i + 1), Int.ofNat j, .str x.toList, .str y.toList)
        else (C ++ [.str y.toList], Int.ofNat i, Int.ofNat (j + 1), .str x.toList, .str y.toList))) := by
  have h1 : i < A.length := drop_cons_lt hA
  have h2 : j < B.length := drop_cons_lt hB
  unfold mulInner
  simp only [ofNat_lt, h1, h2, decide_true, Bool.or_self, Bool.not_true, Bool.false_eq_true,
    if_false, if_true, getItem_drop_ofNat A i _ _ hA, getItem_drop_ofNat B j _ _ hB, ok_bind, Py.Atom.isNone, Py.orM,
    Py.andM, Py.Atom.isStr, Bool.not_false, str_lt, decide_eq_true_eq]
  by_cases c : x < y
  · simp only [c, if_true]; rfl
  · simp only [c, if_false]; rfl

theorem mulVars_nil_left (b : List String) : mulVars [] b = b := by simp [mulVars]
theorem mulVars_nil_right (a : List String) : mulVars a [] = a := by cases a <;> simp [mulVars]
theorem mulVars_cons_cons (x y : String) (a b : List String) :
    mulVars (x :: a) (y :: b) = if x < y then x :: mulVars a (y :: b) else y :: mulVars (x :: a) b := by
  rw [mulVars]

theorem strs_nil_eq {v : List String} (h : strs v = []) : v = [] := by
  cases v with
  | nil => rfl
  | cons a v => cases h

theorem mul_inner_loop (A B : Py.Mono) (l : List Nat) : ∀ (i j : Nat) (va vb : List String) (c : Py.Atom)
    (done : List String) (ea eb : Py.Atom),
    A.drop i = strs va → B.drop j = strs vb → i ≤ A.length → j ≤ B.length → va.length + vb.length ≤ l.length →
    ∃ ea' eb', forIn l ((c :: strs done, Int.ofNat i, Int.ofNat j, ea, eb) : InSt) (mulInner A B) =
      .ok (c :: strs (done ++ mulVars va vb), Int.ofNat A.length, Int.ofNat B.length, ea', eb') := by
  induction l with
  | nil =>
    intro i j va vb c done ea eb hA hB hi hj hl
    simp only [List.length_nil] at hl
    have h1 : va = [] := List.eq_nil_of_length_eq_zero (by omega)
    have h2 : vb = [] := List.eq_nil_of_length_eq_zero (by omega)
    subst h1; subst h2
    rw [← length_of_drop_nil hA hi, ← length_of_drop_nil hB hj]
    exact ⟨ea, eb, by simp [mulVars]; rfl⟩
  | cons n l ih =>
    intro i j va vb c done ea eb hA hB hi hj hl
    rw [List.forIn_cons]
    match va, vb with
    | [], [] =>
      rw [length_of_drop_nil hA hi, length_of_drop_nil hB hj, mulInner_done]
      exact ⟨ea, eb, by simp [mulVars]; rfl⟩
    | x :: va, [] =>
      rw [length_of_drop_nil hB hj, mulInner_left A B i x va hA, strs_snoc]
      obtain ⟨ea', eb', h⟩ := ih (i + 1) B.length va [] c (done ++ [x]) (.str x.toList) .none
        (drop_succ_of_drop hA) (by simp; rfl) (drop_cons_lt hA) (Nat.le_refl _) (by simp at hl ⊢; omega)
      refine ⟨ea', eb', ?_⟩
      simp only [ok_bind]
      rw [h, mulVars_nil_right, mulVars_nil_right, List.append_assoc]; rfl
    | [], y :: vb =>
      rw [length_of_drop_nil hA hi, mulInner_right A B j y vb hB, strs_snoc]
      obtain ⟨ea', eb', h⟩ := ih A.length (j + 1) [] vb c (done ++ [y]) .none (.str y.toList)
        (by simp; rfl) (drop_succ_of_drop hB) (Nat.le_refl _) (drop_cons_lt hB) (by simp at hl ⊢; omega)
      refine ⟨ea', eb', ?_⟩
      simp only [ok_bind]
      rw [h, mulVars_nil_left, mulVars_nil_left, List.append_assoc]; rfl
    | x :: va, y :: vb =>
      rw [mulInner_both A B i j x y va vb hA hB, mulVars_cons_cons]
      simp only [List.length_cons] at hl
      by_cases c1 : x < y
      · simp only [c1, if_true, ok_bind, strs_snoc]
        obtain ⟨ea', eb', h⟩ := ih (i + 1) j va (y :: vb) c (done ++ [x]) (.str x.toList) (.str y.toList)
          (drop_succ_of_drop hA) hB (drop_cons_lt hA) hj (by simp; omega)
        exact ⟨ea', eb', by rw [h, List.append_assoc]; rfl⟩
      · simp only [c1, if_false, ok_bind, strs_snoc]
        obtain ⟨ea', eb', h⟩ := ih i (j + 1) (x :: va) vb c (done ++ [y]) (.str x.toList) (.str y.toList)
          hA (drop_succ_of_drop hB) hi (drop_cons_lt hB) (by simp; omega)
        exact ⟨ea', eb', by rw [h, List.append_assoc]; rfl⟩

theorem length_atomsOf (m : Mono) : (atomsOf m).length = m.vars.length + 1 := by simp [atomsOf]

theorem mulOuter_spec (p q : Poly) (i j : Nat) (ma mb : Mono) (pr qr : Poly) (hp : p.drop i = ma :: pr)
    (hq : q.drop j = mb :: qr) (res : Poly) (s : OutSt) (hs : s.fst = polyOf res) :
    ∃ s', mulOuter (polyOf p) (polyOf q) (Int.ofNat i, Int.ofNat j) s = .ok (.yield s') ∧
      s'.fst = polyOf (add res [mulMono ma mb]) := by
  obtain ⟨r, rest⟩ := s
  simp only at hs
  subst hs
  unfold mulOuter
  simp only [getItem_polyOf p i ma pr hp, getItem_polyOf q j mb qr hq, getItem_atomsOf_zero, ok_bind, Py.Atom.mul, pure_bind]
  obtain ⟨ea', eb', h⟩ := mul_inner_loop (atomsOf ma) (atomsOf mb) (List.range ((atomsOf ma).length + (atomsOf mb).length))
    1 1 ma.vars mb.vars (.num (ma.coeff * mb.coeff)) [] rest.snd.snd.snd.snd.snd.fst rest.snd.snd.snd.snd.snd.snd rfl rfl
    (by rw [length_atomsOf]; omega) (by rw [length_atomsOf]; omega)
    (by rw [List.length_range, length_atomsOf, length_atomsOf]; omega)
  have h' : forIn (List.range ((atomsOf ma).length + (atomsOf mb).length))
      (([Py.Atom.num (ma.coeff * mb.coeff)], 1, 1, rest.snd.snd.snd.snd.snd.fst, rest.snd.snd.snd.snd.snd.snd) : InSt)
      (mulInner (atomsOf ma) (atomsOf mb)) = _ := h
  rw [h']
  simp only [ok_bind, ofNat_lt, Nat.lt_irrefl, decide_false, Bool.or_self, Bool.false_eq_true, if_false, List.nil_append]
  have hC : (Py.Atom.num (ma.coeff * mb.coeff) :: strs (mulVars ma.vars mb.vars)) = atomsOf (mulMono ma mb) := rfl
  have hP : ∀ m : Mono, [atomsOf m] = polyOf [m] := fun _ => rfl
  rw [hC, hP, poly_add_eq]
  exact ⟨_, rfl, rfl⟩

/-- a `for` loop without `break` whose body maintains a relation to a fold -/
theorem forIn_inv {α σ τ : Type} (l : List α) (body : α → σ → Py.M (ForInStep σ)) (g : τ → α → τ) (Inv : σ → τ → Prop)
    (hbody : ∀ x ∈ l, ∀ s t, Inv s t → ∃ s', body x s = .ok (.yield s') ∧ Inv s' (g t x)) (s : σ) (t : τ) (h : Inv s t) :
    ∃ s', forIn l s body = .ok s' ∧ Inv s' (l.foldl g t) := by
  induction l generalizing s t with
  | nil => exact ⟨s, rfl, h⟩
  | cons a l ih =>
    obtain ⟨s1, h1, h2⟩ := hbody a (by simp) s t h
    rw [List.forIn_cons, h1]
    exact ih (fun x hx => hbody x (by simp [hx])) s1 (g t a) h2

theorem range_zero (n : Nat) : Py.range 0 (Int.ofNat n) = (List.range n).map Int.ofNat := by
  unfold Py.range
  have : (Int.ofNat n - 0).toNat = n := by simp
  rw [this]
  apply List.map_congr_left
  intro i _
  simp

theorem range_map_getD {α : Type} (l : List α) (d : α) : (List.range l.length).map (fun i => l.getD i d) = l := by
  apply List.ext_getElem
  · simp
  · intro i h1 h2
    simp [h2]

theorem range_map_getD' {α γ : Type} (l : List α) (d : α) (G : α → γ) :
    (List.range l.length).map (fun i => G (l.getD i d)) = l.map G := by
  conv => rhs; rw [← range_map_getD l d, List.map_map]
  rfl

theorem range_flatMap_getD {α γ : Type} (l : List α) (d : α) (G : α → List γ) :
    (List.range l.length).flatMap (fun i => G (l.getD i d)) = l.flatMap G := by
  conv => rhs; rw [← range_map_getD l d, List.flatMap_map]

theorem product_map {α β : Type} (p : List α) (q : List α) (d : α) (F : α → α → β) :
    (Py.product (Py.range 0 (Int.ofNat p.length)) (Py.range 0 (Int.ofNat q.length))).map
      (fun x => F (p.getD x.1.toNat d) (q.getD x.2.toNat d)) = p.flatMap fun a => q.map fun b => F a b := by
  unfold Py.product
  rw [range_zero, range_zero, List.map_flatMap, List.flatMap_map]
  simp only [List.map_map]
  rw [← range_flatMap_getD p d]
  congr 1
  funext i
  rw [← range_map_getD' q d]
  rfl

theorem mem_product_range (n m : Nat) (x : Int × Int)
    (h : x ∈ Py.product (Py.range 0 (Int.ofNat n)) (Py.range 0 (Int.ofNat m))) :
    ∃ i j, i < n ∧ j < m ∧ x = (Int.ofNat i, Int.ofNat j) := by
  unfold Py.product at h
  rw [range_zero, range_zero] at h
  simp only [List.mem_flatMap, List.mem_map, List.mem_range] at h
  obtain ⟨a, ⟨i, hi, rfl⟩, b, ⟨j, hj, rfl⟩, rfl⟩ := h
  exact ⟨i, j, hi, hj, rfl⟩

theorem drop_getD {α : Type} (l : List α) (i : Nat) (d : α) (h : i < l.length) :
    l.drop i = l.getD i d :: l.drop (i + 1) := by
  rw [List.drop_eq_getElem_cons h]; simp [h]

theorem mul_outer_loop (p q : Poly) (s : OutSt) (hs : s.fst = []) :
    ∃ s', forIn (Py.product (Py.range 0 (Int.ofNat p.length)) (Py.range 0 (Int.ofNat q.length))) s
        (mulOuter (polyOf p) (polyOf q)) = .ok s' ∧
      s'.fst = polyOf ((p.flatMap fun a => q.map fun b => mulMono a b).foldl (fun res c => add res [c]) []) := by
  have d : Mono := default
  obtain ⟨s', h1, h2⟩ := forIn_inv (Py.product (Py.range 0 (Int.ofNat p.length)) (Py.range 0 (Int.ofNat q.length)))
    (mulOuter (polyOf p) (polyOf q))
    (fun (t : Poly) (x : Int × Int) => add t [mulMono (p.getD x.1.toNat d) (q.getD x.2.toNat d)])
    (fun s t => s.fst = polyOf t)
    (by
      intro x hx s t hst
      obtain ⟨i, j, hi, hj, rfl⟩ := mem_product_range _ _ x hx
      exact mulOuter_spec p q i j _ _ _ _ (drop_getD p i d hi) (drop_getD q j d hj) t s hst)
    s [] hs
  refine ⟨s', h1, ?_⟩
  rw [h2, ← product_map p q d mulMono, List.foldl_map]

theorem poly_mul_eq (p q : Poly) : SrcPoly.poly_mul (polyOf p) (polyOf q) = .ok (polyOf (KP.mul p q)) := by
  rw [poly_mul_unfold, poly_eq_int_zero, poly_eq_int_zero]
  unfold KP.mul KP.eqZero
  simp only [ok_bind, Py.orM]
  by_cases z : (isZeroish p || isZeroish q) = true
  · rw [if_pos z]
    cases hp : isZeroish p
    · rw [hp] at z
      simp only [Bool.false_or] at z
      simp only [Bool.false_eq_true, if_false, z, ok_bind, if_true]; rfl
    · simp only [if_true, pure_bind]; rfl
  · rw [if_neg z]
    simp only [Bool.or_eq_true, not_or, Bool.not_eq_true] at z
    simp only [z.1, z.2, Bool.false_eq_true, if_false, ok_bind]
    obtain ⟨s', h1, h2⟩ := mul_outer_loop p q ([], [], [], [], 0, 0, Py.Atom.none, Py.Atom.none) rfl
    simp only [length_polyOf]
    rw [h1]
    simp only [ok_bind, h2]
    rfl

theorem isZeroish_ofInt (n : Int) : isZeroish (KP.ofInt n) = (n == 0) := by
  unfold KP.isZeroish KP.ofInt
  rw [Bool.eq_iff_iff]
  simp

theorem poly_mul_int_eq (p : Poly) (n : Int) : SrcPoly.poly_mul_int (polyOf p) n = .ok (polyOf (KP.mul p (KP.ofInt n))) := by
  rw [poly_mul_int_unfold, poly_eq_int_zero]
  unfold KP.mul KP.eqZero
  rw [isZeroish_ofInt]
  simp only [ok_bind]
  by_cases z : (isZeroish p || n == 0) = true
  · rw [if_pos z, if_pos z]; rfl
  · rw [if_neg z, if_neg z]
    obtain ⟨s', h1, h2⟩ := mul_outer_loop p (KP.ofInt n) ([], [], [], [], 0, 0, Py.Atom.none, Py.Atom.none) rfl
    have e : [[Py.Atom.num n]] = polyOf (KP.ofInt n) := rfl
    rw [e]
    simp only [length_polyOf]
    rw [h1]
    simp only [ok_bind, h2]
    rfl

end Kingdon.SrcPolyEq

/-
  C04/C05: blade-wise operators on key/value lists.
-/
import Kingdon.Lemmas.CodegenDen
namespace Kingdon
open Finsupp
noncomputable section
variable {α : Type} [CommRing α]

theorem den_append (x y : MV α) : den (x ++ y) = den x + den y := by
  induction x with
  | nil => simp
  | cons p x ih => simp [ih, add_assoc]

theorem den_insertSub (r : MV α) (k : Nat) (t : α) : den (insertSub r k t) = den r - single k t := by
  induction r with
  | nil => simp [insertSub]
  | cons p r ih =>
    obtain ⟨k', v⟩ := p
    by_cases h : k' = k
    · subst h; simp [insertSub, sub_eq_add_neg, single_add]; abel
    · simp [insertSub, h, ih]; abel

theorem den_foldl_insertAdd (y x : MV α) :
    den (y.foldl (fun vals (kv : Nat × α) => insertAdd vals kv.1 kv.2) x) = den x + den y := by
  induction y generalizing x with
  | nil => simp
  | cons q y ih => simp [ih, den_insertAdd]; abel

theorem den_foldl_insertSub (y x : MV α) :
    den (y.foldl (fun vals (kv : Nat × α) => insertSub vals kv.1 kv.2) x) = den x - den y := by
  induction y generalizing x with
  | nil => simp
  | cons q y ih => simp [ih, den_insertSub]; abel

/-- C04: `a + b` combines coefficients blade by blade, a missing blade counting as zero -/
theorem add_den (x y : MV α) : den (add x y) = den x + den y := by
  unfold add; exact den_foldl_insertAdd y x

/-- C04: `a - b` carries minus b's coefficient on blades only b stores -/
theorem sub_den (x y : MV α) : den (sub x y) = den x - den y := by
  unfold sub; exact den_foldl_insertSub y x

/-- C04: `-a` -/
theorem neg_den (x : MV α) : den (neg x) = - den x := by
  induction x with
  | nil => simp [neg]
  | cons p x ih =>
    have : neg (p :: x) = (p.1, -p.2) :: neg x := rfl
    rw [this, den_cons, den_cons, ih]; simp; abel

/-- blade-wise scaling by a sign function of the key -/
def lin (f : Nat → Int) (a : ℕ →₀ α) : ℕ →₀ α := a.sum fun k v => single k ((f k : α) * v)

theorem lin_single (f : Nat → Int) (k : Nat) (v : α) : lin f (single k v) = single k ((f k : α) * v) := by
  simp [lin, Finsupp.sum_single_index]

theorem lin_add (f : Nat → Int) (a b : ℕ →₀ α) : lin f (a + b) = lin f a + lin f b := by
  classical
  unfold lin
  rw [Finsupp.sum_add_index' (by intro; simp) (by intro i x y; simp [mul_add])]

@[simp] theorem lin_zero (f : Nat → Int) : lin f (0 : ℕ →₀ α) = 0 := by simp [lin]

/-- the sign an involution with inverted grade set `gs` (mod 4) puts on blade `k` -/
def involSign (gs : List Nat) (k : Nat) : Int := if gs.contains (popcount k % 4) then -1 else 1

/-- C04: the involutions act blade-wise by the sign of the grade mod 4 -/
theorem involutions_den (gs : List Nat) (x : MV α) : den (involutions gs x) = lin (involSign gs) (den x) := by
  induction x with
  | nil => simp [involutions]
  | cons p x ih =>
    have : involutions gs (p :: x) = (p.1, if gs.contains (popcount p.1 % 4) then -p.2 else p.2) :: involutions gs x := rfl
    rw [this, den_cons, den_cons, lin_add, lin_single, ih]
    congr 1
    unfold involSign
    split <;> simp

/-- C04: each involution is an involution (already on the stored lists) -/
theorem involutions_involutive (gs : List Nat) (x : MV α) : involutions gs (involutions gs x) = x := by
  induction x with
  | nil => rfl
  | cons p x ih =>
    have h1 : involutions gs (p :: x) = (p.1, if gs.contains (popcount p.1 % 4) then -p.2 else p.2) :: involutions gs x := rfl
    rw [h1]
    have h2 : ∀ (q : Nat × α) (r : MV α), involutions gs (q :: r) =
        (q.1, if gs.contains (popcount q.1 % 4) then -q.2 else q.2) :: involutions gs r := fun _ _ => rfl
    rw [h2, ih]
    congr 1
    obtain ⟨k, v⟩ := p
    simp only
    split <;> simp

/-- C05: Hodge dual and undual are mutually inverse on the stored lists, for every sign table, as soon as the
    keys lie inside the algebra (`k ≤ pss`): both directions read the same table entry `signs[eI, pss - eI]`. -/
theorem unhodge_hodge (c : Cfg) (x : MV α) (hk : ∀ p ∈ x, p.1 ≤ c.pss) : unhodge c (hodge c x) = x := by
  induction x with
  | nil => rfl
  | cons p x ih =>
    obtain ⟨k, v⟩ := p
    have hk' : k ≤ c.pss := hk (k, v) (by simp)
    have ih' := ih (fun q hq => hk q (by simp [hq]))
    simp only [unhodge, hodge, hodgeGen, List.map_cons, Bool.false_eq_true, if_false, if_true] at ih' ⊢
    rw [ih']
    have e : c.pss - (c.pss - k) = k := by omega
    rw [e]
    congr 1
    split <;> simp

theorem hodge_unhodge (c : Cfg) (x : MV α) (hk : ∀ p ∈ x, p.1 ≤ c.pss) : hodge c (unhodge c x) = x := by
  induction x with
  | nil => rfl
  | cons p x ih =>
    obtain ⟨k, v⟩ := p
    have hk' : k ≤ c.pss := hk (k, v) (by simp)
    have ih' := ih (fun q hq => hk q (by simp [hq]))
    simp only [unhodge, hodge, hodgeGen, List.map_cons, Bool.false_eq_true, if_false, if_true] at ih' ⊢
    rw [ih']
    have e : c.pss - (c.pss - k) = k := by omega
    rw [e]
    congr 1
    split <;> simp

end
end Kingdon

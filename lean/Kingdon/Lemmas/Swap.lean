import Kingdon.Lemmas.Word
import Mathlib.Data.List.Basic
import Mathlib.Data.List.Nodup
namespace Kingdon

def Valid (sig : List Int) (w : List Nat) : Prop := ∀ g ∈ w, g < sig.length

theorem swap_adj (sig) (a b : Nat) (w : List Nat) (ha : a < sig.length) (hb : b < sig.length) (h : a ≠ b) :
    evalWord sig (a :: b :: w) = SB.smul (-1) (evalWord sig (b :: a :: w)) := by
  simp only [evalWord]
  rw [← SB.mul_assoc, gen_anticomm sig a b ha hb h, SB.smul_mul, SB.mul_assoc]

theorem contract_adj (sig) (a : Nat) (w : List Nat) (ha : a < sig.length) :
    evalWord sig (a :: a :: w) = SB.smul sig[a]! (evalWord sig w) := by
  simp only [evalWord]
  rw [← SB.mul_assoc, gen_sq sig a ha, SB.smul_mul, SB.one_mul]

/-- moving a generator leftwards over a block that does not contain it -/
theorem move_front (sig) (g : Nat) (l2 l3 : List Nat) (hg : g < sig.length)
    (h2 : Valid sig l2) (hn : g ∉ l2) :
    evalWord sig (l2 ++ g :: l3) = SB.smul ((-1) ^ l2.length) (evalWord sig (g :: (l2 ++ l3))) := by
  induction l2 with
  | nil => simp [SB.one_smul]
  | cons a l2 ih =>
    have ha : a < sig.length := h2 a (by simp)
    have hne : a ≠ g := by intro e; apply hn; simp [e]
    have ih' := ih (fun x hx => h2 x (by simp [hx])) (by intro hm; apply hn; simp [hm])
    calc evalWord sig ((a :: l2) ++ g :: l3)
        = SB.mul sig (gen a) (evalWord sig (l2 ++ g :: l3)) := by simp [evalWord]
      _ = SB.mul sig (gen a) (SB.smul ((-1) ^ l2.length) (evalWord sig (g :: (l2 ++ l3)))) := by rw [ih']
      _ = SB.smul ((-1) ^ l2.length) (evalWord sig (a :: g :: (l2 ++ l3))) := by
            rw [SB.mul_smul]; simp [evalWord]
      _ = SB.smul ((-1) ^ l2.length) (SB.smul (-1) (evalWord sig (g :: a :: (l2 ++ l3)))) := by
            rw [swap_adj sig a g _ ha hg hne]
      _ = SB.smul ((-1) ^ (a :: l2).length) (evalWord sig (g :: ((a :: l2) ++ l3))) := by
            rw [SB.smul_smul]; simp [Int.pow_succ]

theorem move_front' (sig) (g : Nat) (l1 l2 l3 : List Nat) (hg : g < sig.length)
    (h2 : Valid sig l2) (hn : g ∉ l2) :
    evalWord sig (l1 ++ (l2 ++ g :: l3)) = SB.smul ((-1) ^ l2.length) (evalWord sig (l1 ++ g :: (l2 ++ l3))) := by
  rw [evalWord_append, move_front sig g l2 l3 hg h2 hn, SB.mul_smul, ← evalWord_append]

end Kingdon

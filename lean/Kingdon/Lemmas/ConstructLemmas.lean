/-
  C15: construction and coefficient access round-trip, on the model of `MultiVector.__new__` (Model/Construct.lean).

  Structure of the proofs: `construct` is split (definitionally, `construct_eq`) into continuation layers
  `K0 … K5` that are literal copies of consecutive parts of its `do` block; each layer is then related to a
  plain stage function `st0 … st5`, which gives the inversion/evaluation principle `construct_ok_iff`.
-/
import Kingdon.Model.Construct
import Kingdon.Lemmas.CfgSign
import Kingdon.Lemmas.Products
import Kingdon.Lemmas.CfgAlgebra
import Mathlib.Algebra.Group.Defs
namespace Kingdon

theorem popcount_two_pow (g : Nat) : popcount (2 ^ g) = 1 := by
  induction g with
  | zero => rw [popcount_unfold]; simp [popcount]
  | succ g ih =>
    rw [popcount_unfold, Nat.pow_succ, Nat.mul_mod_left, Nat.mul_div_cancel _ (by omega), ih]

theorem two_pow_and_bitsOf (g : Nat) (w : List Nat) (hw : w.Nodup) (hg : g ∉ w) : 2 ^ g &&& bitsOf w = 0 := by
  apply Nat.eq_of_testBit_eq
  intro x
  rw [Nat.testBit_and, Nat.testBit_two_pow, testBit_bitsOf w hw]
  by_cases e : g = x
  · subst e; simp [hg]
  · simp [e]

theorem popcount_bitsOf (w : List Nat) (hw : w.Nodup) : popcount (bitsOf w) = w.length := by
  induction w with
  | nil => simp [bitsOf, popcount]
  | cons g w ih =>
    have hg := (List.nodup_cons.mp hw).1
    have hw' := (List.nodup_cons.mp hw).2
    have := popcount_xor_add (2 ^ g) (bitsOf w)
    rw [two_pow_and_bitsOf g w hw' hg, popcount_two_pow, ih hw'] at this
    simp only [bitsOf, List.length_cons]
    simp [popcount] at this
    omega

theorem popcount_le (d k : Nat) (hk : k < 2 ^ d) : popcount k ≤ d := by
  induction d generalizing k with
  | zero => simp at hk; subst hk; simp [popcount]
  | succ d ih =>
    rw [popcount_unfold]
    have := ih (k / 2) (by rw [Nat.pow_succ] at hk; omega)
    omega

theorem Cfg.popcount_binOf (c : Cfg) (h : Cfg.Adm c) (n : List Nat) (hn : n ∈ c.basis) :
    popcount (c.binOf n) = n.length := by
  rw [Cfg.binOf_eq_bitsOf, popcount_bitsOf _ (Cfg.wordOf_nodup c n (h.names_nodup n hn) (h.names_letters n hn))]
  simp [Cfg.wordOf]

theorem nodup_eraseDups (l : List Nat) : l.eraseDups.Nodup := by
  induction hn : l.length using Nat.strongRecOn generalizing l with
  | _ n ih =>
    cases l with
    | nil => simp
    | cons a as =>
      rw [List.eraseDups_cons, List.nodup_cons]
      constructor
      · simp
      · exact ih _ (by subst hn; simp; exact Nat.lt_succ_of_le (List.length_filter_le _ _)) _ rfl

end Kingdon

namespace Kingdon.Con
open Kingdon
variable {V : Type}

/-- coefficient stored for blade `k` (first occurrence), absent = 0 -/
def coeff [Zero V] (mv : List Nat × List V) (k : Nat) : V :=
  match (mv.1.zip mv.2).find? (·.1 == k) with
  | none => 0
  | some p => p.2

/-- the form "key sequence + value sequence" -/
def kvForm (ks : List Nat) (vs : List V) : Form V :=
  { values := .list vs, keys := some (ks.map KeyIn.int), name := none, grades := none, items := [] }

/-- with Adm, the grade-g keys are exactly the keys of popcount g -/
theorem mem_indicesForGrade (c : Cfg) (h : Cfg.Adm c) (g k : Nat) :
    k ∈ c.indicesForGrade g ↔ (k < 2 ^ c.d ∧ popcount k = g) := by
  unfold Cfg.indicesForGrade
  simp only [List.mem_map, List.mem_filter, beq_iff_eq]
  constructor
  · rintro ⟨n, ⟨hn, hl⟩, rfl⟩
    exact ⟨Cfg.binOf_lt c h n hn, by rw [Cfg.popcount_binOf c h n hn, hl]⟩
  · rintro ⟨hk, hp⟩
    obtain ⟨hb, he⟩ := Cfg.nameOf_mem c h k hk
    refine ⟨c.nameOf k, ⟨hb, ?_⟩, he⟩
    rw [← Cfg.popcount_binOf c h _ hb, he, hp]

theorem gradesOfKeys_sorted (ks : List Nat) : (gradesOfKeys ks).Pairwise (· < ·) := by
  unfold gradesOfKeys
  have h1 : (((ks.map popcount).eraseDups).mergeSort).Pairwise (fun a b => a ≤ b) := by
    have := List.pairwise_mergeSort (le := fun a b => decide (a ≤ b))
      (by intro a b c; simp; omega) (by intro a b; simp; omega) ((ks.map popcount).eraseDups)
    simpa using this
  have h2 : (((ks.map popcount).eraseDups).mergeSort).Nodup :=
    (List.mergeSort_perm _ _).nodup_iff.mpr (nodup_eraseDups _)
  exact (h1.and h2).imp (fun ⟨a, b⟩ => by omega)

theorem mem_gradesOfKeys (ks : List Nat) (g : Nat) : g ∈ gradesOfKeys ks ↔ ∃ k ∈ ks, popcount k = g := by
  unfold gradesOfKeys
  simp

theorem lookup_gradesOfKeys (c : Cfg) (ks : List Nat) (hk : ∀ k ∈ ks, k < 2 ^ c.d) :
    indicesForGradesLookup c (gradesOfKeys ks) = .ok (c.indicesForGrades (gradesOfKeys ks)) := by
  unfold indicesForGradesLookup
  rw [if_pos]
  simp only [Bool.and_eq_true, decide_eq_true_eq, List.all_eq_true]
  refine ⟨gradesOfKeys_sorted ks, ?_⟩
  intro g hg
  obtain ⟨k, hk', rfl⟩ := (mem_gradesOfKeys ks g).mp hg
  exact popcount_le _ _ (hk k hk')

theorem sanitizeKeys_int (c : Cfg) (ks : List Nat) : sanitizeKeys c (ks.map KeyIn.int) = .ok (ks.map KeyIn.int) := by
  unfold sanitizeKeys
  rw [if_pos]
  simp [isInt]

theorem map_keyNat_int (ks : List Nat) : (ks.map KeyIn.int).map keyNat = ks := by
  simp [keyNat, Function.comp_def]

def K4 (c : Cfg) (mkSym : String → List Nat → V) (fname : Option String) (values0 : ValuesIn V)
   (keys2 : List KeyIn) (grades2 : List Nat) : Except Err (List Nat × List V) := do
  let named := match fname with | some nm => !nm.isEmpty | none => false
  let (keys3, values3) : List KeyIn × List V ←
    match values0 with
    | .mapping items => pure (items.map (·.1), items.map (·.2))
    | .none | .list [] =>
      -- `len(values) == len(indices_for_grades[grades]) and not keys`
      let exp ← indicesForGradesLookup c grades2
      if exp.isEmpty && keys2.isEmpty then pure (([] : List KeyIn), ([] : List V))
      else if named then
        let ks := if keys2.isEmpty then exp.map KeyIn.int else keys2
        pure (ks, ks.map fun k => mkSym (fname.getD "") (c.nameOf (keyNat k)))
      else if keys2.length != 0 then throw Err.typeError
      else pure (keys2, [])
    | .list vs =>
      let exp ← indicesForGradesLookup c grades2
      if vs.length == exp.length && keys2.isEmpty then pure (exp.map KeyIn.int, vs)
      else if keys2.length != vs.length then throw Err.typeError
      else pure (keys2, vs)
  let keys4 ← sanitizeKeys c keys3
  let keysN := keys4.map keyNat
  let exp ← indicesForGradesLookup c grades2
  if !keysN.all (exp.contains ·) then throw Err.valueError
  pure (keysN, values3)

def K3 (c : Cfg) (graded : Bool) (mkSym : String → List Nat → V) (fname : Option String) (values0 : ValuesIn V)
   (keys2 : List KeyIn) (grades2 : List Nat) : Except Err (List Nat × List V) := do
  if graded && !keys2.isEmpty then
    let exp ← indicesForGradesLookup c grades2
    if keys2.map keyNat != exp || !keys2.all isInt then throw Err.valueError
  K4 c mkSym fname values0 keys2 grades2

def K1 (c : Cfg) (graded : Bool) (mkSym : String → List Nat → V) (fgrades : Option (List Int)) (fname : Option String)
   (keys0 : Option (List KeyIn)) (values0 : ValuesIn V) : Except Err (List Nat × List V) := do
  let keys1 ← match keys0 with
    | none => pure none
    | some ks => do let ks' ← sanitizeKeys c ks; pure (some ks')
  let grades1 : Option (List Int) :=
    match fgrades, fname, keys1 with
    | none, some nm, some ks => if nm.isEmpty then none else some ((gradesOfKeys (ks.map keyNat)).map Int.ofNat)
    | g, _, _ => g
  let keys2 : List KeyIn := keys1.getD []
  -- grades
  let grades2 : List Nat ←
    match grades1 with
    | some gs => if gs.all (fun g => 0 ≤ g && g ≤ (c.d : Int)) then pure (gs.map Int.toNat) else throw Err.valueError
    | none => if !keys2.isEmpty then pure (gradesOfKeys (keys2.map keyNat)) else pure (List.range (c.d + 1))
  K3 c graded mkSym fname values0 keys2 grades2

def K0 [Neg V] (c : Cfg) (graded : Bool) (mkSym : String → List Nat → V) (f : Form V) : Except Err (List Nat × List V) := do
  let (keys0, values0) ←
    match f.items, f.keys, f.values with
    | _ :: _, none, .none => do
      let (ks, vs) ← keywordBranch c f.items
      pure (some ks, ValuesIn.list vs)
    | _, _, _ => pure (f.keys, f.values)
  K1 c graded mkSym f.grades f.name keys0 values0

theorem construct_eq [Neg V] (c : Cfg) (graded : Bool) (mkSym : String → List Nat → V) (f : Form V) :
    construct c graded mkSym f = K0 c graded mkSym f := by
  rfl

theorem mem_indicesForGrades_self (c : Cfg) (h : Cfg.Adm c) (ks : List Nat) (hk : ∀ k ∈ ks, k < 2 ^ c.d) :
    ∀ k ∈ ks, k ∈ c.indicesForGrades (gradesOfKeys ks) := by
  intro k hk'
  unfold Cfg.indicesForGrades
  rw [List.mem_flatMap]
  exact ⟨popcount k, (mem_gradesOfKeys ks _).mpr ⟨k, hk', rfl⟩, (mem_indicesForGrade c h _ _).mpr ⟨hk k hk', rfl⟩⟩

theorem K1_kv (c : Cfg) (h : Cfg.Adm c) (mkSym : String → List Nat → V) (keysIn : List KeyIn) (ks : List Nat) (vs : List V)
    (hs : sanitizeKeys c keysIn = .ok (ks.map KeyIn.int))
    (hk : ∀ k ∈ ks, k < 2 ^ c.d) (hne : ks ≠ []) (hl : ks.length = vs.length) :
    K1 c false mkSym none none (some keysIn) (.list vs) = .ok (ks, vs) := by
  have he : (ks.map KeyIn.int).isEmpty = false := by cases ks <;> simp at hne ⊢
  cases vs with
  | nil => simp at hl; exact absurd hl hne
  | cons v vs =>
    unfold K1
    simp only [hs, bind, Except.bind, pure, Except.pure, Option.getD, he, map_keyNat_int]
    unfold K3
    simp only [Bool.false_and, Bool.false_eq_true, if_false]
    unfold K4
    simp only [lookup_gradesOfKeys c ks hk, bind, Except.bind, pure, Except.pure, he, Bool.and_false,
      List.length_map, hl, bne_self_eq_false, Bool.false_eq_true, if_false, sanitizeKeys_int, map_keyNat_int]
    have hall : (ks.all fun x => (c.indicesForGrades (gradesOfKeys ks)).contains x) = true := by
      rw [List.all_eq_true]; intro k hk'
      simpa using mem_indicesForGrades_self c h ks hk k hk'
    simp only [hall, Bool.not_false, Bool.not_true, Bool.false_eq_true, if_true, if_false]

/-- key/value sequences (integer keys inside the algebra, equal lengths) are stored verbatim -/
theorem construct_kv [Neg V] (c : Cfg) (h : Cfg.Adm c) (mkSym : String → List Nat → V) (ks : List Nat) (vs : List V)
    (hk : ∀ k ∈ ks, k < 2 ^ c.d) (hne : ks ≠ []) (hl : ks.length = vs.length) :
    construct c false mkSym (kvForm ks vs) = .ok (ks, vs) := by
  rw [construct_eq]
  simp only [K0, kvForm, bind, Except.bind, pure, Except.pure]
  exact K1_kv c h mkSym _ ks vs (sanitizeKeys_int c ks) hk hne hl

theorem getattr_of_blade2canon [Neg V] [Zero V] (c : Cfg) (mv : List Nat × List V) (sp canon : List Nat) (swaps : Nat)
    (hb : c.blade2canon sp = some (canon, swaps)) (hc : canon ∈ c.basis)
    (hz : swaps % 2 = 0 ∨ -(0 : V) = 0 ∨ ((mv.1.zip mv.2).find? (·.1 == c.binOf canon)).isSome) :
    getattr c mv sp = (if swaps % 2 = 0 then coeff mv (c.binOf canon) else - coeff mv (c.binOf canon)) := by
  unfold getattr coeff
  have hc' : c.basis.contains canon = true := by simpa using hc
  simp only [hb, hc', Bool.not_true, Bool.false_eq_true, if_false]
  cases hf : (mv.1.zip mv.2).find? (fun x => x.1 == c.binOf canon) with
  | none =>
    rcases hz with hz | hz | hz
    · simp [hz]
    · simp [hz]
    · rw [hf] at hz; cases hz
  | some p => simp

/-- ORIGINAL STATEMENT, kept as a proposition: it is false as written, because with only `[Neg V] [Zero V]`
    nothing forces `-0 = 0`; when the blade is not stored `getattr` returns `0` while the right-hand side is `-0`
    for an odd swap count (see `getattr_spelling_false`).  The correct variants are
    `getattr_spelling_partial` (extra hypothesis `-0 = 0`) and `getattr_spelling_stored_partial` (blade stored). -/
def getattr_spelling : Prop :=
  ∀ {V : Type} [Neg V] [Zero V] (c : Cfg) (_ : Cfg.Adm c) (mv : List Nat × List V) (sp n : List Nat)
    (_ : n ∈ c.basis) (_ : sp.Perm n),
    ∃ canon swaps, c.blade2canon sp = some (canon, swaps) ∧ canon ∈ c.basis ∧ canon.Perm sp ∧
      getattr c mv sp = (if swaps % 2 = 0 then coeff mv (c.binOf canon) else - coeff mv (c.binOf canon))

/-- the counterexample: 2-dimensional default algebra, `V = Bool` with `-b = !b`, `0 = false`, empty
    multivector, spelling `e21` of `e12` -/
theorem getattr_spelling_false : ¬ getattr_spelling := by
  intro H
  have hadm : Cfg.Adm (Cfg.default [1, 1] 1) := Cfg.adm_of_admissible _ (by decide)
  obtain ⟨canon, swaps, hb, _, _, hg⟩ :=
    @H Bool ⟨not⟩ ⟨false⟩ (Cfg.default [1, 1] 1) hadm ([], []) [2, 1] [1, 2] (by decide) (List.Perm.swap 1 2 [])
  have : (Cfg.default [1, 1] 1).blade2canon [2, 1] = some ([1, 2], 1) := by decide
  rw [this] at hb
  cases hb
  revert hg
  decide

/-- reading back with any spelling of a blade: the coefficient of the canonical blade, negated iff the swap count
    reported for the spelling is odd (`Cfg.blade2canon_sound` says that this count is the parity relating the
    ordered products of the two spellings).  Needs `-0 = 0` (true in every additive group). -/
theorem getattr_spelling_partial [Neg V] [Zero V] (c : Cfg) (h : Cfg.Adm c) (mv : List Nat × List V) (sp n : List Nat)
    (hn : n ∈ c.basis) (hp : sp.Perm n) (hz : -(0 : V) = 0) :
    ∃ canon swaps, c.blade2canon sp = some (canon, swaps) ∧ canon ∈ c.basis ∧ canon.Perm sp ∧
      getattr c mv sp = (if swaps % 2 = 0 then coeff mv (c.binOf canon) else - coeff mv (c.binOf canon)) := by
  obtain ⟨canon, swaps, hb, hc, hperm, _⟩ := Cfg.blade2canon_sound c h sp n hn hp
  exact ⟨canon, swaps, hb, hc, hperm, getattr_of_blade2canon c mv sp canon swaps hb hc (Or.inr (Or.inl hz))⟩

/-- the same without any assumption on `V`, for blades that are stored in the multivector -/
theorem getattr_spelling_stored_partial [Neg V] [Zero V] (c : Cfg) (h : Cfg.Adm c) (mv : List Nat × List V) (sp n : List Nat)
    (hn : n ∈ c.basis) (hp : sp.Perm n)
    (hst : ((mv.1.zip mv.2).find? (·.1 == c.binOf n)).isSome) :
    ∃ canon swaps, c.blade2canon sp = some (canon, swaps) ∧ canon ∈ c.basis ∧ canon.Perm sp ∧
      getattr c mv sp = (if swaps % 2 = 0 then coeff mv (c.binOf canon) else - coeff mv (c.binOf canon)) := by
  obtain ⟨canon, swaps, hb, hc, hperm, _⟩ := Cfg.blade2canon_sound c h sp n hn hp
  have hbin : c.binOf canon = c.binOf n :=
    Cfg.binOf_perm c canon n (h.names_nodup _ hc) (h.names_letters _ hc) (hperm.trans hp)
  exact ⟨canon, swaps, hb, hc, hperm,
    getattr_of_blade2canon c mv sp canon swaps hb hc (Or.inr (Or.inr (by rw [hbin]; exact hst)))⟩

theorem blade2canon_basis (c : Cfg) (n : List Nat) (hn : n ∈ c.basis) : c.blade2canon n = some (n, 0) := by
  unfold Cfg.blade2canon
  simp [hn]

/-- a canonical spelling reads the stored coefficient itself; a blade that is not stored reads 0 -/
theorem getattr_canonical [Neg V] [Zero V] (c : Cfg) (mv : List Nat × List V) (n : List Nat) (hn : n ∈ c.basis) :
    getattr c mv n = coeff mv (c.binOf n) := by
  rw [getattr_of_blade2canon c mv n n 0 (blade2canon_basis c n hn) hn (Or.inl rfl)]
  simp

def st1 (c : Cfg) (keys0 : Option (List KeyIn)) : Except Err (Option (List KeyIn)) :=
  match keys0 with
    | none => pure none
    | some ks => do let ks' ← sanitizeKeys c ks; pure (some ks')

def grades1 (fgrades : Option (List Int)) (fname : Option String) (keys1 : Option (List KeyIn)) : Option (List Int) :=
    match fgrades, fname, keys1 with
    | none, some nm, some ks => if nm.isEmpty then none else some ((gradesOfKeys (ks.map keyNat)).map Int.ofNat)
    | g, _, _ => g

def st2 (c : Cfg) (grades1 : Option (List Int)) (keys2 : List KeyIn) : Except Err (List Nat) :=
    match grades1 with
    | some gs => if gs.all (fun g => 0 ≤ g && g ≤ (c.d : Int)) then pure (gs.map Int.toNat) else throw Err.valueError
    | none => if !keys2.isEmpty then pure (gradesOfKeys (keys2.map keyNat)) else pure (List.range (c.d + 1))

def st3 (c : Cfg) (graded : Bool) (keys2 : List KeyIn) (grades2 : List Nat) : Except Err PUnit :=
  if graded && !keys2.isEmpty then do
    let exp ← indicesForGradesLookup c grades2
    if keys2.map keyNat != exp || !keys2.all isInt then throw Err.valueError else pure ⟨⟩
  else pure ⟨⟩

def st4 (c : Cfg) (mkSym : String → List Nat → V) (fname : Option String) (values0 : ValuesIn V)
   (keys2 : List KeyIn) (grades2 : List Nat) : Except Err (List KeyIn × List V) :=
  let named := match fname with | some nm => !nm.isEmpty | none => false
    match values0 with
    | .mapping items => pure (items.map (·.1), items.map (·.2))
    | .none | .list [] => do
      let exp ← indicesForGradesLookup c grades2
      if exp.isEmpty && keys2.isEmpty then pure (([] : List KeyIn), ([] : List V))
      else if named then
        let ks := if keys2.isEmpty then exp.map KeyIn.int else keys2
        pure (ks, ks.map fun k => mkSym (fname.getD "") (c.nameOf (keyNat k)))
      else if keys2.length != 0 then throw Err.typeError
      else pure (keys2, [])
    | .list vs => do
      let exp ← indicesForGradesLookup c grades2
      if vs.length == exp.length && keys2.isEmpty then pure (exp.map KeyIn.int, vs)
      else if keys2.length != vs.length then throw Err.typeError
      else pure (keys2, vs)

def st5 (c : Cfg) (grades2 : List Nat) (keys3 : List KeyIn) (values3 : List V) : Except Err (List Nat × List V) := do
  let keys4 ← sanitizeKeys c keys3
  let exp ← indicesForGradesLookup c grades2
  if !(keys4.map keyNat).all (exp.contains ·) then throw Err.valueError else pure (keys4.map keyNat, values3)

theorem K1_eq (c : Cfg) (graded : Bool) (mkSym : String → List Nat → V) (fg : Option (List Int)) (fn : Option String)
   (keys0 : Option (List KeyIn)) (values0 : ValuesIn V) :
   K1 c graded mkSym fg fn keys0 values0 =
     st1 c keys0 >>= fun keys1 => st2 c (grades1 fg fn keys1) (keys1.getD []) >>= fun grades2 =>
       K3 c graded mkSym fn values0 (keys1.getD []) grades2 := by
  unfold K1 st1 st2 grades1
  cases keys0 with
  | none =>
    cases fg <;> cases fn <;> simp only [bind, Except.bind, pure, Except.pure] <;> split <;> rfl
  | some ks =>
    simp only [bind, Except.bind, pure, Except.pure]
    cases sanitizeKeys c ks with
    | error e => rfl
    | ok ks' =>
      cases fg <;> cases fn <;> simp only [] <;> split <;> first | rfl | (split <;> rfl)

theorem K3_eq (c : Cfg) (graded : Bool) (mkSym : String → List Nat → V) (fn : Option String)
   (values0 : ValuesIn V) (keys2 : List KeyIn) (grades2 : List Nat) :
   K3 c graded mkSym fn values0 keys2 grades2 =
     st3 c graded keys2 grades2 >>= fun _ => K4 c mkSym fn values0 keys2 grades2 := by
  unfold K3 st3
  split
  · simp only [bind, Except.bind, pure, Except.pure]
    cases indicesForGradesLookup c grades2 with
    | error e => rfl
    | ok exp => simp only; split <;> rfl
  · rfl

def K5 (c : Cfg) (grades2 : List Nat) (keys3 : List KeyIn) (values3 : List V) : Except Err (List Nat × List V) := do
  let keys4 ← sanitizeKeys c keys3
  let keysN := keys4.map keyNat
  let exp ← indicesForGradesLookup c grades2
  if !keysN.all (exp.contains ·) then throw Err.valueError
  pure (keysN, values3)

theorem K5_eq (c : Cfg) (grades2 : List Nat) (keys3 : List KeyIn) (values3 : List V) :
    K5 c grades2 keys3 values3 = st5 c grades2 keys3 values3 := by
  unfold K5 st5
  simp only [bind, Except.bind, pure, Except.pure]
  cases sanitizeKeys c keys3 with
  | error e => rfl
  | ok k4 =>
    simp only
    cases indicesForGradesLookup c grades2 with
    | error e => rfl
    | ok exp => simp only; split <;> rfl

theorem throw_bind' {α β : Type} (e : Err) (f : α → Except Err β) : ((throw e : Except Err α) >>= f) = throw e := rfl

theorem K4_eq' (c : Cfg) (mkSym : String → List Nat → V) (fn : Option String)
   (values0 : ValuesIn V) (keys2 : List KeyIn) (grades2 : List Nat) :
   K4 c mkSym fn values0 keys2 grades2 =
     st4 c mkSym fn values0 keys2 grades2 >>= fun kv => K5 c grades2 kv.1 kv.2 := by
  unfold K4 st4 K5
  cases values0 with
  | mapping items => rfl
  | none =>
    simp only [pure_bind, bind_assoc, throw_bind']
    congr 1; funext exp
    repeat' split
    all_goals rfl
  | list vs =>
    cases vs with
    | nil =>
      simp only [pure_bind, bind_assoc, throw_bind']
      congr 1; funext exp
      repeat' split
      all_goals rfl
    | cons v vs =>
      simp only [pure_bind, bind_assoc, throw_bind']
      congr 1; funext exp
      repeat' split
      all_goals rfl

theorem K4_eq (c : Cfg) (mkSym : String → List Nat → V) (fn : Option String)
   (values0 : ValuesIn V) (keys2 : List KeyIn) (grades2 : List Nat) :
   K4 c mkSym fn values0 keys2 grades2 =
     st4 c mkSym fn values0 keys2 grades2 >>= fun kv => st5 c grades2 kv.1 kv.2 := by
  simp only [K4_eq', K5_eq]

def st0 [Neg V] (c : Cfg) (f : Form V) : Except Err (Option (List KeyIn) × ValuesIn V) :=
    match f.items, f.keys, f.values with
    | _ :: _, none, .none => do
      let (ks, vs) ← keywordBranch c f.items
      pure (some ks, ValuesIn.list vs)
    | _, _, _ => pure (f.keys, f.values)

theorem K0_eq [Neg V] (c : Cfg) (graded : Bool) (mkSym : String → List Nat → V) (f : Form V) :
    K0 c graded mkSym f = st0 c f >>= fun kv => K1 c graded mkSym f.grades f.name kv.1 kv.2 := by
  unfold K0 st0
  split
  · simp only [bind_assoc, pure_bind]
  · rfl

theorem bind_ok {α β : Type} (x : Except Err α) (f : α → Except Err β) (y : β) :
    (x >>= f) = .ok y ↔ ∃ a, x = .ok a ∧ f a = .ok y := by
  cases x with
  | error e => simp [bind, Except.bind]
  | ok a => simp [bind, Except.bind]

theorem construct_ok_iff [Neg V] (c : Cfg) (graded : Bool) (mkSym : String → List Nat → V) (f : Form V) (mv : List Nat × List V) :
    construct c graded mkSym f = .ok mv ↔
      ∃ kv0 keys1 grades2 kv3, st0 c f = .ok kv0 ∧ st1 c kv0.1 = .ok keys1 ∧
        st2 c (grades1 f.grades f.name keys1) (keys1.getD []) = .ok grades2 ∧
        st3 c graded (keys1.getD []) grades2 = .ok ⟨⟩ ∧
        st4 c mkSym f.name kv0.2 (keys1.getD []) grades2 = .ok kv3 ∧
        st5 c grades2 kv3.1 kv3.2 = .ok mv := by
  rw [construct_eq, K0_eq]
  simp only [K1_eq, K3_eq, K4_eq, bind_ok]
  constructor
  · rintro ⟨kv0, h0, keys1, h1, g2, h2, u, h3, kv3, h4, h5⟩
    exact ⟨kv0, keys1, g2, kv3, h0, h1, h2, h3, h4, h5⟩
  · rintro ⟨kv0, keys1, g2, kv3, h0, h1, h2, h3, h4, h5⟩
    exact ⟨kv0, h0, keys1, h1, g2, h2, ⟨⟩, h3, kv3, h4, h5⟩

theorem st0_nil [Neg V] (c : Cfg) (f : Form V) (hf : f.items = []) : st0 c f = .ok (f.keys, f.values) := by
  unfold st0
  split
  · rename_i h _ _; rw [hf] at h; cases h
  · rfl

theorem st1_int (c : Cfg) (ks : List Nat) : st1 c (some (ks.map KeyIn.int)) = .ok (some (ks.map KeyIn.int)) := by
  simp only [st1, sanitizeKeys_int, bind, Except.bind, pure, Except.pure]

theorem grades1_none_name (g : Option (List Int)) (k : Option (List KeyIn)) : grades1 g none k = g := by
  unfold grades1; split <;> simp_all

theorem grades1_some (gs : List Int) (n : Option String) (k : Option (List KeyIn)) : grades1 (some gs) n k = some gs := by
  unfold grades1; split <;> simp_all

theorem isEmpty_map_int (ks : List Nat) (hne : ks ≠ []) : (ks.map KeyIn.int).isEmpty = false := by
  cases ks <;> simp at hne ⊢

/-- length mismatch between keys and values raises (TypeError in the code) -/
theorem length_mismatch_raises [Neg V] (c : Cfg) (graded : Bool) (mkSym : String → List Nat → V) (ks : List Nat) (vs : List V)
    (gs : Option (List Int)) (hne : ks ≠ []) (hl : ks.length ≠ vs.length) (hv : vs ≠ []) :
    ∀ mv, construct c graded mkSym { values := .list vs, keys := some (ks.map KeyIn.int), name := none, grades := gs, items := [] } ≠ .ok mv := by
  intro mv hmv
  obtain ⟨kv0, keys1, g2, kv3, h0, h1, h2, h3, h4, h5⟩ := (construct_ok_iff _ _ _ _ _).mp hmv
  rw [st0_nil _ _ rfl] at h0
  cases h0
  simp only [st1_int] at h1
  cases h1
  cases vs with
  | nil => exact hv rfl
  | cons v vs =>
    simp only [st4, Option.getD, bind, Except.bind, isEmpty_map_int ks hne] at h4
    cases hx : indicesForGradesLookup c g2 with
    | error e => rw [hx] at h4; cases h4
    | ok exp =>
      rw [hx] at h4
      simp only [Bool.and_false, Bool.false_eq_true, if_false, List.length_map] at h4
      rw [if_pos (by simpa using hl)] at h4
      cases h4

theorem lookup_ok (c : Cfg) (gs exp : List Nat) (h : indicesForGradesLookup c gs = .ok exp) :
    exp = c.indicesForGrades gs := by
  unfold indicesForGradesLookup at h
  split at h
  · cases h; rfl
  · cases h

/-- in graded mode a key sequence that is not the complete key tuple of its grades raises -/
theorem graded_incomplete_raises [Neg V] (c : Cfg) (mkSym : String → List Nat → V) (ks : List Nat) (vs : List V)
    (hne : ks ≠ []) (hinc : ∀ gs, c.indicesForGrades gs ≠ ks) :
    ∀ mv, construct c true mkSym (kvForm ks vs) ≠ .ok mv := by
  intro mv hmv
  obtain ⟨kv0, keys1, g2, kv3, h0, h1, h2, h3, h4, h5⟩ := (construct_ok_iff _ _ _ _ _).mp hmv
  rw [st0_nil _ _ rfl] at h0
  cases h0
  simp only [kvForm, st1_int] at h1
  cases h1
  simp only [st3, Option.getD, isEmpty_map_int ks hne, Bool.not_false, Bool.and_self, if_true, bind, Except.bind,
    map_keyNat_int] at h3
  cases hx : indicesForGradesLookup c g2 with
  | error e => rw [hx] at h3; cases h3
  | ok exp =>
    rw [hx] at h3
    have := lookup_ok c g2 exp hx
    have hne' : (ks != exp) = true := by
      simp only [bne_iff_ne, ne_eq]; intro e; exact hinc g2 (by rw [e, this])
    simp only [hne', Bool.true_or, if_true] at h3
    cases h3

/-- invalid grades (negative or above d) raise -/
theorem invalid_grades_raise [Neg V] (c : Cfg) (graded : Bool) (mkSym : String → List Nat → V) (f : Form V)
    (gs : List Int) (hg : f.grades = some gs) (g : Int) (hmem : g ∈ gs) (hbad : g < 0 ∨ (c.d : Int) < g)
    (hit : f.items = [] ∨ f.keys.isSome ∨ (match f.values with | .none => false | _ => true)) :
    ∀ mv, construct c graded mkSym f ≠ .ok mv := by
  have _ := hit
  intro mv hmv
  obtain ⟨kv0, keys1, g2, kv3, h0, h1, h2, h3, h4, h5⟩ := (construct_ok_iff _ _ _ _ _).mp hmv
  rw [hg, grades1_some] at h2
  simp only [st2] at h2
  rw [if_neg] at h2
  · cases h2
  · simp only [List.all_eq_true, Bool.and_eq_true, decide_eq_true_eq, not_forall]
    exact ⟨g, hmem, by omega⟩

/-- keys outside the declared grades raise -/
theorem keys_outside_grades_raise [Neg V] (c : Cfg) (h : Cfg.Adm c) (graded : Bool) (mkSym : String → List Nat → V)
    (ks : List Nat) (vs : List V) (gs : List Int) (k : Nat) (hk : k ∈ ks) (hg : (popcount k : Int) ∉ gs) :
    ∀ mv, construct c graded mkSym { values := .list vs, keys := some (ks.map KeyIn.int), name := none, grades := some gs, items := [] } ≠ .ok mv := by
  intro mv hmv
  have hne : ks ≠ [] := List.ne_nil_of_mem hk
  obtain ⟨kv0, keys1, g2, kv3, h0, h1, h2, h3, h4, h5⟩ := (construct_ok_iff _ _ _ _ _).mp hmv
  rw [st0_nil _ _ rfl] at h0
  cases h0
  simp only [st1_int] at h1
  cases h1
  rw [grades1_some] at h2
  simp only [st2] at h2
  split at h2
  · rename_i hall
    cases h2
    simp only [List.all_eq_true, Bool.and_eq_true, decide_eq_true_eq] at hall
    -- the keys that reach the final check are `ks`
    have h3' : kv3.1 = ks.map KeyIn.int := by
      cases vs with
      | nil =>
        simp only [st4, Option.getD, bind, Except.bind, isEmpty_map_int ks hne] at h4
        cases hx : indicesForGradesLookup c (gs.map Int.toNat) with
        | error e => rw [hx] at h4; cases h4
        | ok exp =>
          rw [hx] at h4
          have hl : ((ks.map KeyIn.int).length != 0) = true := by
            cases ks <;> simp at hne ⊢
          simp only [Bool.and_false, Bool.false_eq_true, if_false, hl, if_true] at h4
          cases h4
      | cons v vs =>
        simp only [st4, Option.getD, bind, Except.bind, isEmpty_map_int ks hne] at h4
        cases hx : indicesForGradesLookup c (gs.map Int.toNat) with
        | error e => rw [hx] at h4; cases h4
        | ok exp =>
          rw [hx] at h4
          simp only [Bool.and_false, Bool.false_eq_true, if_false] at h4
          split at h4
          · cases h4
          · cases h4; rfl
    simp only [st5, h3', sanitizeKeys_int, bind, Except.bind, map_keyNat_int] at h5
    cases hx : indicesForGradesLookup c (gs.map Int.toNat) with
    | error e => rw [hx] at h5; cases h5
    | ok exp =>
      rw [hx] at h5
      have := lookup_ok c _ exp hx
      subst this
      simp only [] at h5
      split at h5
      · cases h5
      · rename_i hc
        have hc' : ∀ x ∈ ks, x ∈ c.indicesForGrades (gs.map Int.toNat) := by simpa using hc
        have hk' := hc' k hk
        unfold Cfg.indicesForGrades at hk'
        rw [List.mem_flatMap] at hk'
        obtain ⟨g, hgm, hkg⟩ := hk'
        obtain ⟨g', hg', rfl⟩ := List.mem_map.mp hgm
        have := ((mem_indicesForGrade c h _ _).mp hkg).2
        apply hg
        have h0 := (hall g' hg').1
        have : (popcount k : Int) = g' := by omega
        rw [this]; exact hg'
  · cases h2

/-! ### the keyword branch -/

theorem rekeyItems_ok_known [Neg V] (c : Cfg) : ∀ (rest acc re : List (List Nat × V)),
    rekeyItems c rest acc = .ok re → ∀ it ∈ rest, it.1 ∈ c.basis ∨ (c.blade2canon it.1).isSome := by
  intro rest
  induction rest with
  | nil => intro acc re _ it hit; cases hit
  | cons p rest ih =>
    obtain ⟨sp, v⟩ := p
    intro acc re hre it hit
    rw [rekeyItems] at hre
    by_cases hb : c.basis.contains sp = true
    · rw [if_pos hb] at hre
      rcases List.mem_cons.mp hit with rfl | hit
      · left; simpa using hb
      · exact ih _ _ hre it hit
    · rw [if_neg hb] at hre
      cases hbc : c.blade2canon sp with
      | none => rw [hbc] at hre; cases hre
      | some ts =>
        obtain ⟨t, s⟩ := ts
        rw [hbc] at hre
        simp only at hre
        split at hre
        · cases hre
        · rcases List.mem_cons.mp hit with rfl | hit
          · right; simp [hbc]
          · exact ih _ _ hre it hit

theorem st0_kw [Neg V] (c : Cfg) (f : Form V) (hi : f.items ≠ []) (hk : f.keys = none) (hv : f.values = .none) :
    st0 c f = keywordBranch c f.items >>= fun p => pure (some p.1, ValuesIn.list p.2) := by
  unfold st0
  split
  · rfl
  · rename_i hn
    cases hi' : f.items with
    | nil => exact absurd hi' hi
    | cons a l => exact absurd hv (hn a l hi' hk)

/-- a keyword naming a generator outside the algebra raises -/
theorem keyword_unknown_raises [Neg V] (c : Cfg) (h : Cfg.Adm c) (mkSym : String → List Nat → V)
    (items : List (List Nat × V)) (it : List Nat × V) (hit : it ∈ items) (l : Nat) (hl : l ∈ it.1) (hv : l ∉ c.vecs) :
    ∀ mv, construct c false mkSym { values := .none, keys := none, name := none, grades := none, items := items } ≠ .ok mv := by
  intro mv hmv
  obtain ⟨kv0, keys1, g2, kv3, h0, h1, h2, h3, h4, h5⟩ := (construct_ok_iff _ _ _ _ _).mp hmv
  rw [st0_kw c _ (List.ne_nil_of_mem hit) rfl rfl, bind_ok] at h0
  obtain ⟨p, hp, _⟩ := h0
  simp only [keywordBranch, bind_ok] at hp
  obtain ⟨re, hre, _⟩ := hp
  rcases rekeyItems_ok_known c _ _ _ hre it hit with hb | hb
  · exact hv (h.names_letters _ hb l hl)
  · have hnb : it.1 ∉ c.basis := fun hb => hv (h.names_letters _ hb l hl)
    have hany : ∃ x ∈ it.1, x ∉ c.vecs := ⟨l, hl, hv⟩
    simp [Cfg.blade2canon, hnb, hany] at hb

/-- the entry an item ends up as: canonical name, value negated iff the swap count is odd -/
def canonItem [Neg V] (c : Cfg) (it : List Nat × V) : List Nat × V :=
  match c.blade2canon it.1 with
  | none => it
  | some (t, s) => (t, if s % 2 = 1 then -it.2 else it.2)

def Good (c : Cfg) (it : List Nat × V) : Prop := ∃ n ∈ c.basis, it.1.Perm n

theorem canonItem_spec [Neg V] (c : Cfg) (h : Cfg.Adm c) (it : List Nat × V) (hg : Good c it) :
    ∃ t s, c.blade2canon it.1 = some (t, s) ∧ t ∈ c.basis ∧ c.binOf t = c.binOf it.1 ∧
      canonItem c it = (t, if s % 2 = 1 then -it.2 else it.2) := by
  obtain ⟨n, hn, hp⟩ := hg
  obtain ⟨t, s, hb, ht, hperm, _⟩ := Cfg.blade2canon_sound c h it.1 n hn hp
  refine ⟨t, s, hb, ht, ?_, ?_⟩
  · exact Cfg.binOf_perm c t it.1 (h.names_nodup t ht) (h.names_letters t ht) hperm
  · simp only [canonItem, hb]

theorem canonItem_basis [Neg V] (c : Cfg) (it : List Nat × V) (hb : it.1 ∈ c.basis) : canonItem c it = it := by
  simp [canonItem, blade2canon_basis c it.1 hb]

theorem canonItem_fst_mem [Neg V] (c : Cfg) (h : Cfg.Adm c) (it : List Nat × V) (hg : Good c it) :
    (canonItem c it).1 ∈ c.basis := by
  obtain ⟨t, s, _, ht, _, he⟩ := canonItem_spec c h it hg
  rw [he]; exact ht

theorem canonItem_bin [Neg V] (c : Cfg) (h : Cfg.Adm c) (it : List Nat × V) (hg : Good c it) :
    c.binOf (canonItem c it).1 = c.binOf it.1 := by
  obtain ⟨t, s, _, ht, hb, he⟩ := canonItem_spec c h it hg
  rw [he]; exact hb

theorem rekeyItems_spec [Neg V] (c : Cfg) (h : Cfg.Adm c) : ∀ (rest done acc : List (List Nat × V)),
    (∀ it ∈ done ++ rest, Good c it) → ((done ++ rest).map (fun it => c.binOf it.1)).Nodup →
    acc.Perm (done.map (canonItem c) ++ rest) →
    ∃ re, rekeyItems c rest acc = .ok re ∧ re.Perm ((done ++ rest).map (canonItem c)) := by
  intro rest
  induction rest with
  | nil => intro done acc _ _ hacc; exact ⟨acc, rfl, by simpa using hacc⟩
  | cons p rest ih =>
    obtain ⟨sp, v⟩ := p
    intro done acc hgood hnd hacc
    have hassoc : (done ++ [(sp, v)]) ++ rest = done ++ (sp, v) :: rest := by simp
    have hg : Good c (sp, v) := hgood _ (by simp)
    obtain ⟨t, s, hbc, ht, hbin, hci⟩ := canonItem_spec c h (sp, v) hg
    rw [List.map_append, List.nodup_append] at hnd
    obtain ⟨_, hnd2, hnd3⟩ := hnd
    rw [List.map_cons, List.nodup_cons] at hnd2
    rw [rekeyItems]
    by_cases hb : c.basis.contains sp = true
    · rw [if_pos hb]
      have hb' : sp ∈ c.basis := by simpa using hb
      have := ih (done ++ [(sp, v)]) acc (by rw [hassoc]; exact hgood)
        (by rw [hassoc, List.map_append, List.nodup_append]; exact ⟨‹_›, by rw [List.map_cons, List.nodup_cons]; exact hnd2, hnd3⟩)
        (by rw [List.map_append, List.map_singleton, canonItem_basis c (sp, v) hb']; simpa using hacc)
      rw [hassoc] at this
      exact this
    · rw [if_neg hb]
      have hb' : sp ∉ c.basis := by simpa using hb
      simp only [hbc]
      have hnot : (acc.map (·.1)).contains t = false := by
        rw [Bool.eq_false_iff]
        intro hc
        rw [List.contains_iff_mem, List.mem_map] at hc
        obtain ⟨p, hp, hpt⟩ := hc
        rcases List.mem_append.mp (hacc.mem_iff.mp hp) with hp | hp
        · obtain ⟨d, hd, rfl⟩ := List.mem_map.mp hp
          have := canonItem_bin c h d (hgood d (by simp [hd]))
          rw [hpt, hbin] at this
          exact hnd3 (c.binOf d.1) (List.mem_map_of_mem (f := fun it => c.binOf it.1) hd) (c.binOf sp) (by simp) this.symm
        · rcases List.mem_cons.mp hp with rfl | hp
          · exact hb' (by simp only at hpt; rw [hpt]; exact ht)
          · apply hnd2.1
            rw [List.mem_map]
            exact ⟨p, hp, by rw [hpt, hbin]⟩
      rw [hnot]
      simp only [Bool.false_eq_true, if_false]
      have := ih (done ++ [(sp, v)]) (List.filter (fun x => x.1 != sp) acc ++ [(t, if s % 2 = 1 then -v else v)])
        (by rw [hassoc]; exact hgood)
        (by rw [hassoc, List.map_append, List.nodup_append]; exact ⟨‹_›, by rw [List.map_cons, List.nodup_cons]; exact hnd2, hnd3⟩)
        (by
          rw [List.map_append, List.map_singleton, hci]
          have h1 := hacc.filter (fun x => x.1 != sp)
          rw [List.filter_append, List.filter_cons_of_neg (by simp)] at h1
          have e1 : (done.map (canonItem c)).filter (fun x => x.1 != sp) = done.map (canonItem c) := by
            rw [List.filter_eq_self]
            intro p hp
            obtain ⟨d, hd, rfl⟩ := List.mem_map.mp hp
            simp only [bne_iff_ne, ne_eq]
            intro e
            exact hb' (e ▸ canonItem_fst_mem c h d (hgood d (by simp [hd])))
          have e2 : rest.filter (fun x => x.1 != sp) = rest := by
            rw [List.filter_eq_self]
            intro p hp
            simp only [bne_iff_ne, ne_eq]
            intro e
            apply hnd2.1
            rw [List.mem_map]
            exact ⟨p, hp, by rw [e]⟩
          rw [e1, e2] at h1
          refine (h1.append_right _).trans ?_
          rw [List.append_assoc, List.append_assoc]
          exact List.Perm.append_left _ List.perm_append_comm)
      rw [hassoc] at this
      exact this

theorem canon_bin_inj [Neg V] (c : Cfg) (h : Cfg.Adm c) (items : List (List Nat × V))
    (hsp : ∀ it ∈ items, Good c it) (hdist : (items.map fun it => c.binOf it.1).Nodup)
    (it1 it2 : List Nat × V) (h1 : it1 ∈ items) (h2 : it2 ∈ items)
    (e : c.binOf (canonItem c it1).1 = c.binOf (canonItem c it2).1) : it1 = it2 := by
  rw [canonItem_bin c h it1 (hsp it1 h1), canonItem_bin c h it2 (hsp it2 h2)] at e
  exact List.inj_on_of_nodup_map hdist h1 h2 e

theorem keywordBranch_spec [Neg V] (c : Cfg) (h : Cfg.Adm c) (items : List (List Nat × V)) (hne : items ≠ [])
    (hsp : ∀ it ∈ items, Good c it) (hdist : (items.map fun it => c.binOf it.1).Nodup) :
    ∃ sel : List (List Nat × V), sel ≠ [] ∧
      keywordBranch c items = .ok (sel.map (fun p => KeyIn.name p.1), sel.map (·.2)) ∧
      (∀ p, p ∈ sel ↔ p ∈ items.map (canonItem c)) := by
  obtain ⟨re, hre, hperm⟩ := rekeyItems_spec c h items [] items (by simpa using hsp) (by simpa using hdist) (by simp)
  simp only [List.nil_append] at hperm
  let sel := c.basis.filterMap fun n => (re.find? (·.1 == n)).map fun p => (n, p.2)
  have hsel : c.basis.filterMap (fun n => (re.find? (·.1 == n)).map fun p => (KeyIn.name n, p.2)) =
      sel.map (fun p => (KeyIn.name p.1, p.2)) := by
    simp only [sel, List.map_filterMap, Option.map_map, Function.comp_def]
  have hmem : ∀ p, p ∈ sel ↔ p ∈ items.map (canonItem c) := by
    intro p
    simp only [sel, List.mem_filterMap, Option.map_eq_some_iff]
    constructor
    · rintro ⟨n, hn, q, hq, rfl⟩
      have hq1 : q.1 = n := by simpa using List.find?_some hq
      have hq2 : q ∈ re := List.mem_of_find?_eq_some hq
      rw [← hq1]
      exact hperm.mem_iff.mp hq2
    · intro hp
      have hp' : p ∈ re := hperm.mem_iff.mpr hp
      obtain ⟨it2, hit2, rfl⟩ := List.mem_map.mp hp
      refine ⟨(canonItem c it2).1, canonItem_fst_mem c h it2 (hsp it2 hit2), ?_⟩
      cases hf : re.find? (fun x => x.1 == (canonItem c it2).1) with
      | none =>
        rw [List.find?_eq_none] at hf
        exact absurd (by simp) (hf _ hp')
      | some q =>
        have hq1 : q.1 = (canonItem c it2).1 := by simpa using List.find?_some hf
        have hq2 : q ∈ re := List.mem_of_find?_eq_some hf
        obtain ⟨it1, hit1, rfl⟩ := List.mem_map.mp (hperm.mem_iff.mp hq2)
        have := canon_bin_inj c h items hsp hdist it1 it2 hit1 hit2 (by rw [hq1])
        subst this
        exact ⟨_, rfl, rfl⟩
  have hsne : sel ≠ [] := by
    obtain ⟨it, hit⟩ := List.exists_mem_of_ne_nil items hne
    exact List.ne_nil_of_mem ((hmem _).mpr (List.mem_map_of_mem hit))
  refine ⟨sel, hsne, ?_, hmem⟩
  simp only [keywordBranch, hre, bind, Except.bind, hsel]
  rw [if_neg]
  · simp [Function.comp_def]
  · simpa using hsne

theorem mapM_sanitize_names (c : Cfg) (sel : List (List Nat × V)) (hb : ∀ p ∈ sel, p.1 ∈ c.basis) :
    (sel.map (fun p => KeyIn.name p.1)).mapM (sanitizeKey c) = .ok (sel.map (fun p => c.binOf p.1)) := by
  induction sel with
  | nil => rfl
  | cons p sel ih =>
    have hp : c.basis.contains p.1 = true := by simpa using hb p (by simp)
    rw [List.map_cons, List.mapM_cons, ih (fun q hq => hb q (by simp [hq]))]
    simp only [sanitizeKey, hp, if_true, bind, Except.bind, pure, Except.pure, List.map_cons]

theorem sanitizeKeys_names (c : Cfg) (sel : List (List Nat × V)) (hne : sel ≠ []) (hb : ∀ p ∈ sel, p.1 ∈ c.basis) :
    sanitizeKeys c (sel.map (fun p => KeyIn.name p.1)) = .ok ((sel.map (fun p => c.binOf p.1)).map KeyIn.int) := by
  unfold sanitizeKeys
  rw [if_neg, mapM_sanitize_names c sel hb]
  · rfl
  · cases sel with
    | nil => exact absurd rfl hne
    | cons p sel => simp [isInt]

/-- **keyword blades round-trip**: if every keyword is a spelling (any permutation) of a basis blade and no
    blade is named twice, construction succeeds and reading each blade back *with the spelling that was used*
    returns exactly the value supplied — nothing dropped, nothing negated -/
theorem keyword_roundtrip [InvolutiveNeg V] [Zero V] (c : Cfg) (h : Cfg.Adm c) (mkSym : String → List Nat → V)
    (items : List (List Nat × V)) (hne : items ≠ [])
    (hsp : ∀ it ∈ items, ∃ n ∈ c.basis, it.1.Perm n)
    (hdist : (items.map fun it => c.binOf it.1).Nodup) :
    ∃ mv, construct c false mkSym { values := .none, keys := none, name := none, grades := none, items := items } = .ok mv ∧
      (∀ it ∈ items, getattr c mv it.1 = it.2) ∧
      (∀ k, k ∈ mv.1 ↔ ∃ it ∈ items, c.binOf it.1 = k) := by
  obtain ⟨sel, hsne, hkb, hmem⟩ := keywordBranch_spec c h items hne hsp hdist
  have hbasis : ∀ p ∈ sel, p.1 ∈ c.basis := by
    intro p hp
    obtain ⟨it, hit, rfl⟩ := List.mem_map.mp ((hmem p).mp hp)
    exact canonItem_fst_mem c h it (hsp it hit)
  refine ⟨(sel.map (fun p => c.binOf p.1), sel.map (·.2)), ?_, ?_, ?_⟩
  · rw [construct_eq, K0_eq, st0_kw c _ hne rfl rfl]
    simp only [hkb, bind, Except.bind, pure, Except.pure]
    exact K1_kv c h mkSym _ _ _ (sanitizeKeys_names c sel hsne hbasis)
      (by intro k hk; obtain ⟨p, hp, rfl⟩ := List.mem_map.mp hk; exact Cfg.binOf_lt c h _ (hbasis p hp))
      (by simpa using hsne) (by simp)
  · intro it hit
    obtain ⟨t, s, hbc, ht, hbin, hci⟩ := canonItem_spec c h it (hsp it hit)
    have hin : canonItem c it ∈ sel := (hmem _).mpr (List.mem_map_of_mem hit)
    have hzip : (sel.map (fun p => c.binOf p.1)).zip (sel.map (·.2)) = sel.map (fun p => (c.binOf p.1, p.2)) := by
      rw [List.zip_map']
    have ht' : c.basis.contains t = true := by simpa using ht
    simp only [getattr, hbc, ht', Bool.not_true, Bool.false_eq_true, if_false, hzip, List.find?_map]
    cases hf : sel.find? ((fun x => x.1 == c.binOf t) ∘ fun p => (c.binOf p.1, p.2)) with
    | none =>
      rw [List.find?_eq_none] at hf
      exact absurd (by rw [hci]; simp) (hf _ hin)
    | some q =>
      have hq1 : c.binOf q.1 = c.binOf t := by simpa using List.find?_some hf
      have hq2 : q ∈ sel := List.mem_of_find?_eq_some hf
      obtain ⟨it1, hit1, rfl⟩ := List.mem_map.mp ((hmem q).mp hq2)
      have := canon_bin_inj c h items hsp hdist it1 it hit1 hit (by rw [hq1, hci])
      subst this
      simp only [Option.map_some, hci]
      rcases Nat.mod_two_eq_zero_or_one s with e | e <;> simp [e]
  · intro k
    simp only [List.mem_map]
    constructor
    · rintro ⟨p, hp, rfl⟩
      obtain ⟨it, hit, rfl⟩ := List.mem_map.mp ((hmem p).mp hp)
      exact ⟨it, hit, (canonItem_bin c h it (hsp it hit)).symm⟩
    · rintro ⟨it, hit, rfl⟩
      exact ⟨canonItem c it, (hmem _).mpr (List.mem_map_of_mem hit), canonItem_bin c h it (hsp it hit)⟩

end Kingdon.Con

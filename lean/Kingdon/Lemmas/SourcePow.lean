/-
  `AdditionChains.minimal_chains`, `power_supply` (kingdon/codegen.py) and the `__pow__` methods of the polynomial classes
  as translated from the source (Generated/SourcePoly.lean) against the hand-written model (Model/KPoly.lean:
  `additionChains`, `powerSupply`, `pow`, `RPoly.powInt`).
  Direction proved: WHENEVER THE TRANSLATED FUNCTION RETURNS (`.ok`), the model returns the same value.  (The translated
  `while` loop runs on the same fuel as the model's, `limit + 1` passes.)
-/
import Kingdon.Lemmas.SourceRat
import Kingdon.Lemmas.KPolySound
namespace Kingdon.SrcPolyEq
open Kingdon KP

/-- the python dict `{n: chain}` of the model's chain table -/
def chainsOf (c : List (Nat × List Nat)) : Py.Dict Int (List Int) := c.map fun e => (Int.ofNat e.1, e.2.map Int.ofNat)


def kmap {γ β : Type} (f : γ → β) (l : List (Nat × γ)) : Py.Dict Int β := l.map fun e => (Int.ofNat e.1, f e.2)

theorem kmap_append {γ β : Type} (f : γ → β) (l l' : List (Nat × γ)) : kmap f (l ++ l') = kmap f l ++ kmap f l' :=
  List.map_append

theorem dictHas_kmap {γ β : Type} (f : γ → β) (l : List (Nat × γ)) (k : Nat) :
    Py.dictHas (kmap f l) (Int.ofNat k) = (l.find? (·.1 == k)).isSome := by
  induction l with
  | nil => rfl
  | cons a l ih =>
    unfold Py.dictHas at ih ⊢
    simp only [kmap, List.map_cons, List.any_cons, List.find?_cons] at ih ⊢
    rw [ih, ofNat_beq]
    cases h : (a.1 == k) <;> simp

theorem dictHas_kmap_neg {γ β : Type} (f : γ → β) (l : List (Nat × γ)) (k : Int) (hk : k < 0) :
    Py.dictHas (kmap f l) k = false := by
  unfold Py.dictHas kmap
  rw [List.any_eq_false]
  intro x hx
  rw [List.mem_map] at hx
  obtain ⟨e, _, rfl⟩ := hx
  simp only [beq_iff_eq, Int.ofNat_eq_natCast]
  omega

theorem dictGet_kmap {γ β : Type} (f : γ → β) (l : List (Nat × γ)) (k : Nat) :
    Py.dictGet (kmap f l) (Int.ofNat k) = match l.find? (·.1 == k) with
      | some pe => .ok (f pe.2)
      | none => .error "KeyError" := by
  induction l with
  | nil => rfl
  | cons a l ih =>
    unfold Py.dictGet at ih ⊢
    simp only [kmap, List.map_cons, List.find?_cons] at ih ⊢
    rw [ofNat_beq]
    cases h : (a.1 == k)
    · exact ih
    · rfl

theorem dictGet_of_not_has {κ ν : Type} [BEq κ] (d : Py.Dict κ ν) (k : κ) (h : Py.dictHas d k = false) :
    Py.dictGet d k = .error "KeyError" := by
  unfold Py.dictGet
  unfold Py.dictHas at h
  have : d.find? (·.1 == k) = none := by
    rw [List.find?_eq_none]
    intro x hx
    rw [List.any_eq_false] at h
    exact h x hx
  rw [this]; rfl

theorem dictSet_absent {κ ν : Type} [BEq κ] (d : Py.Dict κ ν) (k : κ) (v : ν) (h : Py.dictHas d k = false) :
    Py.dictSet d k v = d ++ [(k, v)] := by
  induction d with
  | nil => rfl
  | cons a d ih =>
    unfold Py.dictHas at h ih
    rw [List.any_cons, Bool.or_eq_false_iff] at h
    obtain ⟨a1, a2⟩ := a
    simp only [Py.dictSet]
    simp only at h
    rw [h.1, ih h.2]
    rfl

theorem dictSet_kmap {γ β : Type} (f : γ → β) (l : List (Nat × γ)) (k : Nat) (v : γ)
    (h : l.find? (·.1 == k) = none) :
    Py.dictSet (kmap f l) (Int.ofNat k) (f v) = kmap f (l ++ [(k, v)]) := by
  rw [dictSet_absent, kmap_append]
  · rfl
  · rw [dictHas_kmap, h]; rfl


abbrev MCSt := Py.Dict Int (List Int) × Int × Int

def mcInner (limit : Int) (chain : List Int) (r : Int) (left_summand : Int) (__s : Py.Dict Int (List Int) × Int) :
    Py.M (ForInStep (Py.Dict Int (List Int) × Int)) :=
  if (decide (left_summand + r ≤ limit) && !Py.dictHas __s.fst (left_summand + r)) = true then
    pure (ForInStep.yield (Py.dictSet __s.fst (left_summand + r) (chain ++ [left_summand + r]), left_summand + r))
  else pure (ForInStep.yield (__s.fst, left_summand + r))

def mcMid (limit : Int) (chain : List Int) (__s : MCSt) : Py.M (ForInStep MCSt) := do
  let __do_lift ← Py.getItem chain (-1)
  let __s ← forIn chain (__s.fst, __s.snd.snd) (mcInner limit chain __do_lift)
  pure (ForInStep.yield (__s.fst, __do_lift, __s.snd))

def mcOuter (limit : Int) (_x : Nat) (__s : MCSt) : Py.M (ForInStep MCSt) :=
  if (!(Py.range 1 (limit + 1)).any fun i => !Py.dictHas __s.fst i) = true then
    pure (ForInStep.done (__s.fst, __s.snd.fst, __s.snd.snd))
  else do
    let __s ← forIn (Py.dictValues __s.fst) (__s.fst, __s.snd.fst, __s.snd.snd) (mcMid limit)
    pure (ForInStep.yield (__s.fst, __s.snd.fst, __s.snd.snd))

theorem minimal_chains_unfold (limit : Int) : SrcPoly.minimal_chains limit = (do
    let s ← forIn (List.range (limit + 1).toNat) (([(1, [1])], 0, 0) : MCSt) (mcOuter limit)
    if ((Py.range 1 (limit + 1)).any fun i => !Py.dictHas s.fst i) = true then throw "FUEL" else pure s.fst) := by
  unfold SrcPoly.minimal_chains
  simp only []
  unfold mcOuter mcMid mcInner
  rfl

theorem chainsOf_eq (c : List (Nat × List Nat)) : chainsOf c = kmap (List.map Int.ofNat) c := rfl

theorem lookup_isNone (c : List (Nat × List Nat)) (v : Nat) :
    (chainsLookup c v).isNone = (c.find? (·.1 == v)).isNone := by
  unfold chainsLookup; simp

theorem lookup_isSome (c : List (Nat × List Nat)) (v : Nat) :
    (chainsLookup c v).isSome = (c.find? (·.1 == v)).isSome := by
  unfold chainsLookup; simp

theorem dictHas_chainsOf (c : List (Nat × List Nat)) (v : Nat) :
    Py.dictHas (chainsOf c) (Int.ofNat v) = (chainsLookup c v).isSome := by
  rw [chainsOf_eq, dictHas_kmap, lookup_isSome]

def innerStep (L : Nat) (chain : List Nat) (r : Nat) (acc : List (Nat × List Nat)) (left : Nat) : List (Nat × List Nat) :=
  if (left + r ≤ L && (chainsLookup acc (left + r)).isNone) then acc ++ [(left + r, chain ++ [left + r])] else acc

theorem ofNat_le' (a b : Nat) : decide (Int.ofNat a ≤ Int.ofNat b) = decide (a ≤ b) := by
  rw [Bool.eq_iff_iff]; simp

theorem mcInner_eq (L : Nat) (chain : List Nat) (r left : Nat) (acc : List (Nat × List Nat)) (v0 : Int) :
    mcInner (Int.ofNat L) (chain.map Int.ofNat) (Int.ofNat r) (Int.ofNat left) (chainsOf acc, v0) =
      .ok (.yield (chainsOf (innerStep L chain r acc left), Int.ofNat (left + r))) := by
  have e : Int.ofNat left + Int.ofNat r = Int.ofNat (left + r) := rfl
  unfold mcInner innerStep
  simp only [e]
  rw [dictHas_chainsOf, ofNat_le']
  cases h : chainsLookup acc (left + r) with
  | some ch => simp; rfl
  | none =>
    by_cases h2 : left + r ≤ L
    · have hf : acc.find? (·.1 == left + r) = none := by
        have := lookup_isNone acc (left + r); rw [h] at this; simpa using this.symm
      have hs := dictSet_kmap (List.map Int.ofNat) acc (left + r) (chain ++ [left + r]) hf
      simp only [List.map_append, List.map_cons, List.map_nil] at hs
      simp only [h2, decide_true, Option.isSome_none, Bool.not_false, Bool.and_self, if_true, Option.isNone_none]
      rw [chainsOf_eq, hs]; rfl
    · simp [h2]; rfl

theorem mcInner_loop (L : Nat) (chain : List Nat) (r : Nat) (ls : List Nat) :
    ∀ (acc : List (Nat × List Nat)) (v0 : Int),
    ∃ v1, forIn (ls.map Int.ofNat) (chainsOf acc, v0) (mcInner (Int.ofNat L) (chain.map Int.ofNat) (Int.ofNat r)) =
      .ok (chainsOf (ls.foldl (innerStep L chain r) acc), v1) := by
  induction ls with
  | nil => intro acc v0; exact ⟨v0, rfl⟩
  | cons a ls ih =>
    intro acc v0
    rw [List.map_cons, List.forIn_cons, mcInner_eq]
    exact ih _ _

theorem getItem_neg_one {α : Type} (l : List α) :
    Py.getItem l (-1) = match l.getLast? with | some a => .ok a | none => .error "IndexError" := by
  rcases List.eq_nil_or_concat l with rfl | ⟨l', a, rfl⟩
  · rfl
  · simp only [List.concat_eq_append]
    have h1 : Py.normIdx (l' ++ [a]).length (-1) = some l'.length := by
      unfold Py.normIdx; simp
    unfold Py.getItem
    rw [h1]
    simp
    rfl

theorem getItem_neg_two {α : Type} (l : List α) :
    Py.getItem l (-2) = match l.dropLast.getLast? with | some a => .ok a | none => .error "IndexError" := by
  rcases List.eq_nil_or_concat l with rfl | ⟨l', a, rfl⟩
  · rfl
  · rcases List.eq_nil_or_concat l' with rfl | ⟨l'', b, rfl⟩
    · rfl
    · simp only [List.concat_eq_append]
      have h1 : Py.normIdx (l'' ++ [b] ++ [a]).length (-2) = some l''.length := by
        unfold Py.normIdx; simp
      unfold Py.getItem
      rw [h1]
      simp
      rfl

def passStep (L : Nat) (acc : List (Nat × List Nat)) (e : Nat × List Nat) : List (Nat × List Nat) :=
  e.2.foldl (innerStep L e.2 (e.2.getLastD 0)) acc

theorem chainsPass_eq (L : Nat) (c : List (Nat × List Nat)) : chainsPass L c = c.foldl (passStep L) c := rfl

theorem mcMid_eq (L : Nat) (e : Nat × List Nat) (he : ChainOK e) (acc : List (Nat × List Nat)) (r0 v0 : Int) :
    ∃ r1 v1, mcMid (Int.ofNat L) (e.2.map Int.ofNat) (chainsOf acc, r0, v0) =
      .ok (.yield (chainsOf (passStep L acc e), r1, v1)) := by
  unfold mcMid passStep
  have hl : e.2.getLastD 0 = e.1 := by rw [List.getLastD_eq_getLast?, he.1]; rfl
  rw [getItem_neg_one, List.getLast?_map, he.1, hl]
  simp only [Option.map_some, ok_bind]
  obtain ⟨v1, hv⟩ := mcInner_loop L e.2 e.1 e.2 acc v0
  rw [hv]
  exact ⟨_, _, rfl⟩

theorem mcMid_loop (L : Nat) (es : List (Nat × List Nat)) (hes : ∀ e ∈ es, ChainOK e) :
    ∀ (acc : List (Nat × List Nat)) (r0 v0 : Int),
    ∃ r1 v1, forIn (es.map fun e => e.2.map Int.ofNat) (chainsOf acc, r0, v0) (mcMid (Int.ofNat L)) =
      .ok (chainsOf (es.foldl (passStep L) acc), r1, v1) := by
  induction es with
  | nil => intro acc r0 v0; exact ⟨r0, v0, rfl⟩
  | cons a es ih =>
    intro acc r0 v0
    obtain ⟨r1, v1, h1⟩ := mcMid_eq L a (hes a (by simp)) acc r0 v0
    rw [List.map_cons, List.forIn_cons, h1]
    exact ih (fun e he => hes e (by simp [he])) _ _ _

theorem dictValues_chainsOf (c : List (Nat × List Nat)) :
    Py.dictValues (chainsOf c) = c.map fun e => e.2.map Int.ofNat := by
  unfold Py.dictValues chainsOf
  rw [List.map_map]; rfl

theorem mcPass (L : Nat) (c : List (Nat × List Nat)) (hc : ChainsOK c) (r0 v0 : Int) :
    ∃ r1 v1, forIn (Py.dictValues (chainsOf c)) (chainsOf c, r0, v0) (mcMid (Int.ofNat L)) =
      .ok (chainsOf (chainsPass L c), r1, v1) := by
  rw [dictValues_chainsOf, chainsPass_eq]
  exact mcMid_loop L c hc c r0 v0

theorem mc_cond (L : Nat) (c : List (Nat × List Nat)) :
    ((Py.range 1 (Int.ofNat L + 1)).any fun i => !Py.dictHas (chainsOf c) i) =
      !((List.range' 1 L).all fun i => (chainsLookup c i).isSome) := by
  rw [ofNat_succ, range_one, List.any_map, List.not_all_eq_any_not]
  simp only [Function.comp_def, dictHas_chainsOf]

theorem minimalChains_succ (L fuel : Nat) (c : List (Nat × List Nat)) :
    minimalChains L (fuel + 1) c =
      if (List.range' 1 L).all (fun i => (chainsLookup c i).isSome) then c
      else minimalChains L fuel (chainsPass L c) := rfl

theorem mcOuter_loop (L : Nat) (l : List Nat) :
    ∀ (c : List (Nat × List Nat)) (_hc : ChainsOK c) (r0 v0 : Int),
    ∃ r1 v1, forIn l ((chainsOf c, r0, v0) : MCSt) (mcOuter (Int.ofNat L)) =
      .ok (chainsOf (minimalChains L l.length c), r1, v1) := by
  induction l with
  | nil => intro c _ r0 v0; exact ⟨r0, v0, rfl⟩
  | cons a l ih =>
    intro c hc r0 v0
    rw [List.forIn_cons, List.length_cons, minimalChains_succ]
    unfold mcOuter
    simp only [mc_cond, Bool.not_not]
    by_cases hall : ((List.range' 1 L).all fun i => (chainsLookup c i).isSome) = true
    · rw [if_pos hall, if_pos hall]
      exact ⟨r0, v0, rfl⟩
    · rw [if_neg hall, if_neg hall]
      obtain ⟨r1, v1, h1⟩ := mcPass L c hc r0 v0
      rw [h1]
      exact ih _ (chainsPass_ok L c hc) r1 v1

theorem minimal_chains_nat (L : Nat) : SrcPoly.minimal_chains (Int.ofNat L) =
    if (!((List.range' 1 L).all fun i => (chainsLookup (additionChains L) i).isSome)) = true then .error "FUEL"
    else .ok (chainsOf (additionChains L)) := by
  rw [minimal_chains_unfold]
  have hn : (Int.ofNat L + 1).toNat = L + 1 := rfl
  obtain ⟨r1, v1, h1⟩ := mcOuter_loop L (List.range (L + 1)) [(1, [1])]
    (by intro e he; simp at he; subst he; exact ⟨rfl, by simp⟩) 0 0
  rw [List.length_range] at h1
  have hi : (([(1, [1])], 0, 0) : MCSt) = (chainsOf [(1, [1])], 0, 0) := rfl
  rw [hn, hi, h1]
  simp only [ok_bind, mc_cond]
  rfl

theorem minimal_chains_neg (limit : Int) (h : limit < 0) : SrcPoly.minimal_chains limit = .ok [(1, [1])] := by
  rw [minimal_chains_unfold]
  have hn : (limit + 1).toNat = 0 := by omega
  have hr : Py.range 1 (limit + 1) = [] := by
    unfold Py.range
    have : (limit + 1 - 1).toNat = 0 := by omega
    rw [this]; rfl
  rw [hn, hr]
  rfl


/-! ### `power_supply` -/

theorem bind_ok_inv {α β : Type} {x : Py.M α} {f : α → Py.M β} {r : β} (h : (x >>= f) = .ok r) :
    ∃ a, x = .ok a ∧ f a = .ok r := by
  cases x with
  | error e => cases h
  | ok a => exact ⟨a, rfl, h⟩

theorem dictGet_kmap_ok {γ β : Type} (f : γ → β) (l : List (Nat × γ)) (k : Int) (v : β)
    (h : Py.dictGet (kmap f l) k = .ok v) : 0 ≤ k ∧ ∃ pe, l.find? (·.1 == k.toNat) = some pe ∧ v = f pe.2 := by
  by_cases hk : k < 0
  · rw [dictGet_of_not_has _ _ (dictHas_kmap_neg f l k hk)] at h
    cases h
  · have hk' : k = Int.ofNat k.toNat := by simp only [Int.ofNat_eq_natCast]; omega
    refine ⟨by omega, ?_⟩
    rw [hk', dictGet_kmap] at h
    split at h
    · rename_i pe hpe
      simp only [Except.ok.injEq] at h
      exact ⟨pe, hpe, h.symm⟩
    · cases h

theorem getItem_neg_two_ok (ch : List Nat) (v : Int) (h : Py.getItem (ch.map Int.ofNat) (-2) = .ok v) :
    v = Int.ofNat (ch.dropLast.getLastD 0) := by
  rw [getItem_neg_two, ← List.map_dropLast, List.getLast?_map] at h
  rw [List.getLastD_eq_getLast?]
  cases hl : ch.dropLast.getLast? with
  | none => rw [hl] at h; cases h
  | some a =>
    rw [hl] at h
    simp only [Option.map_some, Except.ok.injEq] at h
    rw [← h]; rfl

abbrev PSSt (β : Type) := Py.Dict Int β × List Int × List β

def psBody {β : Type} (operation : β → β → Py.M β) (n : Int) (step : Int) (__s : PSSt β) : Py.M (ForInStep (PSSt β)) :=
  if (!Py.dictHas __s.fst step) = true then do
    let __do_lift ← SrcPoly.minimal_chains n
    let __do_lift ← Py.dictGet __do_lift step
    let __do_lift_1 ← Py.getItem __do_lift (-2)
    let __do_lift_2 ← Py.dictGet __s.fst __do_lift_1
    let __do_lift_3 ← Py.getItem __do_lift (-2)
    let __do_lift_4 ← Py.dictGet __s.fst (step - __do_lift_3)
    let __do_lift_5 ← operation __do_lift_2 __do_lift_4
    let __do_lift_6 ← Py.dictGet (Py.dictSet __s.fst step __do_lift_5) step
    pure (ForInStep.yield (Py.dictSet __s.fst step __do_lift_5, __do_lift, __s.snd.snd ++ [__do_lift_6]))
  else do
    let __do_lift ← Py.dictGet __s.fst step
    pure (ForInStep.yield (__s.fst, __s.snd.fst, __s.snd.snd ++ [__do_lift]))

theorem power_supply_unfold {β : Type} (operation : β → β → Py.M β) (x : β) (n : Int) :
    SrcPoly.power_supply operation x n = (do
      let mc ← SrcPoly.minimal_chains n
      let exps ← Py.dictGet mc n
      let s ← forIn exps (([(1, x)], [], []) : PSSt β) (psBody operation n)
      pure s.snd.snd) := by
  unfold SrcPoly.power_supply
  simp only []
  unfold psBody
  rfl

theorem toNat_ofNat' (e : Nat) : (Int.ofNat e).toNat = e := rfl
theorem toNat_sub_ofNat (e p : Nat) : (Int.ofNat e - Int.ofNat p).toNat = e - p := by
  simp only [Int.ofNat_eq_natCast]; omega

theorem chainsLookup_of_find {c : List (Nat × List Nat)} {e : Nat} {ce : Nat × List Nat}
    (h : c.find? (·.1 == e) = some ce) : chainsLookup c e = some ce.2 := by
  unfold chainsLookup; rw [h]; rfl

theorem psBody_sound {β γ : Type} (emb : γ → β) (mulf : γ → γ → γ) (operation : β → β → Py.M β)
    (hop : ∀ a b, operation (emb a) (emb b) = .ok (emb (mulf a b)))
    (n : Int) (c : List (Nat × List Nat)) (hmc : SrcPoly.minimal_chains n = .ok (chainsOf c))
    (e : Nat) (p : List (Nat × γ)) (out : List γ) (ch0 : List Int) (res : ForInStep (PSSt β))
    (h : psBody operation n (Int.ofNat e) (kmap emb p, ch0, out.map emb) = .ok res) :
    ∃ p' out' ch1, psStep mulf c (some (p, out)) e = some (p', out') ∧
      res = .yield (kmap emb p', ch1, out'.map emb) := by
  unfold psBody at h
  simp only [dictHas_kmap] at h
  cases hf : p.find? (·.1 == e) with
  | some pe =>
    rw [hf] at h
    simp only [Option.isSome_some, Bool.not_true, Bool.false_eq_true, if_false] at h
    rw [dictGet_kmap, hf] at h
    simp only [ok_bind] at h
    refine ⟨p, out ++ [pe.2], ch0, ?_, ?_⟩
    · unfold psStep; simp only [hf]
    · cases h; simp
  | none =>
    rw [hf] at h
    simp only [Option.isSome_none, Bool.not_false, if_true] at h
    rw [hmc] at h
    simp only [ok_bind] at h
    obtain ⟨chI, h1, h⟩ := bind_ok_inv h
    rw [chainsOf_eq] at h1
    obtain ⟨_, ce, hce, rfl⟩ := dictGet_kmap_ok _ _ _ _ h1
    obtain ⟨v1, h2, h⟩ := bind_ok_inv h
    have hv1 := getItem_neg_two_ok _ _ h2; subst hv1
    obtain ⟨a', h3, h⟩ := bind_ok_inv h
    obtain ⟨_, a, ha, rfl⟩ := dictGet_kmap_ok _ _ _ _ h3
    obtain ⟨v2, h4, h⟩ := bind_ok_inv h
    have hv2 := getItem_neg_two_ok _ _ h4; subst hv2
    obtain ⟨b', h5, h⟩ := bind_ok_inv h
    obtain ⟨hnn, b, hb, rfl⟩ := dictGet_kmap_ok _ _ _ _ h5
    rw [hop] at h
    simp only [ok_bind] at h
    rw [toNat_ofNat'] at hce ha
    rw [toNat_sub_ofNat] at hb
    have hfe : (p ++ [(e, mulf a.2 b.2)]).find? (·.1 == e) = some (e, mulf a.2 b.2) := by
      rw [List.find?_append, hf]; simp
    rw [dictSet_kmap emb p e _ hf, dictGet_kmap, hfe] at h
    simp only [ok_bind] at h
    refine ⟨p ++ [(e, mulf a.2 b.2)], out ++ [mulf a.2 b.2], List.map Int.ofNat ce.2, ?_, ?_⟩
    · unfold psStep
      simp only [hf, chainsLookup_of_find hce, ha, hb]
    · cases h; simp

theorem psLoop_sound {β γ : Type} (emb : γ → β) (mulf : γ → γ → γ) (operation : β → β → Py.M β)
    (hop : ∀ a b, operation (emb a) (emb b) = .ok (emb (mulf a b)))
    (n : Int) (c : List (Nat × List Nat)) (hmc : SrcPoly.minimal_chains n = .ok (chainsOf c)) (exps : List Nat) :
    ∀ (p : List (Nat × γ)) (out : List γ) (ch0 : List Int) (s' : PSSt β),
      forIn (exps.map Int.ofNat) ((kmap emb p, ch0, out.map emb) : PSSt β) (psBody operation n) = .ok s' →
      ∃ p' out', exps.foldl (psStep mulf c) (some (p, out)) = some (p', out') ∧ s'.snd.snd = out'.map emb := by
  induction exps with
  | nil =>
    intro p out ch0 s' h
    cases h
    exact ⟨p, out, rfl, rfl⟩
  | cons e exps ih =>
    intro p out ch0 s' h
    rw [List.map_cons, List.forIn_cons] at h
    obtain ⟨res, h1, h⟩ := bind_ok_inv h
    obtain ⟨p1, out1, ch1, hs, rfl⟩ := psBody_sound emb mulf operation hop n c hmc e p out ch0 res h1
    rw [List.foldl_cons, hs]
    exact ih p1 out1 ch1 s' h

theorem lastOf_map_ok {α β : Type} (f : α → β) (l : List α) (r : β) (h : Py.lastOf (l.map f) = .ok r) :
    ∃ q, l.getLast? = some q ∧ r = f q := by
  unfold Py.lastOf at h
  rw [List.getLast?_map] at h
  cases hl : l.getLast? with
  | none => rw [hl] at h; cases h
  | some q =>
    rw [hl] at h
    simp only [Option.map_some] at h
    cases h
    exact ⟨q, rfl, rfl⟩

/-! ### termination of `minimal_chains` within the fuel -/

theorem foldl_pres {α σ : Type} (f : σ → α → σ) (R : σ → Prop) (hpres : ∀ s a, R s → R (f s a)) :
    ∀ (l : List α) (s : σ), R s → R (l.foldl f s) := by
  intro l
  induction l with
  | nil => intro s h; exact h
  | cons a l ih => intro s h; exact ih _ (hpres s a h)

theorem foldl_reach {α σ : Type} (f : σ → α → σ) (R : σ → Prop) (hpres : ∀ s a, R s → R (f s a))
    (x : α) (hx : ∀ s, R (f s x)) : ∀ (l : List α), x ∈ l → ∀ s, R (l.foldl f s) := by
  intro l
  induction l with
  | nil => intro h; cases h
  | cons a l ih =>
    intro h s
    rw [List.foldl_cons]
    rcases List.mem_cons.mp h with rfl | h
    · exact foldl_pres f R hpres l _ (hx s)
    · exact ih h _

def Present (c : List (Nat × List Nat)) (i : Nat) : Prop := (chainsLookup c i).isSome = true

theorem present_append (c d : List (Nat × List Nat)) (i : Nat) (h : Present c i) : Present (c ++ d) i := by
  unfold Present at h ⊢
  rw [lookup_isSome] at h ⊢
  rw [List.find?_append]
  cases hf : c.find? (·.1 == i) with
  | none => rw [hf] at h; cases h
  | some a => rfl

theorem present_last (c : List (Nat × List Nat)) (i : Nat) (ch : List Nat) : Present (c ++ [(i, ch)]) i := by
  unfold Present
  rw [lookup_isSome, List.find?_append]
  cases hf : c.find? (·.1 == i) with
  | none => simp
  | some a => rfl

theorem pres_inner (L : Nat) (chain : List Nat) (r : Nat) (i : Nat) (acc : List (Nat × List Nat)) (left : Nat)
    (h : Present acc i) : Present (innerStep L chain r acc left) i := by
  unfold innerStep
  split
  · exact present_append _ _ _ h
  · exact h

theorem pres_pass (L : Nat) (i : Nat) (acc : List (Nat × List Nat)) (e : Nat × List Nat)
    (h : Present acc i) : Present (passStep L acc e) i :=
  foldl_pres _ (fun s => Present s i) (pres_inner L e.2 _ i) e.2 acc h

theorem pres_chainsPass (L : Nat) (i : Nat) (c : List (Nat × List Nat)) (h : Present c i) :
    Present (chainsPass L c) i := by
  rw [chainsPass_eq]
  exact foldl_pres _ (fun s => Present s i) (pres_pass L i) c c h

theorem reach_inner (L : Nat) (chain : List Nat) (r : Nat) (hr : r + 1 ≤ L) (acc : List (Nat × List Nat)) :
    Present (innerStep L chain r acc 1) (r + 1) := by
  unfold innerStep
  rw [Nat.add_comm 1 r]
  cases hp : chainsLookup acc (r + 1) with
  | some ch =>
    simp only [Option.isNone_some, Bool.and_false, Bool.false_eq_true, if_false]
    unfold Present; rw [hp]; rfl
  | none =>
    simp only [hr, decide_true, Option.isNone_none, Bool.and_self, if_true]
    exact present_last _ _ _

theorem reach_pass (L : Nat) (e : Nat × List Nat) (he : ChainOK e) (h1 : 1 ∈ e.2) (hL : e.1 + 1 ≤ L)
    (acc : List (Nat × List Nat)) : Present (passStep L acc e) (e.1 + 1) := by
  have hl : e.2.getLastD 0 = e.1 := by rw [List.getLastD_eq_getLast?, he.1]; rfl
  unfold passStep
  rw [hl]
  exact foldl_reach _ (fun s => Present s (e.1 + 1)) (pres_inner L e.2 e.1 (e.1 + 1)) 1
    (reach_inner L e.2 e.1 hL) e.2 h1 acc

theorem reach_chainsPass (L : Nat) (c : List (Nat × List Nat)) (e : Nat × List Nat) (hm : e ∈ c) (he : ChainOK e)
    (h1 : 1 ∈ e.2) (hL : e.1 + 1 ≤ L) : Present (chainsPass L c) (e.1 + 1) := by
  rw [chainsPass_eq]
  exact foldl_reach _ (fun s => Present s (e.1 + 1)) (pres_pass L (e.1 + 1)) e
    (reach_pass L e he h1 hL) c hm c

def Has1 (c : List (Nat × List Nat)) : Prop := ∀ e ∈ c, 1 ∈ e.2

theorem has1_inner (L : Nat) (chain : List Nat) (h1 : 1 ∈ chain) (r : Nat) (acc : List (Nat × List Nat)) (left : Nat)
    (h : Has1 acc) : Has1 (innerStep L chain r acc left) := by
  unfold innerStep
  split
  · intro e he
    rcases List.mem_append.mp he with he | he
    · exact h e he
    · simp only [List.mem_singleton] at he
      subst he
      exact List.mem_append_left _ h1
  · exact h

theorem has1_chainsPass (L : Nat) (c : List (Nat × List Nat)) (h : Has1 c) : Has1 (chainsPass L c) := by
  rw [chainsPass_eq]
  have key : ∀ (es : List (Nat × List Nat)), (∀ e ∈ es, 1 ∈ e.2) → ∀ acc, Has1 acc → Has1 (es.foldl (passStep L) acc) := by
    intro es
    induction es with
    | nil => intro _ acc ha; exact ha
    | cons a es ih =>
      intro hes acc ha
      rw [List.foldl_cons]
      apply ih (fun e he => hes e (List.mem_cons_of_mem _ he))
      exact foldl_pres _ Has1 (has1_inner L a.2 (hes a List.mem_cons_self) _) a.2 acc ha
  exact key c h c h

theorem minimalChains_all (L : Nat) : ∀ (fuel k : Nat) (c : List (Nat × List Nat)), ChainsOK c → Has1 c → 1 ≤ k →
    (∀ i, 1 ≤ i → i ≤ k → i ≤ L → Present c i) → L ≤ k + fuel →
    ((List.range' 1 L).all fun i => (chainsLookup (minimalChains L fuel c) i).isSome) = true := by
  intro fuel
  induction fuel with
  | zero =>
    intro k c _ _ _ hP hk
    rw [List.all_eq_true]
    intro i hi
    rw [List.mem_range'_1] at hi
    exact hP i hi.1 (by omega) (by omega)
  | succ fuel ih =>
    intro k c hc h1 hk1 hP hk
    rw [minimalChains_succ]
    split
    · assumption
    · apply ih (k + 1) _ (chainsPass_ok L c hc) (has1_chainsPass L c h1) (by omega) _ (by omega)
      intro i hi1 hik hiL
      rcases Nat.lt_or_ge i (k + 1) with hlt | hge
      · exact pres_chainsPass L i c (hP i hi1 (by omega) hiL)
      · have hik' : i = k + 1 := by omega
        subst hik'
        have hpk := hP k hk1 (Nat.le_refl k) (by omega)
        unfold Present at hpk
        cases hch : chainsLookup c k with
        | none => rw [hch] at hpk; cases hpk
        | some ch =>
          have hm := chainsLookup_mem hch
          exact reach_chainsPass L c (k, ch) hm (hc _ hm) (h1 _ hm) hiL

/-! ### the main theorems -/

/-- if the translated `minimal_chains` returns, it returns the model's table -/
theorem minimal_chains_sound (limit : Int) (r : Py.Dict Int (List Int)) (h : SrcPoly.minimal_chains limit = .ok r) :
    r = chainsOf (KP.additionChains limit.toNat) := by
  cases limit with
  | ofNat L =>
    rw [minimal_chains_nat] at h
    split at h
    · exact absurd h (by simp)
    · simp only [Except.ok.injEq] at h
      exact h.symm
  | negSucc n =>
    rw [minimal_chains_neg _ (Int.negSucc_lt_zero n)] at h
    simp only [Except.ok.injEq] at h
    subst h
    rfl

/-- `power_supply(x, n)` with any multiplication that is the embedding of a total model multiplication: if the translated
    generator returns, the model returns the same list of powers -/
theorem power_supply_sound {β γ : Type} (emb : γ → β) (mulf : γ → γ → γ) (operation : β → β → Py.M β)
    (hop : ∀ a b, operation (emb a) (emb b) = .ok (emb (mulf a b)))
    (x : γ) (n : Int) (out : List β) (h : SrcPoly.power_supply operation (emb x) n = .ok out) :
    0 < n ∧ ∃ l, KP.powerSupply mulf x n.toNat = some l ∧ out = l.map emb := by
  rw [power_supply_unfold] at h
  obtain ⟨mc, h1, h⟩ := bind_ok_inv h
  have hmc := minimal_chains_sound n mc h1
  subst hmc
  obtain ⟨exps, h2, h⟩ := bind_ok_inv h
  rw [chainsOf_eq] at h2
  obtain ⟨hn0, ce, hce, rfl⟩ := dictGet_kmap_ok _ _ _ _ h2
  have hpos : 0 < n := by
    rcases Int.lt_or_eq_of_le hn0 with hlt | heq
    · exact hlt
    · subst heq
      have : (additionChains (Int.toNat 0)).find? (·.1 == Int.toNat 0) = none := by decide
      rw [this] at hce
      cases hce
  refine ⟨hpos, ?_⟩
  obtain ⟨s, h3, h⟩ := bind_ok_inv h
  have hi : (([(1, emb x)], [], []) : PSSt β) = (kmap emb [(1, x)], [], ([] : List γ).map emb) := rfl
  rw [hi] at h3
  obtain ⟨p', out', hfold, hout⟩ := psLoop_sound emb mulf operation hop n _ h1 ce.2 _ _ _ _ h3
  refine ⟨out', ?_, ?_⟩
  · rw [powerSupply_eq, chainsLookup_of_find hce]
    simp only [hfold, Option.map_some]
  · cases h
    exact hout

/-- `p ** n` -/
theorem poly_pow_sound (p : Poly) (n : Int) (r : Py.Poly) (h : SrcPoly.poly_pow (polyOf p) n = .ok r) :
    0 < n ∧ ∃ q, KP.pow p n.toNat = some q ∧ r = polyOf q := by
  unfold SrcPoly.poly_pow at h
  simp only [] at h
  obtain ⟨l, h1, h⟩ := bind_ok_inv h
  obtain ⟨last, h2, h⟩ := bind_ok_inv h
  obtain ⟨hn, l', hl', rfl⟩ := power_supply_sound polyOf KP.mul SrcPoly.poly_mul poly_mul_eq p n l h1
  obtain ⟨q, hq, rfl⟩ := lastOf_map_ok _ _ _ h2
  refine ⟨hn, q, ?_, ?_⟩
  · unfold KP.pow; rw [hl']; exact hq
  · cases h; rfl

/-- `r ** n` for any integer n (negative: `1 / (r ** -n)`) -/
theorem rat_pow_sound (r : RPoly) (n : Int) (out : Py.Rat) (h : SrcPoly.rat_pow (ratOf r) n = .ok out) :
    n ≠ 0 ∧ ∃ q, RPoly.powInt r n = some q ∧ out = ratOf q := by
  unfold SrcPoly.rat_pow at h
  simp only [] at h
  by_cases hneg : n < 0
  · simp only [hneg, decide_true, if_true] at h
    obtain ⟨l, h1, h⟩ := bind_ok_inv h
    obtain ⟨last, h2, h⟩ := bind_ok_inv h
    obtain ⟨hn, l', hl', rfl⟩ := power_supply_sound ratOf RPoly.mul SrcPoly.rat_mul rat_mul_eq r (-n) l h1
    obtain ⟨q, hq, rfl⟩ := lastOf_map_ok _ _ _ h2
    rw [rat_rdiv_int_eq] at h
    refine ⟨by omega, RPoly.rdivInt 1 q, ?_, ?_⟩
    · unfold RPoly.powInt RPoly.pow
      have : (-n).toNat = n.natAbs := by omega
      rw [if_pos hneg, ← this, hl']
      simp only [Option.bind_some, hq, Option.map_some]
    · cases h; rfl
  · simp only [hneg, decide_false, Bool.false_eq_true, if_false] at h
    obtain ⟨l, h1, h⟩ := bind_ok_inv h
    obtain ⟨last, h2, h⟩ := bind_ok_inv h
    obtain ⟨hn, l', hl', rfl⟩ := power_supply_sound ratOf RPoly.mul SrcPoly.rat_mul rat_mul_eq r n l h1
    obtain ⟨q, hq, rfl⟩ := lastOf_map_ok _ _ _ h2
    refine ⟨by omega, q, ?_, ?_⟩
    · unfold RPoly.powInt RPoly.pow
      rw [if_neg hneg, hl']
      exact hq
    · cases h; rfl

set_option linter.unusedVariables false in
/-- OPTIONAL (termination of the `while` loop within the fuel; delete this theorem if it cannot be proved, do not leave a sorry):
    for every positive limit the translated `minimal_chains` returns -/
theorem minimal_chains_returns (limit : Nat) (hl : 0 < limit) : ∃ r, SrcPoly.minimal_chains (Int.ofNat limit) = .ok r := by
  refine ⟨chainsOf (additionChains limit), ?_⟩
  rw [minimal_chains_nat]
  have hall := minimalChains_all limit (limit + 1) 1 [(1, [1])]
    (by intro e he; simp at he; subst he; exact ⟨rfl, by simp⟩)
    (by intro e he; simp at he; subst he; simp)
    (Nat.le_refl 1)
    (by
      intro i hi1 hik _
      have : i = 1 := by omega
      subst this
      show (chainsLookup [(1, [1])] 1).isSome = true
      decide)
    (by omega)
  have : additionChains limit = minimalChains limit (limit + 1) [(1, [1])] := rfl
  rw [this, hall]
  rfl

end Kingdon.SrcPolyEq

/-
  C03 in the wording of the property: a^b is the sum over r, s of the grade r+s part of the product of the grade-r
  part of a with the grade-s part of b; likewise |r-s|, s-r, r-s, 0 for a|b, lc, rc, sp.
-/
import Kingdon.Lemmas.Products
import Mathlib.Data.Finsupp.Basic
import Mathlib.Algebra.BigOperators.Finsupp.Basic
namespace Kingdon
open Finsupp BigOperators
noncomputable section
variable {α : Type} [CommRing α]

/-- the grade-g part of a multivector -/
def gradeProj (g : Nat) (a : ℕ →₀ α) : ℕ →₀ α := a.filter (fun k => popcount k = g)

/-- all stored blades have grade at most D -/
def GradeBound (D : Nat) (a : ℕ →₀ α) : Prop := ∀ k ∈ a.support, popcount k ≤ D

theorem sum_gradeProj (D : Nat) (a : ℕ →₀ α) (h : GradeBound D a) :
    ∑ r ∈ Finset.range (D + 1), gradeProj r a = a := by
  ext k
  rw [Finsupp.finsetSum_apply]
  simp only [gradeProj, Finsupp.filter_apply]
  rw [Finset.sum_ite_eq]
  by_cases hk : a k = 0
  · simp [hk]
  · have := h k (Finsupp.mem_support_iff.2 hk)
    rw [if_pos (Finset.mem_range.2 (by omega))]

theorem bilin_sum_left (s : Nat → Nat → Int) (ko : Nat → Nat → Nat) (ι : Type) (t : Finset ι) (f : ι → (ℕ →₀ α))
    (b : ℕ →₀ α) : bilin s ko (∑ i ∈ t, f i) b = ∑ i ∈ t, bilin s ko (f i) b := by
  classical
  induction t using Finset.induction_on with
  | empty => simp
  | insert x t hx ih => rw [Finset.sum_insert hx, Finset.sum_insert hx, bilin_add_left, ih]

theorem bilin_sum_right (s : Nat → Nat → Int) (ko : Nat → Nat → Nat) (ι : Type) (t : Finset ι) (a : ℕ →₀ α)
    (f : ι → (ℕ →₀ α)) : bilin s ko a (∑ i ∈ t, f i) = ∑ i ∈ t, bilin s ko a (f i) := by
  classical
  induction t using Finset.induction_on with
  | empty => simp
  | insert x t hx ih => rw [Finset.sum_insert hx, Finset.sum_insert hx, bilin_add_right, ih]

theorem gradeProj_add (g : Nat) (a b : ℕ →₀ α) : gradeProj g (a + b) = gradeProj g a + gradeProj g b := by
  unfold gradeProj; exact Finsupp.filter_add

theorem gradeProj_zero (g : Nat) : gradeProj g (0 : ℕ →₀ α) = 0 := by
  unfold gradeProj; exact Finsupp.filter_zero _

theorem gradeProj_bilin (s : Nat → Nat → Int) (g : Nat) (a b : ℕ →₀ α) :
    gradeProj g (bilin s (· ^^^ ·) a b) =
      bilin (fun i j => if popcount (i ^^^ j) = g then s i j else 0) (· ^^^ ·) a b := by
  induction a using Finsupp.induction_linear with
  | zero => simp [gradeProj_zero]
  | add a a' iha iha' => rw [bilin_add_left, bilin_add_left, gradeProj_add, iha, iha']
  | single i x =>
    induction b using Finsupp.induction_linear with
    | zero => simp [gradeProj_zero]
    | add b b' ihb ihb' => rw [bilin_add_right, bilin_add_right, gradeProj_add, ihb, ihb']
    | single j y =>
      rw [bilin_single_single, bilin_single_single]
      unfold gradeProj
      by_cases h : popcount (i ^^^ j) = g
      · rw [Finsupp.filter_single_of_pos (fun k => popcount k = g) h, if_pos h]
      · rw [Finsupp.filter_single_of_neg (fun k => popcount k = g) h, if_neg h]; simp

theorem bilin_congr (s s' : Nat → Nat → Int) (ko : Nat → Nat → Nat) (a b : ℕ →₀ α)
    (h : ∀ i ∈ a.support, ∀ j ∈ b.support, s i j = s' i j) : bilin s ko a b = bilin s' ko a b := by
  unfold bilin
  refine Finsupp.sum_congr fun i hi => Finsupp.sum_congr fun j hj => ?_
  rw [h i hi j hj]

theorem bilin_zero_table (ko : Nat → Nat → Nat) (a b : ℕ →₀ α) : bilin (fun _ _ => 0) ko a b = 0 := by
  simp [bilin]

theorem popcount_of_mem_gradeProj {g : Nat} {a : ℕ →₀ α} {k : Nat} (h : k ∈ (gradeProj g a).support) :
    popcount k = g := by
  unfold gradeProj at h
  rw [Finsupp.support_filter, Finset.mem_filter] at h
  exact h.2

/-- generic form: a graded table whose selector is "the product blade has grade `sel r s`" (`none` = never) is the
    double sum of the selected grade parts of the products of the grade parts -/
theorem bilin_graded_eq_sum (s : Nat → Nat → Int) (sel : Nat → Nat → Option Nat) (D : Nat) (X Y : ℕ →₀ α)
    (hX : GradeBound D X) (hY : GradeBound D Y) :
    bilin (fun i j => if sel (popcount i) (popcount j) = some (popcount (i ^^^ j)) then s i j else 0) (· ^^^ ·) X Y =
      ∑ r ∈ Finset.range (D + 1), ∑ t ∈ Finset.range (D + 1),
        (match sel r t with
         | some g => gradeProj g (clMulS s (gradeProj r X) (gradeProj t Y))
         | none => 0) := by
  conv_lhs => rw [← sum_gradeProj D X hX, ← sum_gradeProj D Y hY]
  rw [bilin_sum_left]
  refine Finset.sum_congr rfl fun r _ => ?_
  rw [bilin_sum_right]
  refine Finset.sum_congr rfl fun t _ => ?_
  cases hsel : sel r t with
  | none =>
    show _ = 0
    rw [← bilin_zero_table (· ^^^ ·) (gradeProj r X) (gradeProj t Y)]
    refine bilin_congr _ _ _ _ _ fun i hi j hj => ?_
    rw [popcount_of_mem_gradeProj hi, popcount_of_mem_gradeProj hj, hsel]
    simp
  | some g =>
    show _ = gradeProj g (clMulS s (gradeProj r X) (gradeProj t Y))
    rw [clMulS, gradeProj_bilin]
    refine bilin_congr _ _ _ _ _ fun i hi j hj => ?_
    rw [popcount_of_mem_gradeProj hi, popcount_of_mem_gradeProj hj, hsel]
    simp only [Option.some.injEq]
    by_cases h : popcount (i ^^^ j) = g
    · rw [if_pos h, if_pos h.symm]
    · rw [if_neg h, if_neg (fun h' => h h'.symm)]

/-- **a ^ b**: sum of the grade r+s parts of <a>_r <b>_s -/
theorem op_is_sum_of_grade_parts (s : Nat → Nat → Int) (D : Nat) (X Y : ℕ →₀ α) (hX : GradeBound D X) (hY : GradeBound D Y) :
    bilin (gradedTable s fun r t g => g == r + t) (· ^^^ ·) X Y =
      ∑ r ∈ Finset.range (D + 1), ∑ t ∈ Finset.range (D + 1), gradeProj (r + t) (clMulS s (gradeProj r X) (gradeProj t Y)) := by
  have := bilin_graded_eq_sum s (fun r t => some (r + t)) D X Y hX hY
  simp only at this
  rw [← this]
  congr 1
  funext i j
  simp only [gradedTable, beq_iff_eq, Option.some.injEq]
  by_cases h : popcount (i ^^^ j) = popcount i + popcount j
  · rw [if_pos h, if_pos h.symm]
  · rw [if_neg h, if_neg (fun h' => h h'.symm)]

/-- **a.lc(b)**: grade s-r parts (nothing when s < r) -/
theorem lc_is_sum_of_grade_parts (s : Nat → Nat → Int) (D : Nat) (X Y : ℕ →₀ α) (hX : GradeBound D X) (hY : GradeBound D Y) :
    bilin (gradedTable s fun r t g => g + r == t) (· ^^^ ·) X Y =
      ∑ r ∈ Finset.range (D + 1), ∑ t ∈ Finset.range (D + 1),
        (if r ≤ t then gradeProj (t - r) (clMulS s (gradeProj r X) (gradeProj t Y)) else 0) := by
  have := bilin_graded_eq_sum s (fun r t => if r ≤ t then some (t - r) else none) D X Y hX hY
  have e : ∀ r t, (match (if r ≤ t then some (t - r) else none : Option Nat) with
         | some g => gradeProj g (clMulS s (gradeProj r X) (gradeProj t Y))
         | none => 0) = (if r ≤ t then gradeProj (t - r) (clMulS s (gradeProj r X) (gradeProj t Y)) else 0) := by
    intro r t; split_ifs <;> rfl
  simp only [e] at this
  rw [← this]
  congr 1
  funext i j
  simp only [gradedTable, beq_iff_eq]
  by_cases h : popcount (i ^^^ j) + popcount i = popcount j
  · rw [if_pos h, if_pos]
    rw [if_pos (by omega)]; congr 1; omega
  · rw [if_neg h, if_neg]
    split_ifs with h'
    · intro h2; apply h; have := Option.some.inj h2; omega
    · simp

/-- **a.rc(b)**: grade r-s parts -/
theorem rc_is_sum_of_grade_parts (s : Nat → Nat → Int) (D : Nat) (X Y : ℕ →₀ α) (hX : GradeBound D X) (hY : GradeBound D Y) :
    bilin (gradedTable s fun r t g => g + t == r) (· ^^^ ·) X Y =
      ∑ r ∈ Finset.range (D + 1), ∑ t ∈ Finset.range (D + 1),
        (if t ≤ r then gradeProj (r - t) (clMulS s (gradeProj r X) (gradeProj t Y)) else 0) := by
  have := bilin_graded_eq_sum s (fun r t => if t ≤ r then some (r - t) else none) D X Y hX hY
  have e : ∀ r t, (match (if t ≤ r then some (r - t) else none : Option Nat) with
         | some g => gradeProj g (clMulS s (gradeProj r X) (gradeProj t Y))
         | none => 0) = (if t ≤ r then gradeProj (r - t) (clMulS s (gradeProj r X) (gradeProj t Y)) else 0) := by
    intro r t; split_ifs <;> rfl
  simp only [e] at this
  rw [← this]
  congr 1
  funext i j
  simp only [gradedTable, beq_iff_eq]
  by_cases h : popcount (i ^^^ j) + popcount j = popcount i
  · rw [if_pos h, if_pos]
    rw [if_pos (by omega)]; congr 1; omega
  · rw [if_neg h, if_neg]
    split_ifs with h'
    · intro h2; apply h; have := Option.some.inj h2; omega
    · simp

/-- **a | b**: grade |r-s| parts -/
theorem ip_is_sum_of_grade_parts (s : Nat → Nat → Int) (D : Nat) (X Y : ℕ →₀ α) (hX : GradeBound D X) (hY : GradeBound D Y) :
    bilin (gradedTable s fun r t g => g + r == t || g + t == r) (· ^^^ ·) X Y =
      ∑ r ∈ Finset.range (D + 1), ∑ t ∈ Finset.range (D + 1),
        gradeProj (if r ≤ t then t - r else r - t) (clMulS s (gradeProj r X) (gradeProj t Y)) := by
  have := bilin_graded_eq_sum s (fun r t => some (if r ≤ t then t - r else r - t)) D X Y hX hY
  simp only at this
  rw [← this]
  congr 1
  funext i j
  simp only [gradedTable, Bool.or_eq_true, beq_iff_eq, Option.some.injEq]
  by_cases h : popcount (i ^^^ j) + popcount i = popcount j ∨ popcount (i ^^^ j) + popcount j = popcount i
  · rw [if_pos h, if_pos]; split_ifs <;> omega
  · rw [if_neg h, if_neg]; split_ifs <;> omega

/-- **a.sp(b)**: grade 0 parts -/
theorem sp_is_sum_of_grade_parts (s : Nat → Nat → Int) (D : Nat) (X Y : ℕ →₀ α) (hX : GradeBound D X) (hY : GradeBound D Y) :
    bilin (gradedTable s fun _ _ g => g == 0) (· ^^^ ·) X Y =
      ∑ r ∈ Finset.range (D + 1), ∑ t ∈ Finset.range (D + 1), gradeProj 0 (clMulS s (gradeProj r X) (gradeProj t Y)) := by
  have := bilin_graded_eq_sum s (fun _ _ => some 0) D X Y hX hY
  simp only at this
  rw [← this]
  congr 1
  funext i j
  simp only [gradedTable, beq_iff_eq, Option.some.injEq]
  by_cases h : popcount (i ^^^ j) = 0
  · rw [if_pos h, if_pos h.symm]
  · rw [if_neg h, if_neg (fun h' => h h'.symm)]

end
end Kingdon

/-
  The translated `Algebra._blade2canon` (algebra.py) equals the model's `Cfg.blade2canon`.
-/
import Kingdon.Lemmas.SourceSigns
namespace Kingdon.SrcEq
open Kingdon

/-- every generator label of an admissible configuration is a single hex digit (a fact `admissible` checks that is not in `Adm`) -/
theorem vecs16_of_admissible (c : Cfg) (h : c.admissible = true) : ∀ v ∈ c.vecs, v < 16 := by
  unfold Cfg.admissible at h
  simp only [Bool.and_eq_true, List.all_eq_true, decide_eq_true_eq] at h
  intro v hv
  exact (h.1.1.1.1.1.2 v hv).2

theorem map_hexChar_inj : ∀ (a b : List Nat), (∀ x ∈ a, x < 16) → (∀ x ∈ b, x < 16) →
    a.map hexChar = b.map hexChar → a = b := by
  intro a
  induction a with
  | nil => intro b _ _ e; cases b with
    | nil => rfl
    | cons y b => simp at e
  | cons x a ih =>
    intro b ha hb e
    cases b with
    | nil => simp at e
    | cons y b =>
      simp only [List.map_cons, List.cons.injEq] at e
      have h1 := hexChar_injOn x y (ha x (by simp)) (hb y (by simp)) e.1
      have h2 := ih b (fun z hz => ha z (by simp [hz])) (fun z hz => hb z (by simp [hz])) e.2
      rw [h1, h2]

theorem pyName_inj (a b : List Nat) (ha : ∀ x ∈ a, x < 16) (hb : ∀ x ∈ b, x < 16) (e : pyName a = pyName b) :
    a = b := by
  unfold pyName at e
  exact map_hexChar_inj a b ha hb (List.cons.inj e).2

theorem dictGet?_key_inj {α κ ν : Type} [BEq κ] [LawfulBEq κ] (f : α → κ) (g : α → ν)
    (l : List α) (a : α) (hinj : ∀ x ∈ l, f x = f a → x = a) :
    (a ∈ l → Py.dictGet? (l.map fun n => (f n, g n)) (f a) = some (g a)) ∧
    (a ∉ l → Py.dictGet? (l.map fun n => (f n, g n)) (f a) = none) := by
  induction l with
  | nil => exact ⟨fun h => by simp at h, fun _ => rfl⟩
  | cons x l ih =>
    have ih' := ih (fun y hy => hinj y (by simp [hy]))
    unfold Py.dictGet? at ih' ⊢
    rw [List.map_cons, List.find?_cons]
    by_cases e : f x = f a
    · have := hinj x (by simp) e
      subst this
      simp
    · have e' : (f x == f a) = false := by simpa using e
      have hne : ¬ a = x := fun h => e (by rw [h])
      simp only [e', List.mem_cons, hne, false_or]
      exact ih'

theorem dictGet?_canon2bin (c : Cfg) (hb16 : ∀ n ∈ c.basis, ∀ l ∈ n, l < 16) (sp : List Nat)
    (hs16 : ∀ l ∈ sp, l < 16) :
    Py.dictGet? (algOf c).canon2bin (pyName sp) =
      if sp ∈ c.basis then some (Int.ofNat (c.binOf sp)) else none := by
  have := dictGet?_key_inj pyName (fun n => Int.ofNat (c.binOf n)) c.basis sp
    (fun x hx e => pyName_inj x sp (hb16 x hx) hs16 e)
  by_cases h : sp ∈ c.basis
  · rw [if_pos h]; exact this.1 h
  · rw [if_neg h]; exact this.2 h

theorem dictHas_eq_isSome {κ ν : Type} [BEq κ] (d : Py.Dict κ ν) (k : κ) :
    Py.dictHas d k = (Py.dictGet? d k).isSome := by
  unfold Py.dictHas Py.dictGet?
  induction d with
  | nil => rfl
  | cons x d ih =>
    rw [List.any_cons, List.find?_cons]
    cases h : x.1 == k <;> simp [ih]

theorem dictHas_canon2bin (c : Cfg) (hb16 : ∀ n ∈ c.basis, ∀ l ∈ n, l < 16) (sp : List Nat)
    (hs16 : ∀ l ∈ sp, l < 16) :
    Py.dictHas (algOf c).canon2bin (pyName sp) = c.basis.contains sp := by
  rw [dictHas_eq_isSome, dictGet?_canon2bin c hb16 sp hs16]
  by_cases h : sp ∈ c.basis <;> simp [h]


theorem nil_mem_basis (c : Cfg) (h : Cfg.Adm c) : [] ∈ c.basis := by
  obtain ⟨n, hn, hb⟩ := h.spelled 0 (Nat.pow_pos (by omega))
  have nd := Cfg.wordOf_nodup c n (h.names_nodup n hn) (h.names_letters n hn)
  rw [Cfg.binOf_eq_bitsOf] at hb
  have := word_nil _ nd hb
  have : n = [] := by simpa [Cfg.wordOf] using this
  exact this ▸ hn

theorem singleton_mem_basis (c : Cfg) (h : Cfg.Adm c) (l : Nat) (hl : l ∈ c.vecs) : [l] ∈ c.basis := by
  have hj : c.vecs.idxOf l < c.d := by rw [← h.vecs_len]; exact List.idxOf_lt_length_of_mem hl
  obtain ⟨n, hn, hb⟩ := h.spelled _ (Cfg.two_pow_lt c _ hj)
  have nd := Cfg.wordOf_nodup c n (h.names_nodup n hn) (h.names_letters n hn)
  rw [Cfg.binOf_eq_bitsOf] at hb
  have hw := word_singleton _ nd _ hb
  unfold Cfg.wordOf at hw
  obtain ⟨l', rfl, hw'⟩ : ∃ l', n = [l'] ∧ c.vecs.idxOf l' = c.vecs.idxOf l := by
    cases n with
    | nil => simp at hw
    | cons l' n =>
      cases n with
      | nil => exact ⟨l', rfl, by simpa using hw⟩
      | cons _ _ => simp at hw
  have := Cfg.idx_inj c l' l (h.names_letters _ hn l' (by simp)) hl hw'
  exact this ▸ hn

theorem binOf_singleton (c : Cfg) (l : Nat) : c.binOf [l] = 2 ^ c.vecs.idxOf l := by
  simp [Cfg.binOf]

theorem pow_two_ofNat (d : Nat) : Py.pow 2 (Int.ofNat d) = Int.ofNat (2 ^ d) := by
  simp [Py.pow]

theorem dictGetD_gen (c : Cfg) (h : Cfg.Adm c) (hb16 : ∀ n ∈ c.basis, ∀ l ∈ n, l < 16) (l : Nat) (hl : l < 16) :
    Py.dictGetD (algOf c).canon2bin (['e'] ++ [hexChar l]) (Py.pow 2 (algOf c).d) =
      Int.ofNat (2 ^ c.vecs.idxOf l) := by
  have e : (['e'] ++ [hexChar l] : List Char) = pyName [l] := rfl
  have hd : (algOf c).d = Int.ofNat c.d := rfl
  unfold Py.dictGetD
  rw [e, dictGet?_canon2bin c hb16 [l] (by simpa using hl), hd, pow_two_ofNat]
  by_cases hv : l ∈ c.vecs
  · rw [if_pos (singleton_mem_basis c h l hv), binOf_singleton]; rfl
  · have : [l] ∉ c.basis := fun hm => hv (h.names_letters _ hm l (by simp))
    rw [if_neg this, List.idxOf_eq_length hv, h.vecs_len]; rfl

theorem lor_ofNat (a b : Nat) : Py.lor (Int.ofNat a) (Int.ofNat b) = Int.ofNat (a ||| b) := rfl

theorem foldl_lor (c : Cfg) (sp : List Nat) (a : Nat) :
    (sp.map fun l => Int.ofNat (2 ^ c.vecs.idxOf l)).foldl Py.lor (Int.ofNat a) =
      Int.ofNat (sp.foldl (fun acc l => acc ||| 2 ^ c.vecs.idxOf l) a) := by
  induction sp generalizing a with
  | nil => rfl
  | cons x sp ih => rw [List.map_cons, List.foldl_cons, List.foldl_cons, lor_ofNat, ih]

theorem reduce_lor (c : Cfg) (sp : List Nat) (hne : sp ≠ []) :
    Py.reduce Py.lor (sp.map fun l => Int.ofNat (2 ^ c.vecs.idxOf l)) =
      .ok (Int.ofNat (sp.foldl (fun acc l => acc ||| 2 ^ c.vecs.idxOf l) 0)) := by
  cases sp with
  | nil => exact absurd rfl hne
  | cons x sp =>
    rw [List.map_cons]
    show Except.ok (List.foldl Py.lor _ _) = _
    rw [foldl_lor, List.foldl_cons, Nat.zero_or]

theorem dictGet?_bin2canon (c : Cfg) (B : Nat) :
    Py.dictGet? (algOf c).bin2canon (Int.ofNat B) = (c.basis.find? (fun n => c.binOf n == B)).map pyName := by
  unfold Py.dictGet? algOf
  simp only [List.find?_map, Option.map_map]
  have hfun : ((fun x : Int × List Char => x.1 == Int.ofNat B) ∘ fun n => (Int.ofNat (c.binOf n), pyName n))
      = fun n => c.binOf n == B := by
    funext n
    simp only [Function.comp, Int.ofNat_eq_natCast]
    by_cases e : c.binOf n = B
    · simp [e]
    · have : ¬ ((c.binOf n : Int) = (B : Int)) := fun h => e (Int.ofNat.inj h)
      simp [e, this]
  rw [hfun]
  rfl

theorem binOf_testBit_d (c : Cfg) (h : Cfg.Adm c) (n : List Nat) (hn : n ∈ c.basis) :
    (c.binOf n).testBit c.d = false := by
  rw [Cfg.binOf_eq_bitsOf, testBit_bitsOf _ (Cfg.wordOf_nodup c n (h.names_nodup n hn) (h.names_letters n hn))]
  simp only [decide_eq_false_iff_not]
  intro hm
  obtain ⟨l, hl, e⟩ := List.mem_map.mp hm
  have := List.idxOf_lt_length_of_mem (h.names_letters n hn l hl)
  rw [h.vecs_len] at this
  omega


theorem blade2canon_unfold (alg : Src.Alg) (bb : List Char) :
    Src.blade2canon alg bb =
      if Py.dictHas alg.canon2bin bb = true then pure (bb, (0 : Int)) else
      (Py.reduce Py.lor ((Py.sliceFrom bb 1).map
          (fun i => Py.dictGetD alg.canon2bin (['e'] ++ [i]) (Py.pow 2 alg.d)))) >>= fun bin =>
        match Py.dictGet? alg.bin2canon bin with
        | some cb =>
          if Py.truthy cb = true then
            Src.swap_blades (Py.sliceFrom bb 1) [] (Py.sliceFrom cb 1) >>= fun r => pure (cb, r.1)
          else pure (bb, (0 : Int))
        | none => pure (bb, (0 : Int)) := by
  unfold Src.blade2canon
  split
  · rfl
  · dsimp only
    congr 1
    funext bin
    cases h : Py.dictGet? alg.bin2canon bin with
    | none => rfl
    | some cb => rfl

/-- the translated `_swap_blades` on the python strings without their leading `'e'` (as `_blade2canon` calls it) -/
theorem swap_blades_pyName (sp canon : List Nat) (hsp : ∀ l ∈ sp, l < 16) (hc : ∀ l ∈ canon, l < 16)
    (hnd : canon.Nodup) (hmem : ∀ x ∈ canon, x ∈ sp) :
    Src.swap_blades (Py.sliceFrom (pyName sp) 1) [] (Py.sliceFrom (pyName canon) 1) >>=
        (fun r => pure (pyName canon, r.1)) =
      (.ok (pyName canon, Int.ofNat (swapBlades sp [] canon).1) : Py.M (List Char × Int)) := by
  rw [sliceFrom_pyName, sliceFrom_pyName]
  have := swap_blades_hex sp [] canon hsp (by simp) hc hnd
    (by intro x hx
        simp only [phase1]
        exact hmem x hx)
  rw [List.map_nil] at this
  rw [this]
  rfl

/-- **`_blade2canon` is `Cfg.blade2canon`**: for every admissible configuration whose labels are single hex digits (which
    `admissible` checks: `vecs16_of_admissible`) and every spelling over single hex digits — canonical, permuted,
    with repeated or foreign letters, also with the labels 14 = `e` and 15 = `f` — the translated python returns the model's
    canonical name and swap count, and the requested spelling itself (which is then not a key of `canon2bin`) with 0 swaps
    exactly where the model returns `none`; it never raises. -/
theorem blade2canon_eq (c : Cfg) (h : Cfg.Adm c) (h16 : ∀ v ∈ c.vecs, v < 16) (sp : List Nat) (hsp : ∀ l ∈ sp, l < 16) :
    Src.blade2canon (algOf c) (pyName sp) =
      match c.blade2canon sp with
      | some (canon, swaps) => .ok (pyName canon, Int.ofNat swaps)
      | none => .ok (pyName sp, 0) := by
  have hb16 : ∀ n ∈ c.basis, ∀ l ∈ n, l < 16 := fun n hn l hl => h16 l (h.names_letters n hn l hl)
  have hs16 : ∀ l ∈ sp, l < 16 := hsp
  rw [blade2canon_unfold, dictHas_canon2bin c hb16 sp hs16]
  unfold Cfg.blade2canon
  by_cases hc : c.basis.contains sp = true
  · rw [if_pos hc, if_pos hc]; rfl
  · rw [if_neg hc, if_neg hc]
    have hne : sp ≠ [] := by
      intro e; subst e; exact hc (by simpa using nil_mem_basis c h)
    have hmap : (Py.sliceFrom (pyName sp) 1).map
        (fun i => Py.dictGetD (algOf c).canon2bin (['e'] ++ [i]) (Py.pow 2 (algOf c).d)) =
        sp.map fun l => Int.ofNat (2 ^ c.vecs.idxOf l) := by
      rw [sliceFrom_pyName, List.map_map]
      apply List.map_congr_left
      intro l hl
      exact dictGetD_gen c h hb16 l (hs16 l hl)
    rw [hmap, reduce_lor c sp hne]
    show (match Py.dictGet? (algOf c).bin2canon (Int.ofNat _) with
      | some cb => _
      | none => _) = _
    rw [dictGet?_bin2canon]
    by_cases hany : (sp.any fun l => !c.vecs.contains l) = true
    · rw [if_pos hany]
      obtain ⟨l, hl, hlv⟩ := List.any_eq_true.mp hany
      have hlv' : l ∉ c.vecs := by simpa using hlv
      have hbit : (sp.foldl (fun acc l => acc ||| 2 ^ c.vecs.idxOf l) 0).testBit c.d = true := by
        rw [Cfg.orFold_testBit]
        have : c.d ∈ c.wordOf sp := by
          rw [← h.vecs_len, ← List.idxOf_eq_length hlv']
          exact List.mem_map_of_mem hl
        simp [this]
      have hf : c.basis.find? (fun n => c.binOf n == sp.foldl (fun acc l => acc ||| 2 ^ c.vecs.idxOf l) 0) = none := by
        rw [List.find?_eq_none]
        intro n hn hb
        have hb' := beq_iff_eq.mp hb
        have := binOf_testBit_d c h n hn
        rw [hb', hbit] at this
        cases this
      rw [hf]
      rfl
    · rw [if_neg hany]
      dsimp only
      have hall : ∀ l ∈ sp, l ∈ c.vecs := by
        intro l hl
        have := List.any_eq_true.not.mp hany
        by_cases hv : l ∈ c.vecs
        · exact hv
        · exact absurd ⟨l, hl, by simpa using hv⟩ this
      cases hf : c.basis.find? (fun n => c.binOf n == sp.foldl (fun acc l => acc ||| 2 ^ c.vecs.idxOf l) 0) with
      | none => rfl
      | some canon =>
        have hmemb : canon ∈ c.basis := List.mem_of_find?_eq_some hf
        have hb0 := List.find?_some hf
        have hb := beq_iff_eq.mp hb0
        have hnd := h.names_nodup _ hmemb
        have hlc := h.names_letters _ hmemb
        have hmem : ∀ x ∈ canon, x ∈ sp := by
          intro x hx
          have h1 := testBit_bitsOf _ (Cfg.wordOf_nodup c canon hnd hlc) (c.vecs.idxOf x)
          rw [← Cfg.binOf_eq_bitsOf, hb, Cfg.orFold_testBit] at h1
          have hm : c.vecs.idxOf x ∈ c.wordOf canon := List.mem_map_of_mem hx
          simp only [hm, decide_true, Nat.zero_testBit, Bool.false_or, decide_eq_true_eq] at h1
          obtain ⟨y, hy, ey⟩ := List.mem_map.mp h1
          exact Cfg.idx_inj c y x (hall y hy) (hlc x hx) ey ▸ hy
        show (if Py.truthy (pyName canon) = true then _ else _) = _
        rw [if_pos (by rfl), swap_blades_pyName sp canon hsp (hb16 _ hmemb) hnd hmem]


/-- a permuted spelling of a name of the basis: the python returns that name and the parity-defining swap count -/
theorem blade2canon_perm (c : Cfg) (h : Cfg.Adm c) (h16 : ∀ v ∈ c.vecs, v < 16) (sp n : List Nat)
    (hn : n ∈ c.basis) (hp : sp.Perm n) :
    ∃ canon swaps, Src.blade2canon (algOf c) (pyName sp) = .ok (pyName canon, Int.ofNat swaps) ∧
      c.blade2canon sp = some (canon, swaps) ∧ canon ∈ c.basis ∧ canon.Perm sp := by
  obtain ⟨canon, swaps, h1, h2, h3, _⟩ := Cfg.blade2canon_sound c h sp n hn hp
  have hsp : ∀ l ∈ sp, l < 16 := fun l hl => h16 l (h.names_letters n hn l (hp.mem_iff.mp hl))
  refine ⟨canon, swaps, ?_, h1, h2, h3⟩
  rw [blade2canon_eq c h h16 sp hsp, h1]

end Kingdon.SrcEq

/-
  C01 — basis-blade products follow the Clifford relations of the chosen signature.
  Property theorems only; helper lemmas live in Kingdon/Lemmas.
-/
import Kingdon.Lemmas.Names
namespace Kingdon.C01

/-- Blade multiplication of the reference table is associative: for every dimension (length of `sig`),
    every metric (arbitrary integer entries, in particular 1, -1, 0 in any order) and all blades. -/
theorem blade_table_associative (sig : List Int) (I J L : Nat) :
    csign sig I J * csign sig (I ^^^ J) L = csign sig J L * csign sig I (J ^^^ L) :=
  csign_cocycle sig I J L

/-- Each basis vector squares to its signature entry. -/
theorem generator_squares (sig : List Int) (a : Nat) (ha : a < sig.length) :
    SB.mul sig (gen a) (gen a) = SB.smul sig[a]! SB.one :=
  gen_sq sig a ha

/-- Distinct basis vectors anticommute. -/
theorem generators_anticommute (sig : List Int) (a b : Nat) (ha : a < sig.length) (hb : b < sig.length)
    (h : a ≠ b) : SB.mul sig (gen a) (gen b) = SB.smul (-1) (SB.mul sig (gen b) (gen a)) :=
  gen_anticomm sig a b ha hb h

/-- kingdon's string algorithm `_swap_blades` (both loops, arbitrary target spelling) computes the Clifford
    product of two blade words: `e_b1 e_b2 = (-1)^swaps * prod(sig[eliminated]) * e_target`. -/
theorem swap_blades_sound (sig : List Int) (b1 b2 target : List Nat)
    (h1 : b1.Nodup) (hv1 : Valid sig b1) (hv2 : Valid sig b2)
    (ht : target.Perm (phase1 b1 b2 0 []).1) :
    let r := swapBlades b1 b2 target
    r.2.1 = target ∧
    evalWord sig (b1 ++ b2) = SB.smul ((-1) ^ r.1 * prodSig sig r.2.2) (evalWord sig target) :=
  swapBlades_sound sig b1 b2 target h1 hv1 hv2 ht

/-- The sign `_compute_sign` stores for two *named* blades is the canonical Clifford sign twisted by the
    orientations of the three names involved (any spelling, any generator order). -/
theorem compute_sign_is_twisted_cocycle (sig : List Int) (wI wJ wK : List Nat)
    (hI : wI.Nodup) (hK : wK.Nodup) (vI : Valid sig wI) (vJ : Valid sig wJ)
    (ht : wK.Perm (phase1 wI wJ 0 []).1) :
    computeSignW sig wI wJ wK =
      eps sig wI * eps sig wJ * eps sig wK * csign sig (bitsOf wI) (bitsOf wJ) :=
  computeSignW_eq sig wI wJ wK hI hK vI vJ ht

/-- non-vacuity: the hypotheses are met by e31 * e12 -> e23 in R3 (letters are bit positions 0,1,2) -/
example : ([2, 0] : List Nat).Nodup ∧ ([1, 2] : List Nat).Nodup ∧ Valid [1, 1, 1] [2, 0] ∧ Valid [1, 1, 1] [0, 1] ∧
    ([1, 2] : List Nat).Perm (phase1 [2, 0] [0, 1] 0 []).1 ∧ computeSignW [1, 1, 1] [2, 0] [0, 1] [1, 2] = -1 := by
  refine ⟨by decide, by decide, ?_, ?_, ?_, by decide⟩
  · intro g hg; simp at hg; rcases hg with rfl | rfl <;> simp
  · intro g hg; simp at hg; rcases hg with rfl | rfl <;> simp
  · decide

end Kingdon.C01

/-
  C01 — basis-blade products follow the Clifford relations of the chosen signature.
  Property theorems only; helper lemmas live in Kingdon/Lemmas.
-/
import Kingdon.Lemmas.Names
import Kingdon.Lemmas.CfgSign
namespace Kingdon.C01

/-- Blade multiplication of the reference table is associative: for every dimension (length of `sig`),
    every metric (arbitrary integer entries, in particular 1, -1, 0 in any order) and all blades. -/
theorem blade_table_associative (sig : List Int) (I J L : Nat) :
    csign sig I J * csign sig (I ^^^ J) L = csign sig J L * csign sig I (J ^^^ L) :=
  csign_cocycle sig I J L

/-- Each basis vector squares to its signature entry. -/
theorem generator_squares (sig : List Int) (a : Nat) (ha : a < sig.length) :
    SB.mul sig (gen a) (gen a) = SB.smul sig[a]! SB.one :=
  gen_sq sig a ha

/-- Distinct basis vectors anticommute. -/
theorem generators_anticommute (sig : List Int) (a b : Nat) (ha : a < sig.length) (hb : b < sig.length)
    (h : a ≠ b) : SB.mul sig (gen a) (gen b) = SB.smul (-1) (SB.mul sig (gen b) (gen a)) :=
  gen_anticomm sig a b ha hb h

/-- kingdon's string algorithm `_swap_blades` (both loops, arbitrary target spelling) computes the Clifford
    product of two blade words: `e_b1 e_b2 = (-1)^swaps * prod(sig[eliminated]) * e_target`. -/
theorem swap_blades_sound (sig : List Int) (b1 b2 target : List Nat)
    (h1 : b1.Nodup) (hv1 : Valid sig b1) (hv2 : Valid sig b2)
    (ht : target.Perm (phase1 b1 b2 0 []).1) :
    let r := swapBlades b1 b2 target
    r.2.1 = target ∧
    evalWord sig (b1 ++ b2) = SB.smul ((-1) ^ r.1 * prodSig sig r.2.2) (evalWord sig target) :=
  swapBlades_sound sig b1 b2 target h1 hv1 hv2 ht

/-- The sign `_compute_sign` stores for two *named* blades is the canonical Clifford sign twisted by the
    orientations of the three names involved (any spelling, any generator order). -/
theorem compute_sign_is_twisted_cocycle (sig : List Int) (wI wJ wK : List Nat)
    (hI : wI.Nodup) (hK : wK.Nodup) (vI : Valid sig wI) (vJ : Valid sig wJ)
    (ht : wK.Perm (phase1 wI wJ 0 []).1) :
    computeSignW sig wI wJ wK =
      eps sig wI * eps sig wJ * eps sig wK * csign sig (bitsOf wI) (bitsOf wJ) :=
  computeSignW_eq sig wI wJ wK hI hK vI vJ ht

/-- non-vacuity: the hypotheses are met by e31 * e12 -> e23 in R3 (letters are bit positions 0,1,2) -/
example : ([2, 0] : List Nat).Nodup ∧ ([1, 2] : List Nat).Nodup ∧ Valid [1, 1, 1] [2, 0] ∧ Valid [1, 1, 1] [0, 1] ∧
    ([1, 2] : List Nat).Perm (phase1 [2, 0] [0, 1] 0 []).1 ∧ computeSignW [1, 1, 1] [2, 0] [0, 1] [1, 2] = -1 := by
  refine ⟨by decide, by decide, ?_, ?_, ?_, by decide⟩
  · intro g hg; simp at hg; rcases hg with rfl | rfl <;> simp
  · intro g hg; simp at hg; rcases hg with rfl | rfl <;> simp
  · decide

/-! ### the clauses of C01 for the model of the real `Algebra` (any dimension, signature ordering, start
index, generator order, blade spelling): `c.admissible = true` is a decidable check, see the examples -/

open Cfg in
/-- **Twist theorem**: the stored sign is the canonical Clifford cocycle of the bit-ordered metric twisted by the
    orientations of the names of the three blades involved. -/
theorem stored_sign_is_twisted_cocycle (c : Cfg) (h : c.admissible = true) (I J : Nat)
    (hI : I < 2 ^ c.d) (hJ : J < 2 ^ c.d) :
    c.computeSign I J = c.epsK I * c.epsK J * c.epsK (I ^^^ J) * csign c.sigBits I J :=
  computeSign_twist c (adm_of_admissible c h) I J hI hJ

open Cfg in
/-- clause 1: each basis vector squares to its signature entry (looked up by the vector's *label*) -/
theorem basis_vector_squares_to_signature (c : Cfg) (h : c.admissible = true) (j : Nat) (hj : j < c.d) :
    c.computeSign (2 ^ j) (2 ^ j) = c.metric (c.vecs[j]!) :=
  gen_square c (adm_of_admissible c h) j hj

open Cfg in
/-- clause 2: distinct basis vectors anticommute and their product is a non-zero blade -/
theorem basis_vectors_anticommute (c : Cfg) (h : c.admissible = true) (j k : Nat)
    (hj : j < c.d) (hk : k < c.d) (hjk : j ≠ k) :
    c.computeSign (2 ^ j) (2 ^ k) = - c.computeSign (2 ^ k) (2 ^ j) ∧
    (c.computeSign (2 ^ j) (2 ^ k) = 1 ∨ c.computeSign (2 ^ j) (2 ^ k) = -1) :=
  gen_anticommute c (adm_of_admissible c h) j k hj hk hjk

open Cfg in
/-- clause 3: blade multiplication with the stored table is associative -/
theorem stored_table_associative (c : Cfg) (h : c.admissible = true) (I J L : Nat)
    (hI : I < 2 ^ c.d) (hJ : J < 2 ^ c.d) (hL : L < 2 ^ c.d) :
    c.computeSign I J * c.computeSign (I ^^^ J) L = c.computeSign J L * c.computeSign I (J ^^^ L) :=
  computeSign_cocycle c (adm_of_admissible c h) I J L hI hJ hL

open Cfg in
/-- clause 4: a blade named e_ij..k equals the ordered product e_i e_j .. e_k computed with the stored table -/
theorem named_blade_is_ordered_product (c : Cfg) (h : c.admissible = true) (K : Nat) (hK : K < 2 ^ c.d) :
    c.prodWord (c.nameOf K) = (1, K) :=
  named_blade_is_product c (adm_of_admissible c h) K hK

open Cfg in
/-- non-canonical spellings: the blade returned for a permuted spelling is the canonical blade times the
    parity of the reordering -/
theorem noncanonical_spelling_sign (c : Cfg) (h : c.admissible = true) (sp n : List Nat)
    (hn : n ∈ c.basis) (hp : sp.Perm n) :
    ∃ canon swaps, c.blade2canon sp = some (canon, swaps) ∧ canon ∈ c.basis ∧ canon.Perm sp ∧
      evalWord c.sigBits (c.wordOf sp) = SB.smul ((-1) ^ swaps) (evalWord c.sigBits (c.wordOf canon)) :=
  blade2canon_sound c (adm_of_admissible c h) sp n hn hp

/-- the Cayley table reported by the algebra is that same table (by construction of `Cfg.cayley`) -/
theorem cayley_is_table (c : Cfg) (nI nJ : List Nat) :
    c.cayley nI nJ =
      (if c.computeSign (c.binOf nI) (c.binOf nJ) = 0 then (0, [])
       else (c.computeSign (c.binOf nI) (c.binOf nJ), c.nameOf (c.binOf nI ^^^ c.binOf nJ))) := rfl

/-- non-vacuity: 3DPGA with kingdon's named basis, STAP's signature with a default basis, and a reordered
    3-D basis with spellings e31, e21 are admissible -/
def cfg3DPGA : Cfg := Cfg.custom [0, 1, 1, 1]
  [[], [1], [2], [3], [0], [0,1], [0,2], [0,3], [1,2], [3,1], [2,3], [0,3,2], [0,1,3], [0,2,1], [1,2,3], [0,1,2,3]]
example : cfg3DPGA.admissible = true := by decide
example : (Cfg.default [0, 1, 1, 1, -1] 0).admissible = true := by decide +kernel
example : (Cfg.custom [1, -1, 0] [[], [3], [1], [2], [3,1], [2,1], [2,3], [2,3,1]]).admissible = true := by decide

end Kingdon.C01

/-
  C15 — multivector construction and coefficient access round-trip.
  Statements about `Con.construct`, the branch-by-branch model of `MultiVector.__new__`, and `Con.getattr`.
-/
import Kingdon.Lemmas.ConstructLemmas
namespace Kingdon.C15
open Kingdon.Con
variable {V : Type}

/-- key/value sequences (integer keys inside the algebra, equal lengths) are stored verbatim: nothing dropped,
    reordered or negated -/
theorem key_value_form_exact [Neg V] (c : Cfg) (h : c.admissible = true) (mkSym : String → List Nat → V)
    (ks : List Nat) (vs : List V) (hk : ∀ k ∈ ks, k < 2 ^ c.d) (hne : ks ≠ []) (hl : ks.length = vs.length) :
    construct c false mkSym (kvForm ks vs) = .ok (ks, vs) :=
  construct_kv c (Cfg.adm_of_admissible c h) mkSym ks vs hk hne hl

/-- reading a blade through its canonical name returns the stored coefficient (0 when the blade is absent) -/
theorem getattr_canonical_exact [Neg V] [Zero V] (c : Cfg) (mv : List Nat × List V) (n : List Nat) (hn : n ∈ c.basis) :
    getattr c mv n = coeff mv (c.binOf n) := getattr_canonical c mv n hn

/-- reading through ANY spelling (permutation) of a blade: the coefficient of the canonical blade, negated iff the
    reported swap count is odd — for coefficient types with `-0 = 0` (every ring); `Cfg.blade2canon_sound` (C01)
    identifies that count with the parity relating the two ordered products.  The statement without `-0 = 0` is
    false (`getattr_spelling_false`: V = Bool with `-b = !b`), which no numeric coefficient type exhibits. -/
theorem getattr_any_spelling_partial [Neg V] [Zero V] (c : Cfg) (h : c.admissible = true) (mv : List Nat × List V)
    (sp n : List Nat) (hn : n ∈ c.basis) (hp : sp.Perm n) (hz : -(0 : V) = 0) :
    ∃ canon swaps, c.blade2canon sp = some (canon, swaps) ∧ canon ∈ c.basis ∧ canon.Perm sp ∧
      getattr c mv sp = (if swaps % 2 = 0 then coeff mv (c.binOf canon) else - coeff mv (c.binOf canon)) :=
  getattr_spelling_partial c (Cfg.adm_of_admissible c h) mv sp n hn hp hz

/-- the unrestricted statement fails only in the corner `-0 ≠ 0` (witness) -/
theorem not_getattr_any_spelling_unrestricted : ¬ getattr_spelling := getattr_spelling_false

/-- **keyword blades round-trip** (after fix c249a88): if every keyword is some spelling of a basis blade and no
    blade is named twice, construction succeeds, stores exactly those blades, and reading each one back with the
    spelling that was used returns exactly the supplied value — nothing dropped, nothing negated -/
theorem keyword_blades_roundtrip [InvolutiveNeg V] [Zero V] (c : Cfg) (h : c.admissible = true)
    (mkSym : String → List Nat → V) (items : List (List Nat × V)) (hne : items ≠ [])
    (hsp : ∀ it ∈ items, ∃ n ∈ c.basis, it.1.Perm n) (hdist : (items.map fun it => c.binOf it.1).Nodup) :
    ∃ mv, construct c false mkSym { values := .none, keys := none, name := none, grades := none, items := items } = .ok mv ∧
      (∀ it ∈ items, getattr c mv it.1 = it.2) ∧ (∀ k, k ∈ mv.1 ↔ ∃ it ∈ items, c.binOf it.1 = k) :=
  keyword_roundtrip c (Cfg.adm_of_admissible c h) mkSym items hne hsp hdist

/-- inconsistent input raises: a keyword naming a generator outside the algebra -/
theorem unknown_keyword_raises [Neg V] (c : Cfg) (h : c.admissible = true) (mkSym : String → List Nat → V)
    (items : List (List Nat × V)) (it : List Nat × V) (hit : it ∈ items) (l : Nat) (hl : l ∈ it.1) (hv : l ∉ c.vecs) :
    ∀ mv, construct c false mkSym { values := .none, keys := none, name := none, grades := none, items := items } ≠ .ok mv :=
  keyword_unknown_raises c (Cfg.adm_of_admissible c h) mkSym items it hit l hl hv

/-- inconsistent input raises: length mismatch between keys and values -/
theorem length_mismatch_raises' [Neg V] (c : Cfg) (graded : Bool) (mkSym : String → List Nat → V) (ks : List Nat)
    (vs : List V) (gs : Option (List Int)) (hne : ks ≠ []) (hl : ks.length ≠ vs.length) (hv : vs ≠ []) :
    ∀ mv, construct c graded mkSym { values := .list vs, keys := some (ks.map KeyIn.int), name := none, grades := gs, items := [] } ≠ .ok mv :=
  length_mismatch_raises c graded mkSym ks vs gs hne hl hv

/-- inconsistent input raises: keys outside the declared grades -/
theorem keys_outside_grades_raise' [Neg V] (c : Cfg) (h : c.admissible = true) (graded : Bool)
    (mkSym : String → List Nat → V) (ks : List Nat) (vs : List V) (gs : List Int) (k : Nat) (hk : k ∈ ks)
    (hg : (popcount k : Int) ∉ gs) :
    ∀ mv, construct c graded mkSym { values := .list vs, keys := some (ks.map KeyIn.int), name := none, grades := some gs, items := [] } ≠ .ok mv :=
  keys_outside_grades_raise c (Cfg.adm_of_admissible c h) graded mkSym ks vs gs k hk hg

/-- inconsistent input raises: invalid grades -/
theorem invalid_grades_raise' [Neg V] (c : Cfg) (graded : Bool) (mkSym : String → List Nat → V) (f : Form V)
    (gs : List Int) (hg : f.grades = some gs) (g : Int) (hmem : g ∈ gs) (hbad : g < 0 ∨ (c.d : Int) < g)
    (hit : f.items = [] ∨ f.keys.isSome ∨ (match f.values with | .none => false | _ => true)) :
    ∀ mv, construct c graded mkSym f ≠ .ok mv :=
  invalid_grades_raise c graded mkSym f gs hg g hmem hbad hit

/-- inconsistent input raises: incomplete grades in graded mode (key-sequence form; the Mapping form does not —
    known finding F16) -/
theorem graded_incomplete_raises_partial [Neg V] (c : Cfg) (mkSym : String → List Nat → V) (ks : List Nat) (vs : List V)
    (hne : ks ≠ []) (hinc : ∀ gs, c.indicesForGrades gs ≠ ks) :
    ∀ mv, construct c true mkSym (kvForm ks vs) ≠ .ok mv :=
  graded_incomplete_raises c mkSym ks vs hne hinc

/-- non-vacuity: in 3-D the keywords e231=5 (even permutation) and e1=1 meet the hypotheses of the round-trip -/
example : let c := Cfg.default [1, 1, 1] 1
    c.admissible = true ∧ (∀ it ∈ [([2, 3, 1], (5 : Int)), ([1], 1)], ∃ n ∈ c.basis, it.1.Perm n) ∧
    ([([2, 3, 1], (5 : Int)), ([1], 1)].map fun it => c.binOf it.1).Nodup := by
  refine ⟨by decide, ?_, by decide⟩
  intro it hit
  simp at hit
  rcases hit with rfl | rfl
  · exact ⟨[1, 2, 3], by decide, by decide⟩
  · exact ⟨[1], by decide, List.Perm.refl _⟩

end Kingdon.C15

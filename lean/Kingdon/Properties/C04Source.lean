/-
  C04 stated about the *translated source*: `codegen_add/sub/neg/involutions/reverse/involute/conjugate`.
-/
import Kingdon.Properties.C04
import Kingdon.Lemmas.SourceLinear
namespace Kingdon.C04
open Kingdon Kingdon.SrcEq Finsupp
variable {α : Type} [CommRing α]

/-- a + b and a - b in the source act blade-wise (first operand with pairwise distinct keys, as `MultiVector` has) -/
theorem source_add_sub_bladewise (c : Cfg) (x y : MV α) (hx : (SrcEq.keysOf x).Nodup) :
    ∃ r s : MV α, Src.codegen_add (algOf c) (castMV x) (castMV y) = .ok (castMV r) ∧
      Src.codegen_sub (algOf c) (castMV x) (castMV y) = .ok (castMV s) ∧
      den r = den x + den y ∧ den s = den x - den y :=
  ⟨add x y, sub x y, codegen_add_eq c x y hx, codegen_sub_eq c x y hx, add_bladewise x y, sub_bladewise x y⟩

/-- -a in the source -/
theorem source_neg_bladewise (c : Cfg) (x : MV α) (hx : (SrcEq.keysOf x).Nodup) :
    ∃ r : MV α, Src.codegen_neg (algOf c) (castMV x) = .ok (castMV r) ∧ den r = - den x :=
  ⟨neg x, codegen_neg_eq c x hx, neg_bladewise x⟩

/-- reverse, involute and conjugate in the source multiply each blade by the sign of its grade mod 4, with the grade
    sets the source passes -/
theorem source_involutions_bladewise (c : Cfg) (x : MV α) (hx : (SrcEq.keysOf x).Nodup) :
    ∃ r i k : MV α, Src.codegen_reverse (algOf c) (castMV x) = .ok (castMV r) ∧
      Src.codegen_involute (algOf c) (castMV x) = .ok (castMV i) ∧
      Src.codegen_conjugate (algOf c) (castMV x) = .ok (castMV k) ∧
      den r = lin (involSign [2, 3]) (den x) ∧ den i = lin (involSign [1, 3]) (den x) ∧
      den k = lin (involSign [1, 2]) (den x) :=
  ⟨reverse x, involute x, conjugate x, codegen_reverse_eq c x hx, codegen_involute_eq c x hx,
   codegen_conjugate_eq c x hx, involutions_bladewise _ x, involutions_bladewise _ x, involutions_bladewise _ x⟩

end Kingdon.C04

/-
  C18 stated about the *translated source*: `matrix_rep` and `ordering_matrix` of the current matrixreps.py, run on the model's
  matrix operations, produce the matrices the C18 theorems are about.
-/
import Kingdon.Properties.C18
import Kingdon.Lemmas.SourceMatrix
namespace Kingdon.C18
open Kingdon Kingdon.Mx Kingdon.SrcEq

/-- custom bases (the call `Algebra.matrix_basis` makes when `basis` is given): the python returns, without raising, one
    2^d x 2^d matrix per basis blade, entry by entry the model's `matrixBasis` -/
theorem source_matrix_rep_custom (c : Cfg) (h : c.admissible = true) :
    ∃ Rs, Src.matrix_rep modelMatOps (countOf c.signature 1) (countOf c.signature (-1)) (countOf c.signature 0)
        (some c.signature) (some (bladesArg c)) = .ok Rs ∧
      Rs.length = c.basis.length ∧
      ∀ k, k < Rs.length → (Rs[k]!).1 = 2 ^ c.d ∧
        ∀ i j, i < 2 ^ c.d → j < 2 ^ c.d → (Rs[k]!).2 i j = ((matrixBasis c)[k]!) i j := by
  have hlen : c.basis.length = 2 ^ c.d := by
    unfold Cfg.admissible at h
    simp only [Bool.and_eq_true, beq_iff_eq] at h
    exact h.1.1.1.1.2
  exact matrix_rep_blades_eq c (Cfg.adm_of_admissible c h) hlen

/-- default bases (no `blades` argument: ascending combinations of the generators, grade by grade) -/
theorem source_matrix_rep_default (sig : List Int) (start : Nat) (hs : ∀ s ∈ sig, s = 1 ∨ s = -1 ∨ s = 0)
    (hstart : start + sig.length ≤ 16) :
    ∃ Rs, Src.matrix_rep modelMatOps (countOf sig 1) (countOf sig (-1)) (countOf sig 0) (some sig) none = .ok Rs ∧
      Rs.length = 2 ^ sig.length ∧
      ∀ k, k < Rs.length → (Rs[k]!).1 = 2 ^ sig.length ∧
        ∀ i j, i < 2 ^ sig.length → j < 2 ^ sig.length →
          (Rs[k]!).2 i j = ((matrixBasis (Cfg.default sig start))[k]!) i j :=
  matrix_rep_default_eq sig start hs hstart

end Kingdon.C18

/-
  C17 — the built-in polynomial arithmetic is exact rational-function arithmetic.
  `KP.eval ρ p` is the value of the stored polynomial `p` in an arbitrary commutative ring under the valuation
  `ρ` of the variable names; `KP.RPoly.eval ρ r` the value of a stored rational polynomial in a field.
-/
import Kingdon.Lemmas.KPolySound
namespace Kingdon.C17
open Kingdon.KP

section ring
variable {α : Type} [CommRing α] (ρ : String → α)

/-- sums, differences, negations and products of `Polynomial` objects denote the sums, ... of the functions
    their operands denote — for ALL stored inputs (no well-formedness needed) -/
theorem polynomial_add_exact (p q : Poly) : eval ρ (add p q) = eval ρ p + eval ρ q := eval_add ρ p q
theorem polynomial_sub_exact (p q : Poly) : eval ρ (sub p q) = eval ρ p - eval ρ q := eval_sub ρ p q
theorem polynomial_neg_exact (p : Poly) : eval ρ (neg p) = - eval ρ p := eval_neg ρ p
theorem polynomial_mul_exact (p q : Poly) : eval ρ (mul p q) = eval ρ p * eval ρ q := eval_mul ρ p q

/-- integer powers through `power_supply` / `AdditionChains`: whenever `p ** n` returns, it denotes the n-th power -/
theorem polynomial_pow_exact (p q : Poly) (n : Nat) (h : pow p n = some q) : eval ρ q = eval ρ p ^ n :=
  eval_pow ρ p q n h

/-- `==` never equates objects denoting different functions; `== 0`, `== 1` and falsiness are sound -/
theorem polynomial_eq_sound (p q : Poly) (h : eq p q = true) : eval ρ p = eval ρ q := eq_sound ρ p q h
theorem polynomial_eq_zero_sound (p : Poly) (h : eqZero p = true) : eval ρ p = 0 := eqZero_sound ρ p h
theorem polynomial_eq_one_sound (p : Poly) (h : eqOne p = true) : eval ρ p = 1 := eqOne_sound ρ p h
theorem polynomial_falsy_sound (p : Poly) (h : toBool p = false) : eval ρ p = 0 := toBool_false_sound ρ p h
end ring

/-- the public constructors produce normal forms and the operators preserve them (strictly increasing monomials,
    sorted variables, no zero coefficient) ... -/
theorem normal_form_preserved (p q : Poly) (hp : WF p) (hq : WF q) :
    WF (add p q) ∧ WF (mul p q) ∧ WF (neg p) ∧ WF (sub p q) :=
  ⟨wf_add p q hp hq, wf_mul p q hp hq, wf_neg p hp, wf_add p (neg q) hp (wf_neg q hq)⟩

theorem constructors_normal (s : String) (c : Int) (hc : c ≠ 0) : WF (ofName s) ∧ WF (ofInt c) ∧ WF [] :=
  ⟨wf_ofName s, wf_ofInt c hc, wf_nil⟩

/-- ... and on normal forms comparison with 0 and truthiness are EXACT zero tests: they hold exactly for the
    polynomial without terms -/
theorem zero_tests_exact (p : Poly) (h : WF p) : (eqZero p = true ↔ p = []) ∧ (toBool p = false ↔ p = []) :=
  ⟨wf_eqZero_iff p h, wf_toBool_iff p h⟩

section field
variable {K : Type} [Field K] (ρ : String → K)

/-- sums, differences, products, quotients, negations and inverses of `RationalPolynomial` objects denote the
    corresponding rational functions wherever the denominators do not vanish (every shortcut branch included) -/
theorem rational_add_exact (r s : RPoly) (hr : KP.eval ρ r.denom ≠ 0) (hs : KP.eval ρ s.denom ≠ 0) :
    RPoly.eval ρ (RPoly.add r s) = RPoly.eval ρ r + RPoly.eval ρ s ∧ KP.eval ρ (RPoly.add r s).denom ≠ 0 :=
  ⟨RPoly.eval_add ρ r s hr hs, RPoly.add_denom_ne_zero ρ r s hr hs⟩
theorem rational_sub_exact (r s : RPoly) (hr : KP.eval ρ r.denom ≠ 0) (hs : KP.eval ρ s.denom ≠ 0) :
    RPoly.eval ρ (RPoly.sub r s) = RPoly.eval ρ r - RPoly.eval ρ s := RPoly.eval_sub ρ r s hr hs
theorem rational_mul_exact (r s : RPoly) (hr : KP.eval ρ r.denom ≠ 0) (hs : KP.eval ρ s.denom ≠ 0) :
    RPoly.eval ρ (RPoly.mul r s) = RPoly.eval ρ r * RPoly.eval ρ s ∧ KP.eval ρ (RPoly.mul r s).denom ≠ 0 :=
  ⟨RPoly.eval_mul ρ r s hr hs, RPoly.mul_denom_ne_zero ρ r s hr hs⟩
theorem rational_neg_exact (r : RPoly) : RPoly.eval ρ (RPoly.neg r) = - RPoly.eval ρ r := RPoly.eval_neg ρ r
theorem rational_inv_exact (r s : RPoly) (h : RPoly.inv r = some s) : RPoly.eval ρ s = (RPoly.eval ρ r)⁻¹ :=
  RPoly.eval_inv ρ r s h
theorem rational_div_exact (r s : RPoly) (hr : KP.eval ρ r.denom ≠ 0) (hs : KP.eval ρ s.denom ≠ 0)
    (hn : KP.eval ρ s.numer ≠ 0) : RPoly.eval ρ (RPoly.div r s) = RPoly.eval ρ r / RPoly.eval ρ s :=
  RPoly.eval_div ρ r s hr hs hn
theorem rational_eq_sound (r s : RPoly) (h : RPoly.eq r s = true) : RPoly.eval ρ r = RPoly.eval ρ s :=
  RPoly.eq_sound ρ r s h
/-- simplification during code generation drops a coefficient only if it denotes zero -/
theorem rational_falsy_sound (r : RPoly) (h : RPoly.toBool r = false) : RPoly.eval ρ r = 0 :=
  RPoly.toBool_false_sound ρ r h
end field

/-- non-vacuity: (a + b) * b - a built from the public constructors is a normal form, so its zero tests are exact -/
example : WF (sub (mul (add (ofName "a") (ofName "b")) (ofName "b")) (ofName "a")) :=
  wf_add _ _ (wf_mul _ _ (wf_add _ _ (wf_ofName _) (wf_ofName _)) (wf_ofName _)) (wf_neg _ (wf_ofName _))

end Kingdon.C17

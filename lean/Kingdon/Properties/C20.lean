/-
  C20 — the graph widget payload reflects the multivectors it is given.
  `canon` is the list of blade keys in canonical order (`canon2bin.values()`), `key2idx` its position map.
-/
import Kingdon.Lemmas.GraphLemmas
namespace Kingdon.C20
open Kingdon.Graph
variable {V : Type}

/-- **decode ∘ encode**: for every subject tree — lists, tuples, zero-argument callables, array-valued
    multivectors expanded element by element, any nesting depth, any storage layout (sparse, permuted, dense
    canonical or dense binary) — the payload decoded the way the front end decodes it (placement by key through
    key2idx, or canonical order when no keys are sent) contains exactly the coefficient vectors of the reachable
    multivectors, in order. -/
theorem payload_reflects_multivectors [Zero V] (canon : List Nat) (hc : canon.Nodup) (pre : List (Subj V))
    (h : WFList canon pre) :
    decLeavesList (decodeList canon (subjects canon pre)) = leavesList canon pre :=
  subjects_reflect_multivectors canon hc pre h

theorem decode_encode_subject [Zero V] (canon : List Nat) (hc : canon.Nodup) (t : Subj V) (h : WF canon t) :
    decLeavesList (decodeList canon (enc canon t)) = leaves canon t :=
  decode_encode canon hc t h

/-- placement by key yields the true coefficient vector; omitting the keys is correct for the canonical full layout -/
theorem placement_by_key_exact [Zero V] (canon keys : List Nat) (vals : List V) (hc : canon.Nodup)
    (h : WFmv canon keys vals) : toElement canon vals (some keys) = dense canon keys vals :=
  toElement_keys canon keys vals hc h
theorem canonical_layout_exact [Zero V] (canon : List Nat) (vals : List V) (hc : canon.Nodup)
    (hl : canon.length = vals.length) : toElement canon vals none = dense canon canon vals :=
  toElement_nokeys canon vals hc hl

/-- the key-to-index map is a bijection between the blades and their canonical positions -/
theorem key2idx_bijective (canon : List Nat) (a b : Nat) (ha : a ∈ canon) (hb : b ∈ canon) :
    key2idx canon a < canon.length ∧ canon[key2idx canon a]? = some a ∧
    (key2idx canon a = key2idx canon b → a = b) :=
  ⟨key2idx_lt canon a ha, key2idx_getElem canon a ha, key2idx_inj canon a b ha hb⟩

/-- when the front end reports moved points, exactly the stored coefficients of the addressed multivector are
    overwritten with the reported ones ... -/
theorem drag_overwrites_exactly [Zero V] [Inhabited V] (canon keys : List Nat) (old new : List V) (hc : canon.Nodup)
    (h : WFmv canon keys old) (hn : new.length = canon.length) (k : Nat) (hk : k ∈ keys) :
    (dense canon keys (dragOne canon keys old new))[key2idx canon k]? = new[key2idx canon k]? :=
  drag_exact canon keys old new hc h hn k hk

/-- ... the blades a subject stores never change and subjects that are not addressed are untouched, for every
    sequence of drag updates -/
theorem drag_sequence_local [Inhabited V] (canon : List Nat) (subs : List (List Nat × List V))
    (updates : List (Nat × List V)) :
    (dragAll canon subs updates).map (·.1) = subs.map (·.1) ∧
    ∀ j, (∀ u ∈ updates, u.1 ≠ j) → (dragAll canon subs updates)[j]? = subs[j]? :=
  ⟨drag_keys_fixed canon subs updates, fun j hj => drag_others_untouched canon subs updates j hj⟩

/-- non-vacuity: a nested tree with a dense multivector in *binary* key order (2D PGA), a callable and a tuple -/
example : WFList [0, 1, 2, 4, 3, 5, 6, 7]
    [Subj.seq false [.mv [0, 1, 2, 3, 4, 5, 6, 7] [1, 2, 3, 4, 5, 6, 7, (8 : Int)], .thunk (.mv [4, 1] [7, 8])],
     .atom "A", .seq true [.mvArr [3, 5] [[1, 2], [3, 4]]]] := by
  simp [WFList, WF, WFmv]

end Kingdon.C20

/-
  C01 stated about the *translated source* (Kingdon/Generated/Source.lean, regenerated from /repo on every run):
  what `Algebra._prepare_signs._compute_sign` / `_swap_blades` of the current algebra.py return.
-/
import Kingdon.Properties.C01
import Kingdon.Lemmas.SourceSigns
import Kingdon.Lemmas.SourceBlades
import Kingdon.Lemmas.SourceNames
import Kingdon.Lemmas.SourceTables
namespace Kingdon.C01
open Kingdon Kingdon.SrcEq

theorem labels_lt_16 (c : Cfg) (h : c.admissible = true) : ∀ v ∈ c.vecs, v < 16 := by
  unfold Cfg.admissible at h
  simp only [Bool.and_eq_true, List.all_eq_true, decide_eq_true_eq] at h
  intro v hv
  exact (h.1.1.1.1.1.2 v hv).2

/-- the python `_compute_sign` of the current source returns, for every pair of blades of every admissible algebra
    (any dimension, signature order, start index, custom basis), the model's sign — and never raises -/
theorem source_compute_sign_is_model (c : Cfg) (h : c.admissible = true) (I J : Nat)
    (hI : I < 2 ^ c.d) (hJ : J < 2 ^ c.d) :
    Src.compute_sign (algOf c) (Int.ofNat I, Int.ofNat J) none = .ok (c.computeSign I J) :=
  compute_sign_eq c (Cfg.adm_of_admissible c h) (labels_lt_16 c h) rfl I J hI hJ

/-- **C01 about the source**: the sign the python computes is the twisted Clifford cocycle -/
theorem source_sign_is_twisted_cocycle (c : Cfg) (h : c.admissible = true) (I J : Nat)
    (hI : I < 2 ^ c.d) (hJ : J < 2 ^ c.d) :
    Src.compute_sign (algOf c) (Int.ofNat I, Int.ofNat J) none =
      .ok (c.epsK I * c.epsK J * c.epsK (I ^^^ J) * csign c.sigBits I J) := by
  rw [source_compute_sign_is_model c h I J hI hJ, stored_sign_is_twisted_cocycle c h I J hI hJ]

/-- the same through the call `_prepare_signs` makes for `d ≤ 6` (names passed explicitly) -/
theorem source_table_entry_is_twisted_cocycle (c : Cfg) (h : c.admissible = true) (I J : Nat)
    (hI : I < 2 ^ c.d) (hJ : J < 2 ^ c.d) :
    Src.compute_sign (algOf c) (Int.ofNat I, Int.ofNat J) (some (pyName (c.nameOf I), pyName (c.nameOf J))) =
      .ok (c.epsK I * c.epsK J * c.epsK (I ^^^ J) * csign c.sigBits I J) := by
  rw [compute_sign_eq_pair c (Cfg.adm_of_admissible c h) (labels_lt_16 c h) rfl I J hI hJ,
    stored_sign_is_twisted_cocycle c h I J hI hJ]

/-- basis vectors square to their signature entry, in the source -/
theorem source_basis_vector_squares (c : Cfg) (h : c.admissible = true) (j : Nat) (hj : j < c.d) :
    Src.compute_sign (algOf c) (Int.ofNat (2 ^ j), Int.ofNat (2 ^ j)) none = .ok (c.metric (c.vecs[j]!)) := by
  rw [source_compute_sign_is_model c h _ _ (Cfg.two_pow_lt c j hj) (Cfg.two_pow_lt c j hj),
    basis_vector_squares_to_signature c h j hj]

/-- `_swap_blades` of the source raises exactly when a target letter is missing, and otherwise is the model's -/
theorem source_swap_blades_total (b1 b2 t : List Nat) (hnd : t.Nodup) :
    (∀ c ∈ t, c ∈ (phase1 b1 b2 0 []).1) →
    Src.swap_blades b1 b2 t =
      .ok (Int.ofNat (swapBlades b1 b2 t).1, (swapBlades b1 b2 t).2.1, (swapBlades b1 b2 t).2.2) :=
  swap_blades_eq b1 b2 t hnd

/-- **non-canonical spellings, in the source**: for a permuted spelling of a blade name the python `_blade2canon` returns
    the canonical name and a swap count whose parity is the orientation of the spelling relative to that name (labels are single
    hex digits, which `admissible` checks; the labels 14 = `e` and 15 = `f` are included since fix of `_blade2canon` that strips the
    prefix `e` before `_swap_blades`) -/
theorem source_noncanonical_spelling_sign (c : Cfg) (h : c.admissible = true)
    (sp n : List Nat) (hn : n ∈ c.basis) (hp : sp.Perm n) :
    ∃ canon swaps, Src.blade2canon (algOf c) (pyName sp) = .ok (pyName canon, Int.ofNat swaps) ∧
      canon ∈ c.basis ∧ canon.Perm sp ∧
      evalWord c.sigBits (c.wordOf sp) = SB.smul ((-1) ^ swaps) (evalWord c.sigBits (c.wordOf canon)) := by
  obtain ⟨canon, swaps, h1, h2, h3, h4⟩ := blade2canon_perm c (Cfg.adm_of_admissible c h) (labels_lt_16 c h) sp n hn hp
  obtain ⟨canon', swaps', g1, g2, g3, g4⟩ := noncanonical_spelling_sign c h sp n hn hp
  rw [h2] at g1
  cases g1
  exact ⟨canon, swaps, h1, g2, g3, g4⟩

/-- spellings (over single hex digits) with a letter that is no generator of the algebra: the python returns the spelling itself (which is no key of
    `canon2bin`: callers then read 0 / raise KeyError) with 0 swaps, and never raises.  Before fix 77ca12f it returned the made-up
    name `'e' + str(2**d)`, which IS a blade name e.g. for `start_index = 2**d` or in `Algebra(8)` (`e256`). -/
theorem source_foreign_spelling (c : Cfg) (h : c.admissible = true)
    (sp : List Nat) (hsp : ∀ l ∈ sp, l < 16) (hnone : c.blade2canon sp = none) :
    Src.blade2canon (algOf c) (pyName sp) = .ok (pyName sp, 0) := by
  rw [blade2canon_eq c (Cfg.adm_of_admissible c h) (labels_lt_16 c h) sp hsp, hnone]

/-- **the configuration itself, from the source**: the naming statement of `Algebra.__post_init__` builds, for a default
    basis, exactly the blade names of the model configuration in exactly its canonical order, and maps every bitmask to
    its name (labels are single hex digits: start + d ≤ 16) -/
theorem source_default_configuration (sig : List Int) (start : Nat) (hstart : start + sig.length ≤ 16) :
    ∃ b2c, Src.post_init_names [] (Int.ofNat sig.length) (Int.ofNat start) =
        .ok (Int.ofNat start, (Cfg.default sig start).basis.map (fun n => (pyName n, Int.ofNat ((Cfg.default sig start).binOf n))), b2c) ∧
      ∀ I, I < 2 ^ sig.length →
        Py.dictGet? b2c (Int.ofNat I) = some (pyName ((Cfg.default sig start).nameOf I)) :=
  post_init_default_eq sig start hstart

/-- ... and for an admissible custom basis (generator labels are single hex digits, `0`..`f`): the asserts pass, the start index is the smallest
    label, bitmasks follow the position of the generators in the basis, the canonical order is the given order -/
theorem source_custom_configuration (sig : List Int) (basis : List (List Nat)) (start0 : Int)
    (h : (Cfg.custom sig basis).admissible = true) (hne : basis ≠ []) :
    ∃ b2c, Src.post_init_names (basis.map pyName) (Int.ofNat sig.length) start0 =
        .ok (if (Cfg.custom sig basis).vecs = [] then start0 else Int.ofNat (Cfg.custom sig basis).start,
             basis.map (fun n => (pyName n, Int.ofNat ((Cfg.custom sig basis).binOf n))), b2c) ∧
      ∀ I, I < 2 ^ sig.length →
        Py.dictGet? b2c (Int.ofNat I) = some (pyName ((Cfg.custom sig basis).nameOf I)) :=
  post_init_custom_eq sig basis start0 h hne

/-- a basis that is not ordered by grade is rejected by the source -/
theorem source_rejects_unsorted_basis (basis : List (List Nat)) (d : Nat) (start0 : Int)
    (hne : basis ≠ []) (hlen : basis.length = 2 ^ d) (huns : ¬ (basis.map List.length).Pairwise (· ≤ ·)) :
    Src.post_init_names (basis.map pyName) (Int.ofNat d) start0 = .error "AssertionError" :=
  post_init_rejects_unsorted basis d start0 hne hlen huns

/-- **the stored sign table, from the source**: the eager branch of `_prepare_signs` (d ≤ 6) fills the table with the model's
    sign for every pair of blades; for d > 6 the lazily filled `DefaultKeyDict` calls the same `_compute_sign` on demand -/
theorem source_sign_table_is_model (c : Cfg) (h : c.admissible = true) :
    ∃ tbl, Src.prepare_signs (algOf c) = .ok tbl ∧
      ∀ I J, I < 2 ^ c.d → J < 2 ^ c.d → Py.dictGet? tbl (Int.ofNat I, Int.ofNat J) = some (c.computeSign I J) :=
  prepare_signs_eq c h

/-- **the Cayley table, from the source**: every entry is `'0'`, the name of the product blade, or that name with a minus sign,
    according to the model's table -/
theorem source_cayley_is_model (c : Cfg) (h : c.admissible = true) :
    ∃ tbl, Src.cayley (algOf c) = .ok tbl ∧
      ∀ nI ∈ c.basis, ∀ nJ ∈ c.basis, Py.dictGet? tbl (pyName nI, pyName nJ) = some (cayleyStr (c.cayley nI nJ)) :=
  cayley_eq c h

/-- the grade tables of the source (`indices_for_grade`, `indices_for_grades`) are the ones `algOf` assumes -/
theorem source_grade_tables (c : Cfg) (h : c.admissible = true) :
    (∃ tbl, Src.indices_for_grade (algOf c) = .ok tbl ∧
      ∀ g, g ≤ c.d → Py.dictGet? tbl (Int.ofNat g) = some ((c.indicesForGrade g).map Int.ofNat)) ∧
    (∃ tbl, Src.indices_for_grades_table (algOf c) = .ok tbl ∧
      ∀ gs : List Int, Py.dictGet tbl gs = (algOf c).indices_for_grades gs) :=
  ⟨indices_for_grade_eq c h, indices_for_grades_table_eq c h⟩

/-- non-vacuity: on 3DPGA with kingdon's named basis the translated python computes e31 * e0 -/
example : Src.compute_sign (algOf (Cfg.custom [0, 1, 1, 1]
    [[], [0], [1], [2], [3], [0, 1], [0, 2], [0, 3], [1, 2], [3, 1], [2, 3], [0, 2, 1], [0, 1, 3], [0, 3, 2], [1, 2, 3], [0, 1, 2, 3]]))
    (10, 1) none = .ok (-1) := by decide +kernel

/-- non-vacuity for labels that are spelled with the letters `e`, `f`: the configuration with start index 13 (generators `ed`, `ee`,
    `ef`) is admissible, and the spelling `edfe` of the pseudoscalar resolves to the canonical name `edef` with ONE swap, `eed` to
    `ede` with one swap (before the fix of `_blade2canon` the prefix `e` took part in `_swap_blades` and was confused with the label
    14 = `e`) -/
example : (Cfg.default [1, 1, 1] 13).admissible = true ∧
    Src.blade2canon (algOf (Cfg.default [1, 1, 1] 13)) (pyName [13, 15, 14]) = .ok (pyName [13, 14, 15], 1) ∧
    Src.blade2canon (algOf (Cfg.default [1, 1, 1] 13)) "eed".toList = .ok ("ede".toList, 1) := by decide +kernel

/-- non-vacuity of `source_custom_configuration` for labels beyond `9` (formerly excluded: `int(min(vecs))` raised on `'d'`; now
    `int(min(vecs), base=16)`): the custom basis `e, ed, ee, ede` over the signature `[-1, 0]` is admissible, none of the asserts
    fires, the start index becomes 13 (the given `start_index = 1` is overwritten), and `canon2bin` / `bin2canon` follow the
    given order -/
example : (Cfg.custom [-1, 0] [[], [13], [14], [13, 14]]).admissible = true ∧
    Src.post_init_names ([[], [13], [14], [13, 14]].map pyName) 2 1 =
      .ok (13, [("e".toList, 0), ("ed".toList, 1), ("ee".toList, 2), ("ede".toList, 3)],
               [(0, "e".toList), (1, "ed".toList), (2, "ee".toList), (3, "ede".toList)]) := by decide +kernel

end Kingdon.C01

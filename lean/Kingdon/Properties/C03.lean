/-
  C03 — outer, inner, contraction, scalar and (anti)commutator products match their definitions.
-/
import Kingdon.Lemmas.GpDen
import Kingdon.Lemmas.Bits
import Kingdon.Lemmas.Reverse
import Kingdon.Lemmas.Products
import Kingdon.Lemmas.CfgAlgebra
import Kingdon.Lemmas.GradedSums
namespace Kingdon.C03

/-- filter of `codegen_op`: `k_out == kx + ky` holds exactly for disjoint blades -/
theorem op_filter_exact (a b : Nat) : a ^^^ b = a + b ↔ a &&& b = 0 := xor_eq_add_iff a b

/-- filter of `codegen_ip/lc/rc`: `k_out == kx - ky` holds exactly when `ky ⊆ kx` -/
theorem contraction_filter_exact (a b : Nat) (h : b ≤ a) : a ^^^ b = a - b ↔ a &&& b = b :=
  xor_eq_sub_iff a b h

/-- exchanging the factors of a blade product costs `(-1)^(|I||J| - |I∩J|)` for every signature:
    the fact behind the `signs[kx,ky] ∓ signs[ky,kx]` filters of `codegen_cp/acp` -/
theorem blade_swap_sign (sig : List Int) (I J : Nat) :
    csign sig J I =
      sgn ((parity sig.length I && parity sig.length J) != parity sig.length (I &&& J)) * csign sig I J :=
  csign_swap sig I J


/-- grade of a blade product: |I xor J| = |I| + |J| - 2 |I and J| -/
theorem grade_of_product (a b : Nat) :
    popcount (a ^^^ b) + 2 * popcount (a &&& b) = popcount a + popcount b := popcount_xor_add a b

/-- the filter of `codegen_op` selects exactly the pairs whose product has grade r+s -/
theorem op_filter_selects_grade (kx ky : Nat) :
    ((kx ^^^ ky) == kx + ky) = true ↔ popcount (kx ^^^ ky) = popcount kx + popcount ky := op_filter_iff kx ky

open Finsupp
variable {α : Type} [CommRing α] (c : Cfg) (hr : TableRange c.computeSign)
include hr

/-- a ^ b = sum over r, s of the grade r+s part of <a>_r <b>_s, for all operands and storage patterns -/
theorem op_refines (x y : MV α) :
    den (op c x y) = bilin (gradedTable c.computeSign fun r s g => g == r + s) (· ^^^ ·) (den x) (den y) :=
  op_den c hr x y
/-- a | b: grade |r-s| parts -/
theorem ip_refines (x y : MV α) :
    den (ip c x y) = bilin (gradedTable c.computeSign fun r s g => g + r == s || g + s == r) (· ^^^ ·) (den x) (den y) :=
  ip_den c hr x y
/-- a.lc(b): grade s-r parts -/
theorem lc_refines (x y : MV α) :
    den (lc c x y) = bilin (gradedTable c.computeSign fun r s g => g + r == s) (· ^^^ ·) (den x) (den y) :=
  lc_den c hr x y
/-- a.rc(b): grade r-s parts -/
theorem rc_refines (x y : MV α) :
    den (rc c x y) = bilin (gradedTable c.computeSign fun r s g => g + s == r) (· ^^^ ·) (den x) (den y) :=
  rc_den c hr x y
/-- a.sp(b): grade 0 part -/
theorem sp_refines (x y : MV α) :
    den (sp c x y) = bilin (gradedTable c.computeSign fun _ _ g => g == 0) (· ^^^ ·) (den x) (den y) :=
  sp_den c hr x y
/-- ip + sp = lc + rc -/
theorem ip_add_sp_eq_lc_add_rc (x y : MV α) :
    den (ip c x y) + den (sp c x y) = den (lc c x y) + den (rc c x y) := ip_add_sp c hr x y
/-- 2 a.cp(b) = ab - ba -/
theorem two_cp (hs : TableSymm c.computeSign) (x y : MV α) :
    den (cp c x y) + den (cp c x y) = clMulS c.computeSign (den x) (den y) - clMulS c.computeSign (den y) (den x) :=
  two_cp_den c hr hs x y
/-- 2 a.acp(b) = ab + ba -/
theorem two_acp (hs : TableSymm c.computeSign) (x y : MV α) :
    den (acp c x y) + den (acp c x y) = clMulS c.computeSign (den x) (den y) + clMulS c.computeSign (den y) (den x) :=
  two_acp_den c hr hs x y
/-- cp + acp = gp -/
theorem cp_add_acp_eq_gp (hs : TableSymm c.computeSign) (x y : MV α) :
    den (cp c x y) + den (acp c x y) = den (gp c x y) := cp_add_acp c hr hs x y

omit hr in
/-- for every admissible configuration the table is symmetric up to sign and has values in {1,-1,0}: the
    hypotheses of the theorems above are met by every algebra kingdon can construct -/
theorem table_hypotheses_hold (h : c.admissible = true) : TableRange c.computeSign ∧ TableSymm c.computeSign :=
  ⟨Cfg.tableRange_of_adm c (Cfg.adm_of_admissible c h), Cfg.tableSymm_of_adm c (Cfg.adm_of_admissible c h)⟩

/-! the same in the wording of the property: sums over r, s of grade parts of products of grade parts (D bounds the
grades that occur, e.g. the dimension) -/
section wording
open BigOperators
variable {α : Type} [CommRing α]

/-- a ^ b is the sum over r, s of the grade r+s part of <a>_r <b>_s -/
theorem outer_product_is_sum_of_grade_parts (s : Nat → Nat → Int) (D : Nat) (X Y : ℕ →₀ α)
    (hX : GradeBound D X) (hY : GradeBound D Y) :
    bilin (gradedTable s fun r t g => g == r + t) (· ^^^ ·) X Y =
      ∑ r ∈ Finset.range (D + 1), ∑ t ∈ Finset.range (D + 1), gradeProj (r + t) (clMulS s (gradeProj r X) (gradeProj t Y)) :=
  op_is_sum_of_grade_parts s D X Y hX hY

/-- a | b: grade |r-s| parts -/
theorem inner_product_is_sum_of_grade_parts (s : Nat → Nat → Int) (D : Nat) (X Y : ℕ →₀ α)
    (hX : GradeBound D X) (hY : GradeBound D Y) :
    bilin (gradedTable s fun r t g => g + r == t || g + t == r) (· ^^^ ·) X Y =
      ∑ r ∈ Finset.range (D + 1), ∑ t ∈ Finset.range (D + 1),
        gradeProj (if r ≤ t then t - r else r - t) (clMulS s (gradeProj r X) (gradeProj t Y)) :=
  ip_is_sum_of_grade_parts s D X Y hX hY

/-- a.lc(b): grade s-r parts (nothing for s < r) -/
theorem left_contraction_is_sum_of_grade_parts (s : Nat → Nat → Int) (D : Nat) (X Y : ℕ →₀ α)
    (hX : GradeBound D X) (hY : GradeBound D Y) :
    bilin (gradedTable s fun r t g => g + r == t) (· ^^^ ·) X Y =
      ∑ r ∈ Finset.range (D + 1), ∑ t ∈ Finset.range (D + 1),
        (if r ≤ t then gradeProj (t - r) (clMulS s (gradeProj r X) (gradeProj t Y)) else 0) :=
  lc_is_sum_of_grade_parts s D X Y hX hY

/-- a.rc(b): grade r-s parts -/
theorem right_contraction_is_sum_of_grade_parts (s : Nat → Nat → Int) (D : Nat) (X Y : ℕ →₀ α)
    (hX : GradeBound D X) (hY : GradeBound D Y) :
    bilin (gradedTable s fun r t g => g + t == r) (· ^^^ ·) X Y =
      ∑ r ∈ Finset.range (D + 1), ∑ t ∈ Finset.range (D + 1),
        (if t ≤ r then gradeProj (r - t) (clMulS s (gradeProj r X) (gradeProj t Y)) else 0) :=
  rc_is_sum_of_grade_parts s D X Y hX hY

/-- a.sp(b): grade 0 parts -/
theorem scalar_product_is_sum_of_grade_parts (s : Nat → Nat → Int) (D : Nat) (X Y : ℕ →₀ α)
    (hX : GradeBound D X) (hY : GradeBound D Y) :
    bilin (gradedTable s fun _ _ g => g == 0) (· ^^^ ·) X Y =
      ∑ r ∈ Finset.range (D + 1), ∑ t ∈ Finset.range (D + 1), gradeProj 0 (clMulS s (gradeProj r X) (gradeProj t Y)) :=
  sp_is_sum_of_grade_parts s D X Y hX hY
end wording

end Kingdon.C03

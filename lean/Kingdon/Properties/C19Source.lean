/-
  C19 (outer series) at the level of the source text: `codegen_outerexp`, `codegen_outersin`, `codegen_outercos` as translated
  from kingdon/codegen.py on every run, instantiated with the model's operators over any field of characteristic zero
  (`outerOps`: the model's `^` followed by the symbolic zero filter of `OperatorDict.__call__`, and the coefficient-wise
  division `v / j`).  The python `while j <= k` loop terminates within `d` iterations; what the generators return denotes
  the finite sums  Σ_{j ≤ d} x^{∧j} / j!  over all, the odd and the even j.
-/
import Kingdon.Lemmas.SourceOuter
import Mathlib.Algebra.Order.Field.Rat
namespace Kingdon.C19
open Kingdon SrcEq Finsupp
variable {α : Type} [Field α] [CharZero α]

/-- the list of terms the source builds: it exists (the loop ends), entry j is `x^{∧j} / j!`, and every wedge power that the
    loop did not reach (it stops at the first power without a non-zero coefficient) vanishes -/
theorem source_outer_terms (c : Cfg) (h : c.admissible = true) (isZero : α → Bool) (hz : ∀ v, isZero v = true → v = 0) (x : MV α) :
    ∃ Ws : List (MV α), Src.outerexp_terms (algOf c) (outerOps c isZero) (castMV x) = .ok (Ws.map castMV) ∧
      (∀ j (hj : j < Ws.length), den Ws[j] = ((j.factorial : α))⁻¹ • wpow c (den x) j) ∧
      (∀ j, Ws.length ≤ j → j ≤ c.d → wpow c (den x) j = 0) := by
  obtain ⟨Ws, hW, _⟩ := outerexp_terms_spec c h isZero hz x
  exact ⟨Ws, hW, outerexp_terms_den c h isZero hz x Ws hW⟩

/-- **outerexp(x) = Σ_{j ≤ d} x^{∧j} / j!** -/
theorem source_outerexp_is_finite_sum (c : Cfg) (h : c.admissible = true) (hd : 1 ≤ c.d) (isZero : α → Bool)
    (hz : ∀ v, isZero v = true → v = 0) (x : MV α) :
    ∃ r : MV α, Src.codegen_outerexp (algOf c) (outerOps c isZero) (castMV x) = .ok (castMV r) ∧
      den r = ∑ j ∈ Finset.range (c.d + 1), ((j.factorial : α))⁻¹ • wpow c (den x) j :=
  codegen_outerexp_den c h hd isZero hz x
/-- **outersin / outercos are its odd / even parts** -/
theorem source_outersin_is_odd_part (c : Cfg) (h : c.admissible = true) (hd : 1 ≤ c.d) (isZero : α → Bool)
    (hz : ∀ v, isZero v = true → v = 0) (x : MV α) :
    ∃ r : MV α, Src.codegen_outersin (algOf c) (outerOps c isZero) (castMV x) = .ok (castMV r) ∧
      den r = ∑ j ∈ (Finset.range (c.d + 1)).filter (fun j => j % 2 = 1), ((j.factorial : α))⁻¹ • wpow c (den x) j :=
  codegen_outersin_den c h hd isZero hz x
theorem source_outercos_is_even_part (c : Cfg) (h : c.admissible = true) (hd : 1 ≤ c.d) (isZero : α → Bool)
    (hz : ∀ v, isZero v = true → v = 0) (x : MV α) :
    ∃ r : MV α, Src.codegen_outercos (algOf c) (outerOps c isZero) (castMV x) = .ok (castMV r) ∧
      den r = ∑ j ∈ (Finset.range (c.d + 1)).filter (fun j => j % 2 = 0), ((j.factorial : α))⁻¹ • wpow c (den x) j :=
  codegen_outercos_den c h hd isZero hz x

/-- non-vacuity: in R(3) over ℚ with the exact zero test the hypotheses hold ... -/
example : (Cfg.default [1, 1, 1] 1).admissible = true ∧ 1 ≤ (Cfg.default [1, 1, 1] 1).d ∧ ∀ v : ℚ, (v == 0) = true → v = 0 :=
  ⟨by decide +kernel, by decide, fun v h => by simpa using h⟩
/-- ... and the translated generator runs (kernel evaluation): outerexp(2 e1 + 3 e12 + 5 e3) = 1 + x + 15 e123 -/
example : (Src.codegen_outerexp (algOf (Cfg.default [1, 1, 1] 1)) (outerOps (Cfg.default [1, 1, 1] 1) (fun v : ℚ => v == 0))
    (castMV [(1, (2 : ℚ)), (3, 3), (4, 5)])).toOption = some [(0, 1), (1, 2), (3, 3), (4, 5), (7, 15)] := by decide +kernel

end Kingdon.C19

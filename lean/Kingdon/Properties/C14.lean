/-
  C14 — custom bases and start indices are a pure relabelling.
-/
import Kingdon.Lemmas.CfgAlgebra
import Kingdon.Generated.Tables
namespace Kingdon.C14
open Finsupp
variable {α : Type} [CommRing α]

/-- The map sending each named blade to the ordered product of its generators, `e_K ↦ ε_K • e_K`, is a ring
    homomorphism from the algebra with the custom basis onto the default-basis algebra of the bit-ordered
    signature, for every admissible basis (reordered generators, permuted spellings, any start index). -/
theorem relabelling_is_homomorphism (c : Cfg) (h : c.admissible = true) (a b : ℕ →₀ α)
    (ha : InRange c a) (hb : InRange c b) :
    lin c.epsK (clMulS c.computeSign a b) = clMul c.sigBits (lin c.epsK a) (lin c.epsK b) :=
  relabel_hom c (Cfg.adm_of_admissible c h) a b ha hb

/-- ... and it is its own inverse, hence an isomorphism -/
theorem relabelling_is_involutive (c : Cfg) (h : c.admissible = true) (a : ℕ →₀ α) (ha : InRange c a) :
    lin c.epsK (lin c.epsK a) = a :=
  relabel_involutive c (Cfg.adm_of_admissible c h) a ha

/-- in a default basis (any start index) the relabelling is the identity: all orientations are +1 -/
theorem default_basis_untwisted (sig : List Int) (start : Nat) (I : Nat) (hI : I < 2 ^ sig.length)
    (h : (Cfg.default sig start).admissible = true) : (Cfg.default sig start).epsK I = 1 :=
  Cfg.epsK_default sig start I hI (Cfg.adm_of_admissible _ h)

/-- the stored table of any admissible configuration is the canonical table twisted by the relabelling -/
theorem table_is_relabelled_default (c : Cfg) (h : c.admissible = true) (I J : Nat)
    (hI : I < 2 ^ c.d) (hJ : J < 2 ^ c.d) :
    c.computeSign I J = c.epsK I * c.epsK J * c.epsK (I ^^^ J) * csign c.sigBits I J :=
  Cfg.computeSign_twist c (Cfg.adm_of_admissible c h) I J hI hJ

/-- the named constructors 2DPGA, 3DPGA and STAP (bases re-extracted from the source on every run) are
    admissible configurations, i.e. instances of the theorems above -/
theorem named_algebras_admissible :
    Gen.namedBases.all (fun (_, _, _, _, sig, names) => (Cfg.custom sig names).admissible) = true := by
  decide +kernel

/-- the rejection clause: `Algebra.__eq__`, probed on the current source, distinguishes algebras whose metric
    (signature order, null-vector position, (p,q,r)) or basis (spelling, generator order, custom vs default) differ,
    and identifies equal ones (after fix aa10c35); `OperatorDict` raises AlgebraError for unequal algebras.
    A different start index alone is a pure renaming and is deliberately not distinguished. -/
theorem equality_distinguishes_metric_and_basis :
    ["signature-order", "signature-null-position", "pqr", "basis-spelling", "basis-generator-order",
     "custom-vs-default-basis"].all (fun a => Gen.equalityProbe.lookup a == some true) = true ∧
    Gen.equalityProbe.lookup "same" = some false := by
  decide

end Kingdon.C14

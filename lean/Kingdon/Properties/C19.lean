/-
  C19 — exp, outer exponentials, sqrt, powers and norms obey their identities.
  The code evaluates these formulas in floating point (and with numpy / sympy transcendental functions); the theorems
  are about the formulas, in exact and real arithmetic.  PARTIAL on the code side for that reason.
-/
import Kingdon.Lemmas.SeriesLemmas
namespace Kingdon.C19
open Finsupp BigOperators

section exp
variable {A : Type} [Ring A] [Algebra ℝ A]

/-- for an element squaring to the scalar `s`, the partial sums of the power series ∑ X^k/k! split into a scalar
    series and a multiple of X -/
theorem exp_series_splits (X : A) (s : ℝ) (h : X * X = algebraMap ℝ A s) (n : ℕ) :
    ∑ k ∈ Finset.range (2 * n), ((1 : ℝ) / (k.factorial : ℝ)) • X ^ k =
      algebraMap ℝ A (∑ k ∈ Finset.range n, s ^ k / ((2 * k).factorial : ℝ)) +
      (∑ k ∈ Finset.range n, s ^ k / ((2 * k + 1).factorial : ℝ)) • X :=
  exp_partial_sums X s h n
end exp

/-- ... and the two scalar series converge to the closed forms `MultiVector.exp` evaluates: cosh/sinhc of sqrt(s)
    for a positive square, 1 and 1 for a zero square, cos/sinc of sqrt(-s) for a negative square -/
theorem exp_closed_forms_pos (s : ℝ) (hs : 0 < s) :
    HasSum (fun k : ℕ => s ^ k / ((2 * k).factorial : ℝ)) (Real.cosh (Real.sqrt s)) ∧
    HasSum (fun k : ℕ => s ^ k / ((2 * k + 1).factorial : ℝ)) (Real.sinh (Real.sqrt s) / Real.sqrt s) :=
  scalar_series_pos s hs
theorem exp_closed_forms_zero :
    HasSum (fun k : ℕ => (0 : ℝ) ^ k / ((2 * k).factorial : ℝ)) 1 ∧
    HasSum (fun k : ℕ => (0 : ℝ) ^ k / ((2 * k + 1).factorial : ℝ)) 1 := scalar_series_zero
theorem exp_closed_forms_neg (s : ℝ) (hs : s < 0) :
    HasSum (fun k : ℕ => s ^ k / ((2 * k).factorial : ℝ)) (Real.cos (Real.sqrt (-s))) ∧
    HasSum (fun k : ℕ => s ^ k / ((2 * k + 1).factorial : ℝ)) (Real.sin (Real.sqrt (-s)) / Real.sqrt (-s)) :=
  scalar_series_neg s hs

section study
variable {A : Type} [Ring A] [Algebra ℝ A]

/-- sqrt(x) * sqrt(x) = x for a Study number x = a + B (B² a real scalar b2) with a > 0 and a² - b2 ≥ 0:
    the formula assembled by `codegen_sqrt` -/
theorem study_sqrt_squares_back (B : A) (a b2 : ℝ) (hB : B * B = algebraMap ℝ A b2) (ha : 0 < a) (hn : 0 ≤ a ^ 2 - b2) :
    let c := Real.sqrt ((a + Real.sqrt (a ^ 2 - b2)) / 2)
    (algebraMap ℝ A c + (1 / (2 * c)) • B) * (algebraMap ℝ A c + (1 / (2 * c)) • B) = algebraMap ℝ A a + B :=
  study_sqrt_sq B a b2 hB ha hn

/-- the degenerate branch (B² = 0, e.g. scalar + ideal element in PGA) -/
theorem study_sqrt_null_branch (B : A) (a : ℝ) (hB : B * B = 0) (ha : 0 < a) :
    (algebraMap ℝ A (Real.sqrt a) + (1 / (2 * Real.sqrt a)) • B) * (algebraMap ℝ A (Real.sqrt a) + (1 / (2 * Real.sqrt a)) • B)
      = algebraMap ℝ A a + B := study_sqrt_sq_null B a hB ha

/-- normalized(x) has squared norm 1 when the squared norm of x is a positive scalar -/
theorem normalized_has_unit_norm (X : A) (rev : A → A) (hlin : ∀ (t : ℝ) (Y : A), rev (t • Y) = t • rev Y)
    (n : ℝ) (hn : 0 < n) (h : X * rev X = algebraMap ℝ A n) :
    ((1 / Real.sqrt n) • X) * rev ((1 / Real.sqrt n) • X) = algebraMap ℝ A 1 :=
  normalized_normsq X rev hlin n hn h
end study

section outer
variable {α : Type} [CommRing α]

/-- outerexp is a FINITE sum: once a wedge power vanishes all later ones vanish, so stopping at the first empty power
    (the `break` in codegen_outerexp) loses nothing; dropping zero coefficients never changes the element -/
theorem outer_series_truncation_sound (c : Cfg) (hr : TableRange c.computeSign) (p x : MV α) (hp : den p = 0) :
    den (op c p x) = 0 := wedge_power_zero_stays_zero c hr p x hp
theorem zero_filter_preserves_element (isZero : α → Bool) (hz : ∀ v, isZero v = true → v = 0) (x : MV α) :
    den (x.filter fun kv => !isZero kv.2) = den x := filter_zero_den isZero hz x
end outer

end Kingdon.C19

/-
  C17 at the level of the source text: the statements of `C17.lean` for the methods of `Polynomial` and
  `RationalPolynomial` as translated from kingdon/polynomial.py on every run (Generated/SourcePoly.lean).
  `polyOf` / `ratOf` embed the model's values into python's heterogeneous lists (`[coeff, name, ...]`); on them
  every translated method returns (it does not raise, its `while` loops terminate) and what it returns denotes the
  sum / product / ... of what its operands denote.
-/
import Kingdon.Properties.C17
import Kingdon.Lemmas.SourcePow
namespace Kingdon.C17
open Kingdon KP SrcPolyEq

section ring
variable {α : Type} [CommRing α] (ρ : String → α)

/-- `p + q`, `p - q`, `-p`, `p * q`, `p * n` as the source computes them return, and denote the sum, ... -/
theorem source_polynomial_add_exact (p q : Poly) :
    ∃ r, SrcPoly.poly_add (polyOf p) (polyOf q) = .ok (polyOf r) ∧ eval ρ r = eval ρ p + eval ρ q :=
  ⟨_, poly_add_eq p q, eval_add ρ p q⟩
theorem source_polynomial_sub_exact (p q : Poly) :
    ∃ r, SrcPoly.poly_sub (polyOf p) (polyOf q) = .ok (polyOf r) ∧ eval ρ r = eval ρ p - eval ρ q :=
  ⟨_, poly_sub_eq p q, eval_sub ρ p q⟩
theorem source_polynomial_neg_exact (p : Poly) :
    ∃ r, SrcPoly.poly_neg (polyOf p) = .ok (polyOf r) ∧ eval ρ r = - eval ρ p :=
  ⟨_, poly_neg_eq p, eval_neg ρ p⟩
theorem source_polynomial_mul_exact (p q : Poly) :
    ∃ r, SrcPoly.poly_mul (polyOf p) (polyOf q) = .ok (polyOf r) ∧ eval ρ r = eval ρ p * eval ρ q :=
  ⟨_, poly_mul_eq p q, eval_mul ρ p q⟩
theorem source_polynomial_mul_int_exact (p : Poly) (n : Int) :
    ∃ r, SrcPoly.poly_mul_int (polyOf p) n = .ok (polyOf r) ∧ eval ρ r = eval ρ p * (n : α) := by
  refine ⟨_, poly_mul_int_eq p n, ?_⟩
  rw [eval_mul]; simp [KP.ofInt, KP.eval, KP.evalMono]

/-- `==` as the source computes it never equates polynomials denoting different functions; `== 0`, `== 1`, falsiness are sound -/
theorem source_polynomial_eq_sound (p q : Poly) (h : SrcPoly.poly_eq (polyOf p) (polyOf q) = .ok true) : eval ρ p = eval ρ q := by
  rw [poly_eq_eq] at h; exact eq_sound ρ p q (by simpa using h)
theorem source_polynomial_eq_zero_sound (p : Poly) (h : SrcPoly.poly_eq_int (polyOf p) 0 = .ok true) : eval ρ p = 0 := by
  rw [poly_eq_int_zero] at h; exact eqZero_sound ρ p (by simpa using h)
theorem source_polynomial_eq_one_sound (p : Poly) (h : SrcPoly.poly_eq_int (polyOf p) 1 = .ok true) : eval ρ p = 1 := by
  rw [poly_eq_int_one] at h; exact eqOne_sound ρ p (by simpa using h)
theorem source_polynomial_falsy_sound (p : Poly) (h : SrcPoly.poly_bool (polyOf p) = .ok false) : eval ρ p = 0 := by
  rw [poly_bool_eq] at h; exact toBool_false_sound ρ p (by simpa using h)

/-- integer powers as the source computes them (`__pow__` → `power_supply` → `AdditionChains.minimal_chains`, all translated):
    whenever `p ** n` returns, the exponent is positive and the result denotes the n-th power -/
theorem source_polynomial_pow_exact (p : Poly) (n : Int) (r : Py.Poly) (h : SrcPoly.poly_pow (polyOf p) n = .ok r) :
    0 < n ∧ ∃ q, r = polyOf q ∧ eval ρ q = eval ρ p ^ n.toNat := by
  obtain ⟨hn, q, hq, rfl⟩ := poly_pow_sound p n r h
  exact ⟨hn, q, rfl, eval_pow ρ p q n.toNat hq⟩
end ring

/-- the addition-chain table is found within the fuel of the translated `while` loop: `minimal_chains` returns for every limit -/
theorem source_addition_chains_terminate (limit : Nat) (hl : 0 < limit) : ∃ r, SrcPoly.minimal_chains (Int.ofNat limit) = .ok r :=
  minimal_chains_returns limit hl
/-- rational powers of any integer exponent: what the source returns is what the model returns -/
theorem source_rational_pow_is_model (r : RPoly) (n : Int) (out : Py.Rat) (h : SrcPoly.rat_pow (ratOf r) n = .ok out) :
    n ≠ 0 ∧ ∃ q, RPoly.powInt r n = some q ∧ out = ratOf q := rat_pow_sound r n out h

/-- on normal forms the zero tests of the source are exact -/
theorem source_zero_tests_exact (p : Poly) (h : WF p) :
    (SrcPoly.poly_eq_int (polyOf p) 0 = .ok true ↔ p = []) ∧ (SrcPoly.poly_bool (polyOf p) = .ok false ↔ p = []) := by
  rw [poly_eq_int_zero, poly_bool_eq]
  constructor
  · rw [← wf_eqZero_iff p h]; simp
  · rw [← wf_toBool_iff p h]; simp

section field
variable {K : Type} [Field K] (ρ : String → K)

theorem source_rational_add_exact (r s : RPoly) (hr : KP.eval ρ r.denom ≠ 0) (hs : KP.eval ρ s.denom ≠ 0) :
    ∃ t, SrcPoly.rat_add (ratOf r) (ratOf s) = .ok (ratOf t) ∧ RPoly.eval ρ t = RPoly.eval ρ r + RPoly.eval ρ s ∧ KP.eval ρ t.denom ≠ 0 :=
  ⟨_, rat_add_eq r s, RPoly.eval_add ρ r s hr hs, RPoly.add_denom_ne_zero ρ r s hr hs⟩
theorem source_rational_sub_exact (r s : RPoly) (hr : KP.eval ρ r.denom ≠ 0) (hs : KP.eval ρ s.denom ≠ 0) :
    ∃ t, SrcPoly.rat_sub (ratOf r) (ratOf s) = .ok (ratOf t) ∧ RPoly.eval ρ t = RPoly.eval ρ r - RPoly.eval ρ s :=
  ⟨_, rat_sub_eq r s, RPoly.eval_sub ρ r s hr hs⟩
theorem source_rational_mul_exact (r s : RPoly) (hr : KP.eval ρ r.denom ≠ 0) (hs : KP.eval ρ s.denom ≠ 0) :
    ∃ t, SrcPoly.rat_mul (ratOf r) (ratOf s) = .ok (ratOf t) ∧ RPoly.eval ρ t = RPoly.eval ρ r * RPoly.eval ρ s ∧ KP.eval ρ t.denom ≠ 0 :=
  ⟨_, rat_mul_eq r s, RPoly.eval_mul ρ r s hr hs, RPoly.mul_denom_ne_zero ρ r s hr hs⟩
theorem source_rational_neg_exact (r : RPoly) :
    ∃ t, SrcPoly.rat_neg (ratOf r) = .ok (ratOf t) ∧ RPoly.eval ρ t = - RPoly.eval ρ r :=
  ⟨_, rat_neg_eq r, RPoly.eval_neg ρ r⟩
/-- `r.inv()` returns the python int 0 exactly for a zero numerator, else a rational polynomial denoting the inverse -/
theorem source_rational_inv_exact (r : RPoly) :
    (∃ t, SrcPoly.rat_inv (ratOf r) = .ok (some (ratOf t)) ∧ RPoly.eval ρ t = (RPoly.eval ρ r)⁻¹) ∨
    (SrcPoly.rat_inv (ratOf r) = .ok none ∧ RPoly.eqZero r = true) := by
  rw [rat_inv_eq]
  cases h : RPoly.inv r with
  | none => right; refine ⟨rfl, ?_⟩; unfold RPoly.inv at h; split at h <;> simp_all
  | some t => left; exact ⟨t, rfl, RPoly.eval_inv ρ r t h⟩
theorem source_rational_div_exact (r s : RPoly) (hr : KP.eval ρ r.denom ≠ 0) (hs : KP.eval ρ s.denom ≠ 0)
    (hn : KP.eval ρ s.numer ≠ 0) :
    ∃ t, SrcPoly.rat_div (ratOf r) (ratOf s) = .ok (ratOf t) ∧ RPoly.eval ρ t = RPoly.eval ρ r / RPoly.eval ρ s :=
  ⟨_, rat_div_eq r s, RPoly.eval_div ρ r s hr hs hn⟩
theorem source_rational_eq_sound (r s : RPoly) (h : SrcPoly.rat_eq (ratOf r) (ratOf s) = .ok true) :
    RPoly.eval ρ r = RPoly.eval ρ s := by
  rw [rat_eq_eq] at h; exact RPoly.eq_sound ρ r s (by simpa using h)
/-- simplification during code generation drops a coefficient only if it denotes zero -/
theorem source_rational_falsy_sound (r : RPoly) (h : SrcPoly.rat_bool (ratOf r) = .ok false) : RPoly.eval ρ r = 0 := by
  rw [rat_bool_eq] at h; exact RPoly.toBool_false_sound ρ r (by simpa using h)
end field

/-- non-vacuity: the translated methods run on concrete objects: (a + b) * b through the source -/
example : (do SrcPoly.poly_mul (← SrcPoly.poly_add (polyOf (ofName "a")) (polyOf (ofName "b"))) (polyOf (ofName "b"))).toOption
    = some (polyOf [⟨1, ["a", "b"]⟩, ⟨1, ["b", "b"]⟩]) := by decide +kernel

end Kingdon.C17

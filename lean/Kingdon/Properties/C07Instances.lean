/-
  C07 — instances in four dimensions: for each configuration below, every operand of the algebra (dense or sparse, keys in
  any order) over every commutative ring has a numerator with x * num and num * x scalar.
-/
import Kingdon.Properties.C07
import Kingdon.Properties.C07ChecksG
import Kingdon.Properties.C07ChecksK
import Kingdon.Properties.C07ChecksL
namespace Kingdon.C07
open Finsupp
variable {α : Type} [CommRing α]

/-- Euclidean 4-space -/
theorem euclidean4_inverse_identities (x : MV α) (hk : (x.map (·.1)).Nodup) (hr : ∀ p ∈ x, p.1 < 16) :
    ∃ num D D', hitzerNum (Cfg.default [1, 1, 1, 1] 1) x = some num ∧
      clMulS (Cfg.default [1, 1, 1, 1] 1).computeSign (den x) (den num) = single 0 D ∧
      clMulS (Cfg.default [1, 1, 1, 1] 1).computeSign (den num) (den x) = single 0 D' :=
  hitzer_identities (Cfg.default [1, 1, 1, 1] 1) (by decide +kernel) hitzer_check_sig_pppp x hk hr

/-- space-time algebra, signature (+,-,-,-) -/
theorem sta_pmmm_inverse_identities (x : MV α) (hk : (x.map (·.1)).Nodup) (hr : ∀ p ∈ x, p.1 < 16) :
    ∃ num D D', hitzerNum (Cfg.default [1, -1, -1, -1] 1) x = some num ∧
      clMulS (Cfg.default [1, -1, -1, -1] 1).computeSign (den x) (den num) = single 0 D ∧
      clMulS (Cfg.default [1, -1, -1, -1] 1).computeSign (den num) (den x) = single 0 D' :=
  hitzer_identities (Cfg.default [1, -1, -1, -1] 1) (by decide +kernel) hitzer_check_sig_pmmm x hk hr

/-- space-time algebra, signature (+,+,+,-) -/
theorem sta_pppm_inverse_identities (x : MV α) (hk : (x.map (·.1)).Nodup) (hr : ∀ p ∈ x, p.1 < 16) :
    ∃ num D D', hitzerNum (Cfg.default [1, 1, 1, -1] 1) x = some num ∧
      clMulS (Cfg.default [1, 1, 1, -1] 1).computeSign (den x) (den num) = single 0 D ∧
      clMulS (Cfg.default [1, 1, 1, -1] 1).computeSign (den num) (den x) = single 0 D' :=
  hitzer_identities (Cfg.default [1, 1, 1, -1] 1) (by decide +kernel) hitzer_check_sig_pppm x hk hr

/-- a degenerate Lorentzian signature (0,+,+,-) -/
theorem zppm_inverse_identities (x : MV α) (hk : (x.map (·.1)).Nodup) (hr : ∀ p ∈ x, p.1 < 16) :
    ∃ num D D', hitzerNum (Cfg.default [0, 1, 1, -1] 0) x = some num ∧
      clMulS (Cfg.default [0, 1, 1, -1] 0).computeSign (den x) (den num) = single 0 D ∧
      clMulS (Cfg.default [0, 1, 1, -1] 0).computeSign (den num) (den x) = single 0 D' :=
  hitzer_identities (Cfg.default [0, 1, 1, -1] 0) (by decide +kernel) hitzer_check_sig_zppm x hk hr

/-- kingdon's named 3DPGA: a *custom* basis (generator order e1 e2 e3 e0, spellings e31, e032, e013, e021) -/
theorem pga3d_named_inverse_identities (x : MV α) (hk : (x.map (·.1)).Nodup) (hr : ∀ p ∈ x, p.1 < 16) :
    let c := Cfg.custom [0, 1, 1, 1]
      [[], [1], [2], [3], [0], [0, 1], [0, 2], [0, 3], [1, 2], [3, 1], [2, 3], [0, 3, 2], [0, 1, 3], [0, 2, 1], [1, 2, 3], [0, 1, 2, 3]]
    ∃ num D D', hitzerNum c x = some num ∧
      clMulS c.computeSign (den x) (den num) = single 0 D ∧
      clMulS c.computeSign (den num) (den x) = single 0 D' :=
  hitzer_identities _ (by decide +kernel) hitzer_check_3dpga_named x hk hr

end Kingdon.C07

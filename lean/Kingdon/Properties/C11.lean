/-
  C11 — registered (compiled) expressions equal direct evaluation.
  `MultiVector` and `TapeRecorder` are two implementations of one operator surface; their dispatch tables are
  re-extracted from the source by behavioural probing on every run and compared here.
-/
import Kingdon.Lemmas.ApiLemmas
namespace Kingdon.C11
open Kingdon.Api
variable {M : Type}

/-- on every method through which two multivector-valued operands can meet, TapeRecorder consults the same operator
    with the same operand order as MultiVector -/
theorem dispatch_tables_agree :
    mvMethods.all (fun m => lookupBin Gen.mvDispatch m == lookupBin Gen.tapeDispatch m &&
                            (lookupBin Gen.mvDispatch m).isSome) = true := tables_agree

/-- dual()/undual() select the same duality in both classes (polarity for r = 0, Hodge for r = 1, error above) -/
theorem duals_agree :
    [("dual", 0), ("undual", 0), ("dual", 1), ("undual", 1), ("dual", 2), ("undual", 2)].all
      (fun (p : String × Nat) =>
        (Gen.dualDispatch.find? (fun r => r.1 == "mv" && r.2.1 == p.1 && r.2.2.1 == p.2)).map (·.2.2.2) ==
        (Gen.dualDispatch.find? (fun r => r.1 == "tape" && r.2.1 == p.1 && r.2.2.1 == p.2)).map (·.2.2.2)) = true ∧
    (Gen.dualDispatch.find? (fun r => r.1 == "mv" && r.2.1 == "dual" && r.2.2.1 == 0)).map (·.2.2.2) = some "polarity" ∧
    (Gen.dualDispatch.find? (fun r => r.1 == "mv" && r.2.1 == "undual" && r.2.2.1 == 1)).map (·.2.2.2) = some "unhodge" :=
  dual_dispatch_agrees

/-- with a plain number as the other operand the recorder either raises or does what MultiVector does (same
    operator, number on the same side or in an operator in which scalars are central): never a different value -/
theorem numbers_never_wrong :
    (Gen.numberDispatch.filter (·.1 == "tape")).all
      (fun r => match lookupNum Gen.numberDispatch "tape" r.2.1, lookupNum Gen.numberDispatch "mv" r.2.1 with
        | some (o2, l2), some (o1, l1) => o1 == o2 && (l1 == l2 || scalarCentral.contains o1)
        | none, _ => true
        | _, none => false) = true := number_dispatch_never_wrong

/-- **registered = direct** for every expression tree over supported nodes, any depth, any number of arguments,
    any values: by induction on the tree -/
theorem registered_equals_direct (S : Sem M) (mvT tapeT : BinTable) (nt : NumTable) (env : List M)
    (hc : ∀ op ∈ scalarCentral, ∀ n x, S.bin op (S.scalar n) x = S.bin op x (S.scalar n))
    (e : Expr) (h : supported mvT tapeT nt e = true) :
    eval S tapeT nt "tape" env e = eval S mvT nt "mv" env e :=
  registered_eq_direct S mvT tapeT nt env hc e h

/-- non-vacuity: a depth-3 tree mixing infix forms, a method form and numbers on both sides is supported by the
    tables extracted from the current source -/
theorem supported_tree_exists :
    supported Gen.mvDispatch Gen.tapeDispatch Gen.numberDispatch
      (.binm "__add__" (.numm "__rmul__" (.binm "__rshift__" (.arg 0) (.unm "__invert__" (.arg 1))) 2)
                       (.numm "__add__" (.binm "cp" (.arg 0) (.arg 1)) 3)) = true := supported_example

end Kingdon.C11

/-
  C06 stated about the *translated source*: the composite generators `codegen_sw`, `codegen_proj`, `codegen_normsq`
  of the current codegen.py are the compositions the property names, written in the algebra's own operators.
-/
import Kingdon.Properties.C06
import Kingdon.Lemmas.SourceComposite
import Kingdon.Lemmas.GpDen
import Kingdon.Lemmas.Products
import Kingdon.Lemmas.Linear
namespace Kingdon.C06
open Kingdon Kingdon.SrcEq Finsupp
variable {α : Type} [CommRing α]

/-- a >> b in the source is a * b * ~a -/
theorem source_sandwich_is_composition (c : Cfg) (h : c.admissible = true) (x y : MV α) :
    ∃ r : MV α, Src.codegen_sw (algOf c) (modelOps c) (castMV x) (castMV y) = .ok (castMV r) ∧
      den r = clMulS c.computeSign (clMulS c.computeSign (den x) (den y)) (lin (involSign [2, 3]) (den x)) := by
  refine ⟨_, codegen_sw_eq c x y, ?_⟩
  have hr := Cfg.tableRange_of_adm c (Cfg.adm_of_admissible c h)
  rw [gp_den c hr, gp_den c hr]
  show _ = clMulS c.computeSign _ (lin (involSign [2, 3]) (den x))
  rw [← involutions_den]
  rfl

/-- a @ b in the source is (a | b) * ~b -/
theorem source_projection_is_composition (c : Cfg) (h : c.admissible = true) (x y : MV α) :
    ∃ r : MV α, Src.codegen_proj (algOf c) (modelOps c) (castMV x) (castMV y) = .ok (castMV r) ∧
      den r = clMulS c.computeSign
        (bilin (gradedTable c.computeSign fun r s g => g + r == s || g + s == r) (· ^^^ ·) (den x) (den y))
        (lin (involSign [2, 3]) (den y)) := by
  refine ⟨_, codegen_proj_eq c x y, ?_⟩
  have hr := Cfg.tableRange_of_adm c (Cfg.adm_of_admissible c h)
  rw [gp_den c hr, ip_den c hr]
  show _ = clMulS c.computeSign _ (lin (involSign [2, 3]) (den y))
  rw [← involutions_den]
  rfl

/-- normsq in the source is a * ~a -/
theorem source_normsq_is_composition (c : Cfg) (h : c.admissible = true) (x : MV α) :
    ∃ r : MV α, Src.codegen_normsq (algOf c) (modelOps c) (castMV x) = .ok (castMV r) ∧
      den r = clMulS c.computeSign (den x) (lin (involSign [2, 3]) (den x)) := by
  refine ⟨_, codegen_normsq_eq c x, ?_⟩
  have hr := Cfg.tableRange_of_adm c (Cfg.adm_of_admissible c h)
  rw [gp_den c hr]
  show _ = clMulS c.computeSign _ (lin (involSign [2, 3]) (den x))
  rw [← involutions_den]
  rfl

end Kingdon.C06

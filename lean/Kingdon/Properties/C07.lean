/-
  C07 — inverse and division are exact two-sided inverses wherever they return.
  `hitzerNum c x` is the numerator of `codegen_hitzer_inv` (model: Model/Hitzer.lean), `hitzerDenom` its denominator.
  The polynomial identities x*num = D, num*x = D' are decided per configuration by kernel evaluation
  (`hitzer_check_*` in C07Checks*.lean: all 40 default-basis signatures with d <= 3, and 3D PGA and space-time algebra
  in d = 4) and lifted here to every commutative ring, every operand and every storage layout.
  NOT PROVED (validated by exact / 1e-7 differential testing only, see DESIGN.md): the other 79 signatures of d = 4,
  all of d = 5 (kernel evaluation infeasible), custom bases, the iterative scheme for d >= 6, and that
  ZeroDivisionError is raised only for non-invertible operands.
-/
import Kingdon.Lemmas.HitzerSound
import Kingdon.Properties.C07ChecksA
import Kingdon.Properties.C07ChecksD
namespace Kingdon.C07
open Finsupp
variable {α : Type} [CommRing α]

/-- **lifting**: a configuration that passes the polynomial check satisfies both identities for every operand of the
    algebra (dense or sparse, keys in any order), over every commutative ring -/
theorem hitzer_identities (c : Cfg) (h : c.admissible = true) (hc : hitzerCheck c = true) (x : MV α)
    (hk : (x.map (·.1)).Nodup) (hr : ∀ p ∈ x, p.1 < 2 ^ c.d) :
    ∃ num D D', hitzerNum c x = some num ∧
      clMulS c.computeSign (den x) (den num) = single 0 D ∧
      clMulS c.computeSign (den num) (den x) = single 0 D' :=
  hitzer_spec c (Cfg.adm_of_admissible c h) hc x hk hr

/-- whenever the denominator is a unit, numerator/denominator is a TWO-sided inverse (and the two scalars agree) -/
theorem inverse_is_two_sided (c : Cfg) (h : c.admissible = true) (X N : ℕ →₀ α) (D D' u : α)
    (hX : InRange c X) (hN : InRange c N)
    (h1 : clMulS c.computeSign X N = single 0 D) (h2 : clMulS c.computeSign N X = single 0 D') (hu : D * u = 1) :
    clMulS c.computeSign X (N.mapRange (· * u) (by simp)) = single 0 1 ∧
    clMulS c.computeSign (N.mapRange (· * u) (by simp)) X = single 0 1 ∧ D' = D :=
  hitzer_two_sided c (Cfg.adm_of_admissible c h) X N D D' u hX hN h1 h2 hu

/-- the denominator the code divides by, `(x.sp(num)).e`, is that scalar -/
theorem denominator_is_the_scalar (c : Cfg) (h : c.admissible = true) (x num : MV α) (D : α)
    (hn : hitzerNum c x = some num) (h1 : den (gp c x num) = single 0 D) : hitzerDenom c x = some D :=
  hitzerDenom_eq c (Cfg.adm_of_admissible c h) x num D hn h1

/-- the numerator depends only on the element an operand denotes, not on its storage (C08 for the inverse) -/
theorem numerator_storage_independent (c : Cfg) (h : c.admissible = true) (x x' num num' : MV α)
    (hk : (x.map (·.1)).Nodup) (hk' : (x'.map (·.1)).Nodup)
    (hr : ∀ p ∈ x, p.1 < 2 ^ c.d) (hr' : ∀ p ∈ x', p.1 < 2 ^ c.d)
    (hd : den x = den x') (hn : hitzerNum c x = some num) (hn' : hitzerNum c x' = some num') : den num = den num' :=
  hitzerNum_den_congr c (Cfg.adm_of_admissible c h) x x' num num' hk hk' hr hr' hd hn hn'

/-- instances: 3-D Euclidean space and 3-D PGA (kingdon's signature order), every operand, every commutative ring -/
theorem euclidean3_inverse_identities (x : MV α) (hk : (x.map (·.1)).Nodup) (hr : ∀ p ∈ x, p.1 < 8) :
    ∃ num D D', hitzerNum (Cfg.default [1, 1, 1] 1) x = some num ∧
      clMulS (Cfg.default [1, 1, 1] 1).computeSign (den x) (den num) = single 0 D ∧
      clMulS (Cfg.default [1, 1, 1] 1).computeSign (den num) (den x) = single 0 D' :=
  hitzer_identities (Cfg.default [1, 1, 1] 1) (by decide) hitzer_check_sig_ppp x hk hr

theorem pga3d_inverse_identities (x : MV α) (hk : (x.map (·.1)).Nodup) (hr : ∀ p ∈ x, p.1 < 16) :
    ∃ num D D', hitzerNum (Cfg.default [0, 1, 1, 1] 0) x = some num ∧
      clMulS (Cfg.default [0, 1, 1, 1] 0).computeSign (den x) (den num) = single 0 D ∧
      clMulS (Cfg.default [0, 1, 1, 1] 0).computeSign (den num) (den x) = single 0 D' :=
  hitzer_identities (Cfg.default [0, 1, 1, 1] 0) (by decide +kernel) hitzer_check_sig_zppp x hk hr

end Kingdon.C07

/-
  C13 — algebra options change speed, never results.
  In the model no generator depends on an option.  The two facts that make this true of the code are instances of
  theorems proved for other properties and are restated here for the options they concern:
  * symbol class (`codegen_symbolcls`): the generated function is the same polynomial map whatever symbols are used
    to derive it — every generator commutes with homomorphisms of the coefficient ring (C12), and for kingdon's own
    RationalPolynomial symbols the evaluation is a (partial) homomorphism (C06/C17);
  * wrapper: with a wrapper every call is served, by name, with the function generated for its own operator and
    ordered key tuple (C09).
  `cse` and pretty-printing only affect how the polynomial is printed (sympy: trusted).  Graded mode is covered by the
  differential check only; it violates the property for degenerate metrics (known findings F7a/F7b).
-/
import Kingdon.Lemmas.Naturality
import Kingdon.Lemmas.MiscLemmas
import Kingdon.Lemmas.OpDictLemmas
import Kingdon.Lemmas.GradedComplete
namespace Kingdon.C13
open Finsupp
variable {α β : Type} [CommRing α] [CommRing β]

/-- symbol class: deriving the function over one coefficient ring and transporting it along a homomorphism gives the
    function derived over the other ring -/
theorem symbol_class_irrelevant (φ : α →+* β) (signf : Nat → Nat → Int) (keyout : Nat → Nat → Nat)
    (filt : Nat → Nat → Nat → Bool) (x y : MV α) :
    mapV φ (codegenProduct signf keyout filt x y) = codegenProduct signf keyout filt (mapV φ x) (mapV φ y) :=
  codegenProduct_map_hom φ signf keyout filt x y

/-- wrapper: in every history, with or without a wrapper, the same function serves the call -/
theorem wrapper_irrelevant (canon : List Nat) (hc : canon.Nodup) (genFails : OD.FuncId → Bool) (h : List OD.FuncId) :
    (OD.run canon genFails true OD.init h).2 = (OD.run canon genFails false OD.init h).2 := by
  rw [OD.history_independent_fresh canon hc genFails true h, OD.history_independent_fresh canon hc genFails false h]

/-- graded mode, linear operators: negation and the involutions keep the stored key tuple, sums and differences of
    operands with the same key tuple keep it, the Hodge dual stores the complement blades — complete grades stay
    complete (for the product-type operators this FAILS in degenerate metrics: known findings F7a/F7b) -/
theorem linear_operators_keep_keys_partial {γ : Type} [Neg γ] [Add γ] [Sub γ] (gs : List Nat) (c : Cfg) (u : Bool) (x y : MV γ)
    (h : x.map (·.1) = y.map (·.1)) (hn : (x.map (·.1)).Nodup) :
    (neg x).map (·.1) = x.map (·.1) ∧ (involutions gs x).map (·.1) = x.map (·.1) ∧
    (add x y).map (·.1) = x.map (·.1) ∧ (sub x y).map (·.1) = x.map (·.1) ∧
    (hodgeGen c u x).map (·.1) = x.map (fun kv => c.pss - kv.1) :=
  ⟨keys_neg x, keys_involutions gs x, keys_add_same x y h hn, keys_sub_same x y h hn, keys_hodge c u x⟩

/-- graded mode, geometric product, NON-DEGENERATE metric: if both operands store complete grades (for each stored blade,
    every blade of the same grade), so does their product — so the result can be fed to the next operator of a graded
    algebra.  (In degenerate metrics this fails: known findings F7a/F7b.) -/
theorem graded_product_keeps_grades_complete {γ : Type} [Add γ] [Mul γ] [Neg γ] (c : Cfg) (h : c.admissible = true)
    (hnd : ∀ s ∈ c.signature, s ≠ 0) (x y : MV γ)
    (hxr : ∀ k ∈ keysOf x, k < 2 ^ c.d) (hyr : ∀ k ∈ keysOf y, k < 2 ^ c.d)
    (hx : ∀ k ∈ keysOf x, ∀ k', k' < 2 ^ c.d → popcount k' = popcount k → k' ∈ keysOf x)
    (hy : ∀ k ∈ keysOf y, ∀ k', k' < 2 ^ c.d → popcount k' = popcount k → k' ∈ keysOf y)
    (K K' : Nat) (hK : K ∈ keysOf (gp c x y)) (hK' : K' < 2 ^ c.d) (hpop : popcount K' = popcount K) :
    K' ∈ keysOf (gp c x y) :=
  gp_keeps_grades_complete c (Cfg.adm_of_admissible c h) hnd x y hxr hyr hx hy K K' hK hK' hpop

/-- the combinatorial reason: every blade of a grade that occurs in a product of grades r and s is such a product -/
theorem grade_orbit_complete (d r s : Nat) (K K' : Nat) (hK : K < 2 ^ d) (hK' : K' < 2 ^ d) (hpop : popcount K' = popcount K)
    (hex : ∃ I J, I < 2 ^ d ∧ J < 2 ^ d ∧ popcount I = r ∧ popcount J = s ∧ I ^^^ J = K) :
    ∃ I' J', I' < 2 ^ d ∧ J' < 2 ^ d ∧ popcount I' = r ∧ popcount J' = s ∧ I' ^^^ J' = K' :=
  grade_orbit d r s K K' hK hK' hpop hex

end Kingdon.C13

/-
  C16 — array coefficients, sequences, callables and plain numbers broadcast right.
-/
import Kingdon.Lemmas.ApiLemmas
import Kingdon.Lemmas.Naturality
import Mathlib.Algebra.Ring.Pi
namespace Kingdon.C16
open Kingdon.Api
variable {M : Type}

/-- 'left op right' keeps its operand order -/
theorem operand_order_kept (f : M → M → M) (scalar : Int → M) (x y : M) :
    callBinary f scalar (.mv x) (.mv y) = .mv (f x y) := callBinary_mv_mv f scalar x y

/-- a plain number on either side of an infix operator behaves as the scalar multivector -/
theorem number_is_scalar (f : M → M → M) (scalar : Int → M) (n : Int) (x : M) :
    callBinary f scalar (.num n) (.mv x) = .mv (f (scalar n) x) ∧
    callBinary f scalar (.mv x) (.num n) = .mv (f x (scalar n)) :=
  ⟨callBinary_num_left f scalar n x, callBinary_num_right f scalar x n⟩

/-- a zero-argument callable (nested to any depth, on either side, also inside sequences) is replaced by its value -/
theorem callable_is_its_value (f : M → M → M) (scalar : Int → M) (a b : Operand M) :
    callBinary f scalar (.thunk a) b = callBinary f scalar a b ∧
    callBinary f scalar a (.thunk b) = callBinary f scalar a b :=
  ⟨callBinary_thunk_left f scalar a b, callBinary_thunk_right f scalar a b⟩

/-- a list or tuple operand yields the sequence of results, same container kind, same order -/
theorem sequence_maps (f : M → M → M) (scalar : Int → M) (a : Operand M) (t : Bool) (xs : List (Operand M)) (y : M) :
    callBinary f scalar a (.seq t xs) = .seq t (xs.map (callBinary f scalar a)) ∧
    callBinary f scalar (.seq t xs) (.mv y) = .seq t (xs.map fun x => callBinary f scalar x (.mv y)) :=
  ⟨callBinary_seq_right f scalar a t xs, callBinary_seq_left f scalar t xs y⟩

/-- every reflected operator method of MultiVector hands (other, self) to the operator of its non-reflected form
    (tables re-extracted from the source on every run) -/
theorem reflected_methods_keep_order :
    ["__rmul__", "__rxor__", "__ror__", "__rand__", "__rrshift__", "__rmatmul__", "__rsub__", "__rtruediv__"].all
      (fun m => match Gen.mvDispatch.lookup m with | some (_, sw, 1) => sw | _ => false) = true ∧
    [("__rmul__", "__mul__"), ("__rxor__", "__xor__"), ("__ror__", "__or__"), ("__rand__", "__and__"),
     ("__rrshift__", "__rshift__"), ("__rmatmul__", "__matmul__"), ("__rsub__", "__sub__"),
     ("__rtruediv__", "__truediv__"), ("__radd__", "__add__")].all
      (fun p => (Gen.mvDispatch.lookup p.1).map (·.1) == (Gen.mvDispatch.lookup p.2).map (·.1) &&
                (Gen.mvDispatch.lookup p.1).isSome) = true :=
  ⟨reflected_methods_swap, reflected_methods_same_operator⟩

/-- with array-valued coefficients (functions `ι → α` on an index set, element-wise arithmetic) every product-type
    operator acts element-wise: indexing the result at `i` equals operating on the operands indexed at `i` -/
theorem indexing_commutes_with_products {ι α : Type} [CommRing α] (i : ι) (signf : Nat → Nat → Int)
    (keyout : Nat → Nat → Nat) (filt : Nat → Nat → Nat → Bool) (x y : MV (ι → α)) :
    mapV (Pi.evalRingHom (fun _ => α) i) (codegenProduct signf keyout filt x y) =
      codegenProduct signf keyout filt (mapV (Pi.evalRingHom (fun _ => α) i) x) (mapV (Pi.evalRingHom (fun _ => α) i) y) :=
  codegenProduct_map_hom _ signf keyout filt x y

theorem indexing_commutes_with_linear_ops {ι α : Type} [CommRing α] (i : ι) (gs : List Nat) (x y : MV (ι → α)) :
    mapV (Pi.evalRingHom (fun _ => α) i) (add x y) = add (mapV (Pi.evalRingHom (fun _ => α) i) x) (mapV (Pi.evalRingHom (fun _ => α) i) y) ∧
    mapV (Pi.evalRingHom (fun _ => α) i) (sub x y) = sub (mapV (Pi.evalRingHom (fun _ => α) i) x) (mapV (Pi.evalRingHom (fun _ => α) i) y) ∧
    mapV (Pi.evalRingHom (fun _ => α) i) (involutions gs x) = involutions gs (mapV (Pi.evalRingHom (fun _ => α) i) x) :=
  ⟨add_map_hom _ x y, sub_map_hom _ x y, involutions_map_hom _ gs x⟩

end Kingdon.C16

/-
  C07 stated about the *translated source*: `codegen_hitzer_inv` of the current codegen.py (dimension dispatch,
  involutions, grade selections, association order, denominator), instantiated with the model's operators.
-/
import Kingdon.Properties.C07
import Kingdon.Lemmas.SourceComposite
namespace Kingdon.C07
open Kingdon Kingdon.SrcEq Finsupp
variable {α : Type} [CommRing α]

/-- **the inverse of the source is two-sided**: for a configuration that passes the polynomial check, the python
    `codegen_hitzer_inv` returns (without raising) a numerator and the scalar `(x.sp(num)).e` such that
    x * num and num * x are scalars -/
theorem source_hitzer_identities (c : Cfg) (h : c.admissible = true) (hc : hitzerCheck c = true) (x : MV α)
    (hk : (x.map (·.1)).Nodup) (hr : ∀ p ∈ x, p.1 < 2 ^ c.d) :
    ∃ num D D', (Src.codegen_hitzer_inv (algOf c) (modelOps c) (castMV x)).toOption =
        some (castMV num, scalarPart (sp c x num)) ∧
      clMulS c.computeSign (den x) (den num) = single 0 D ∧
      clMulS c.computeSign (den num) (den x) = single 0 D' := by
  obtain ⟨num, D, D', hn, h1, h2⟩ := hitzer_identities c h hc x hk hr
  refine ⟨num, D, D', ?_, h1, h2⟩
  rw [codegen_hitzer_inv_eq, hn]; rfl

/-- the source raises only `NotImplementedError`, and only above five dimensions -/
theorem source_hitzer_raises_only_above_5 (c : Cfg) (x : MV α) (e : String)
    (he : Src.codegen_hitzer_inv (algOf c) (modelOps c) (castMV x) = .error e) :
    e = "NotImplementedError" ∧ 5 < c.d :=
  codegen_hitzer_inv_raises c x e he

end Kingdon.C07

/-
  C12 stated about the *translated source*: the zero filter applied to symbolic results (`OperatorDict.filter`).
-/
import Kingdon.Properties.C12
import Kingdon.Lemmas.SourceFilter
namespace Kingdon.C12
open Kingdon Kingdon.SrcEq

/-- the automatic simplification of symbolic results, in the source: a blade survives exactly if its simplified coefficient is
    truthy, it then carries the simplified coefficient, and the order of the surviving blades is unchanged -/
theorem source_filter_drops_only_falsy {α : Type} [Py.Truthy α] (simp : α → α) (ks : List Int) (vs : List α) :
    Src.od_filter simp ks vs = .ok ((filterSpec simp ks vs).map (·.1), (filterSpec simp ks vs).map (·.2)) ∧
    ∀ k v, (k, v) ∈ filterSpec simp ks vs ↔ ∃ v0, (k, v0) ∈ List.zip ks vs ∧ Py.truthy (simp v0) = true ∧ v = simp v0 :=
  ⟨od_filter_eq simp ks vs, filterSpec_mem simp ks vs⟩

end Kingdon.C12

/-
  C06 — sandwich, projection and squared norm equal their defining compositions.
  The generated function is the list of polynomials `Gen6.swGen c kx ky` (resp. projGen, normsqGen) obtained by
  running the compositions once on symbolic RationalPolynomial operands with the falsy-coefficient filter after each
  step; `RPoly.eval ρ` evaluates them for a valuation ρ of the coefficient symbols in any field.
-/
import Kingdon.Lemmas.Naturality
import Kingdon.Lemmas.CfgAlgebra
namespace Kingdon.C06
open Finsupp Kingdon.KP Kingdon.Gen6
variable {K : Type} [Field K] (ρ : String → K)

/-- a >> b = a * b * ~a, for every admissible configuration, all key tuples in any order and all coefficient values -/
theorem sandwich_is_composition (c : Cfg) (h : c.admissible = true) (kx ky : List Nat) :
    den (mapV (RPoly.eval ρ) (swGen c kx ky)) =
      clMulS c.computeSign
        (clMulS c.computeSign (den (mapV (RPoly.eval ρ) (symMV c "a" kx))) (den (mapV (RPoly.eval ρ) (symMV c "b" ky))))
        (lin (involSign [2, 3]) (den (mapV (RPoly.eval ρ) (symMV c "a" kx)))) :=
  swGen_den ρ c (Cfg.tableRange_of_adm c (Cfg.adm_of_admissible c h)) kx ky

/-- a @ b = (a | b) * ~b -/
theorem projection_is_composition (c : Cfg) (h : c.admissible = true) (kx ky : List Nat) :
    den (mapV (RPoly.eval ρ) (projGen c kx ky)) =
      clMulS c.computeSign
        (bilin (gradedTable c.computeSign fun r s g => g + r == s || g + s == r) (· ^^^ ·)
          (den (mapV (RPoly.eval ρ) (symMV c "a" kx))) (den (mapV (RPoly.eval ρ) (symMV c "b" ky))))
        (lin (involSign [2, 3]) (den (mapV (RPoly.eval ρ) (symMV c "b" ky)))) :=
  projGen_den ρ c (Cfg.tableRange_of_adm c (Cfg.adm_of_admissible c h)) kx ky

/-- a.normsq() = a * ~a -/
theorem normsq_is_composition (c : Cfg) (h : c.admissible = true) (kx : List Nat) :
    den (mapV (RPoly.eval ρ) (normsqGen c kx)) =
      clMulS c.computeSign (den (mapV (RPoly.eval ρ) (symMV c "a" kx)))
        (lin (involSign [2, 3]) (den (mapV (RPoly.eval ρ) (symMV c "a" kx)))) :=
  normsqGen_den ρ c (Cfg.tableRange_of_adm c (Cfg.adm_of_admissible c h)) kx

/-- the symbolic pre-simplification removes a blade only if its coefficient is identically zero: a coefficient
    dropped by the filter evaluates to 0 under every valuation in every field, and the denotation is unchanged -/
theorem filter_drops_only_zero (x : MV RPoly) (kv : Nat × RPoly) (hm : kv ∈ x) (hd : kv ∉ filterMV x) :
    RPoly.eval ρ kv.2 = 0 := filterMV_dropped_zero ρ x kv hm hd
theorem filter_preserves_element (x : MV RPoly) :
    den (mapV (RPoly.eval ρ) (filterMV x)) = den (mapV (RPoly.eval ρ) x) := filterMV_den ρ x

end Kingdon.C06

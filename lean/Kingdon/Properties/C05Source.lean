/-
  C05 stated about the *translated source*: `codegen_hodge/unhodge/rp` of the current codegen.py.
-/
import Kingdon.Properties.C05
import Kingdon.Lemmas.SourceProducts
import Kingdon.Lemmas.SourceLinear
import Kingdon.Lemmas.SourceComposite
namespace Kingdon.C05
open Kingdon Kingdon.SrcEq Finsupp
variable {α : Type} [CommRing α]

/-- hodge then unhodge in the source is the identity on multivectors of the algebra -/
theorem source_unhodge_hodge_id (c : Cfg) (x : MV α) (hx : (SrcEq.keysOf x).Nodup) (hk : ∀ k ∈ SrcEq.keysOf x, k < 2 ^ c.d) :
    ∃ r : MV α, Src.codegen_hodge (algOf c) (castMV x) false = .ok (castMV r) ∧
      (∀ (_ : (SrcEq.keysOf r).Nodup) (_ : ∀ k ∈ SrcEq.keysOf r, k < 2 ^ c.d),
        Src.codegen_unhodge (algOf c) (castMV r) = .ok (castMV x)) := by
  refine ⟨hodge c x, codegen_hodge_eq c x hx hk, fun h1 h2 => ?_⟩
  rw [codegen_unhodge_eq c (hodge c x) h1 h2, unhodge_hodge_id c x]
  intro p hp
  have := hk p.1 (List.mem_map_of_mem hp)
  unfold Cfg.pss; omega

/-- a & b in the source is unhodge(hodge(a) ^ hodge(b)) -/
theorem source_regressive_is_dual_of_outer (c : Cfg) (h : c.admissible = true) (x y : MV α)
    (hx : ∀ p ∈ x, p.1 < 2 ^ c.d) (hy : ∀ p ∈ y, p.1 < 2 ^ c.d) :
    ∃ r : MV α, Src.codegen_rp (algOf c) (castMV x) (castMV y) = .ok (castMV r) ∧
      den r = den (unhodge c (op c (hodge c x) (hodge c y))) := by
  refine ⟨rp c x y, codegen_rp_eq c x y ?_ ?_, regressive_is_dual_of_outer c h x y hx hy⟩
  · intro k hk; obtain ⟨p, hp, rfl⟩ := List.mem_map.mp hk; exact hx p hp
  · intro k hk; obtain ⟨p, hp, rfl⟩ := List.mem_map.mp hk; exact hy p hp

/-- polarity in the source raises exactly `ZeroDivisionError`, and exactly when the pseudoscalar squares to zero;
    otherwise it returns what the model returns; unpolarity never raises -/
theorem source_polarity_raises_iff_degenerate (c : Cfg) (h : c.admissible = true) (x : MV α) :
    (∀ e, Src.codegen_polarity (algOf c) (modelOps c) (castMV x) false = .error e →
        e = "ZeroDivisionError" ∧ c.computeSign c.pss c.pss = 0) ∧
    (Src.codegen_polarity (algOf c) (modelOps c) (castMV x) false).toOption = (polarityGen c false x).map castMV ∧
    (Src.codegen_unpolarity (algOf c) (modelOps c) (castMV x)).toOption = some (castMV (gp c x [(c.pss, 1)])) := by
  refine ⟨fun e he => codegen_polarity_raises c x ?_ e he, codegen_polarity_eq c false x, ?_⟩
  · have := (Cfg.tableRange_of_adm c (Cfg.adm_of_admissible c h)) c.pss c.pss
    tauto
  · rw [codegen_unpolarity_eq]; rfl

end Kingdon.C05

/-
  C18 — matrix representations are faithful.
  Proved: the structure constants of ANY representation of the Clifford relations are kingdon's sign table; the
  Kronecker construction of matrixreps.py satisfies the Clifford relations for every signature and dimension; hence
  the blade matrices multiply like the blades.  The tabulated matrices executed by the driver (and diffed against
  `alg.matrix_basis` on every run) agree entry by entry with the function-level definitions the theorems are about.
  PARTIAL: the ordering transform (first column = coefficients, frommatrix) and expr_as_matrix (sympy collect/coeff) are
  validated by the correspondence / oracle only.
-/
import Kingdon.Lemmas.MatrixLemmas
namespace Kingdon.C18
open Kingdon.Mx

/-- **representation-independent**: in any ring, generators with the Clifford relations of `sig` multiply their ordered
    blade products with exactly the signs of the table (the table `_compute_sign` is proved to compute in C01).  Every
    representation of the generators is therefore multiplicative with respect to the geometric product. -/
theorem any_representation_is_multiplicative {R : Type} [Ring R] (sig : List Int) (g : Nat → R)
    (h : CliffordGens sig g) (I J : Nat) (hI : I < 2 ^ sig.length) (hJ : J < 2 ^ sig.length) :
    bladeProd g sig.length I * bladeProd g sig.length J =
      ((csign sig I J : Int) : R) * bladeProd g sig.length (I ^^^ J) :=
  bladeProd_mul sig g h I J hI hJ

/-- the generator matrices `E_i = I ⊗ … ⊗ S_i ⊗ Ip ⊗ … ⊗ Ip` of `matrix_rep` satisfy `E_i² = sig[i]` and anticommute,
    for every dimension and every signature ordering -/
theorem kronecker_generators_are_clifford (sig : List Int) (hs : SigRange sig) :
    CliffordGens sig (fun i => toM (2 ^ sig.length) (genMat sig i)) := genMat_clifford sig hs

/-- hence the blade matrices are multiplicative: R(I) R(J) = sign(I,J) R(I xor J) -/
theorem blade_matrices_multiplicative (sig : List Int) (hs : SigRange sig) (I J : Nat)
    (hI : I < 2 ^ sig.length) (hJ : J < 2 ^ sig.length) :
    toM (2 ^ sig.length) (bladeMat sig ((List.range sig.length).filter fun i => I.testBit i)) *
    toM (2 ^ sig.length) (bladeMat sig ((List.range sig.length).filter fun i => J.testBit i)) =
      ((csign sig I J : Int) : Matrix (Fin (2 ^ sig.length)) (Fin (2 ^ sig.length)) ℤ) *
      toM (2 ^ sig.length) (bladeMat sig ((List.range sig.length).filter fun i => (I ^^^ J).testBit i)) :=
  rep_mul sig hs I J hI hJ

/-- entry (a, b) of a Kronecker product of 2x2 blocks is the product of block entries at the binary digits of a, b -/
theorem kronecker_entry_formula (mats : List Mat) (a b : Nat) :
    kronAll mats a b =
      ((List.range mats.length).map fun k =>
        (mats[k]?.getD (fun _ _ => 1)) ((a / 2 ^ (mats.length - 1 - k)) % 2) ((b / 2 ^ (mats.length - 1 - k)) % 2)).prod :=
  kronAll_entry mats a b

/-- the matrices the driver prints (and the check compares with `alg.matrix_basis`) are the modelled ones -/
theorem executable_matrices_refine_model (c : Cfg) (m i j : Nat) (hm : m < c.basis.length)
    (hlen : c.basis.length = 2 ^ c.d) (hi : i < 2 ^ c.d) (hj : j < 2 ^ c.d) :
    ((dMatrixBasis c)[m]?.getD #[]).get i j = ((matrixBasis c)[m]?.getD (fun _ _ => 0)) i j :=
  dMatrixBasis_get c m i j hm hlen hi hj

/-- non-vacuity: the signature of 3D PGA in kingdon's order is in range -/
example : SigRange [0, 1, 1, 1] := by intro s hs; simp at hs; rcases hs with rfl | rfl <;> simp

end Kingdon.C18

/-
  C08 — results do not depend on how an operand is stored.
  Two stored lists denote the same element iff their denotations (coefficient per blade, absent = 0, repeated
  keys summed) agree; permutations and zero-padding (up to the full 2^d layouts) are special cases.  Every
  generator of Model/Codegen.lean maps equal denotations to equal denotations, for all coefficient rings.
-/
import Kingdon.Lemmas.Duality
import Kingdon.Lemmas.Keys
namespace Kingdon.C08
open Finsupp
variable {α : Type} [CommRing α]

/-- all product-type operators (gp, op, ip, lc, rc, sp, cp, acp, rp — any sign function, key-out function and
    filter): the result element depends only on the operand elements -/
theorem product_storage_independent (signf : Nat → Nat → Int) (keyout : Nat → Nat → Nat)
    (filt : Nat → Nat → Nat → Bool) (x x' y y' : MV α) (hx : den x = den x') (hy : den y = den y') :
    den (codegenProduct signf keyout filt x y) = den (codegenProduct signf keyout filt x' y') := by
  rw [codegenProduct_den, codegenProduct_den, hx, hy]

theorem add_storage_independent (x x' y y' : MV α) (hx : den x = den x') (hy : den y = den y') :
    den (add x y) = den (add x' y') := by rw [add_den, add_den, hx, hy]

theorem sub_storage_independent (x x' y y' : MV α) (hx : den x = den x') (hy : den y = den y') :
    den (sub x y) = den (sub x' y') := by rw [sub_den, sub_den, hx, hy]

theorem neg_storage_independent (x x' : MV α) (hx : den x = den x') : den (neg x) = den (neg x') := by
  rw [neg_den, neg_den, hx]

theorem involutions_storage_independent (gs : List Nat) (x x' : MV α) (hx : den x = den x') :
    den (involutions gs x) = den (involutions gs x') := by rw [involutions_den, involutions_den, hx]

theorem hodge_storage_independent (c : Cfg) (u : Bool) (x x' : MV α) (hx : den x = den x') :
    den (hodgeGen c u x) = den (hodgeGen c u x') := by rw [hodgeGen_den, hodgeGen_den, hx]

/-- a permutation of the stored (key, value) pairs denotes the same element -/
theorem perm_same_element (x x' : MV α) (h : x.Perm x') : den x = den x' := by
  unfold den
  exact (h.map _).sum_eq

/-- padding with explicit zeros denotes the same element -/
theorem zero_padding_same_element (x : MV α) (ks : List Nat) :
    den (x ++ ks.map fun k => (k, (0 : α))) = den x := by
  rw [den_append]
  have : den (ks.map fun k => (k, (0 : α))) = 0 := by
    induction ks with
    | nil => rfl
    | cons k ks ih => simp [ih]
  rw [this, add_zero]

/-- the full 2^d layouts (`asfullmv`, canonical or binary order) denote the same element -/
theorem full_layout_same_element (c : Cfg) (h : c.admissible = true) (canonical : Bool) (x : MV α)
    (hk : (keysOf x).Nodup) (hr : ∀ k ∈ keysOf x, k < 2 ^ c.d) : den (asfullmv c canonical x) = den x :=
  asfullmv_den c (Cfg.adm_of_admissible c h) (binOf_injective_of_admissible c h) canonical x hk hr

/-- non-vacuity: keys (1,2) with values (a,b) and keys (2,4,1) with values (b,0,a) denote the same element -/
example : den ([(1, (5 : Int)), (2, 7)] : MV Int) = den [(2, 7), (4, 0), (1, 5)] := by
  simp [den, add_comm]

end Kingdon.C08

/-
  C12 — symbolic evaluation commutes with numeric evaluation.
  Substituting numbers for symbols is a ring homomorphism φ of the coefficient ring; every generator of the model
  commutes with mapping φ over the stored coefficients (naturality), so "operate symbolically, then substitute"
  equals "substitute, then operate".  That sympy's simplifier returns a falsy value only for 0 is sympy's contract
  (trusted); for kingdon's own RationalPolynomial symbols it is proved (C06/C17).
-/
import Kingdon.Lemmas.Naturality
import Kingdon.Lemmas.MiscLemmas
namespace Kingdon.C12
open Finsupp
variable {α β : Type} [CommRing α] [CommRing β] (φ : α →+* β)

/-- all product-type operators (gp, op, ip, lc, rc, sp, cp, acp, rp) -/
theorem products_commute_with_substitution (signf : Nat → Nat → Int) (keyout : Nat → Nat → Nat)
    (filt : Nat → Nat → Nat → Bool) (x y : MV α) :
    mapV φ (codegenProduct signf keyout filt x y) = codegenProduct signf keyout filt (mapV φ x) (mapV φ y) :=
  codegenProduct_map_hom φ signf keyout filt x y

theorem add_commutes (x y : MV α) : mapV φ (add x y) = add (mapV φ x) (mapV φ y) := add_map_hom φ x y
theorem sub_commutes (x y : MV α) : mapV φ (sub x y) = sub (mapV φ x) (mapV φ y) := sub_map_hom φ x y
theorem neg_commutes (x : MV α) : mapV φ (neg x) = neg (mapV φ x) := neg_map_hom φ x
theorem involutions_commute (gs : List Nat) (x : MV α) :
    mapV φ (involutions gs x) = involutions gs (mapV φ x) := involutions_map_hom φ gs x
theorem hodge_commutes (c : Cfg) (u : Bool) (x : MV α) :
    mapV φ (hodgeGen c u x) = hodgeGen c u (mapV φ x) := hodgeGen_map_hom φ c u x
theorem grade_commutes (c : Cfg) (gs : List Nat) (x : MV α) :
    mapV φ (gradeSel c gs x) = gradeSel c gs (mapV φ x) := gradeSel_map_hom φ c gs x

/-- on denotations: substitution acts coefficient-wise -/
theorem denotation_commutes (x : MV α) : den (mapV φ x) = Finsupp.mapRange φ (map_zero φ) (den x) :=
  den_mapV_hom φ x

/-- calling a symbolic multivector: keyword arguments bind by name (whatever the order in which they are passed) ... -/
theorem keyword_arguments_bind_by_name {V : Type} (syms : List String) (kwargs : List (String × V))
    (hn : syms.Nodup) (hp : (kwargs.map (·.1)).Perm syms) :
    ∀ kv ∈ kwargs, kv ∈ Bind.bindKeyword syms kwargs := keyword_binds_by_name syms kwargs hn hp

/-- ... and positional arguments bind to the free symbols in name order -/
theorem positional_arguments_bind_in_name_order {V : Type} (syms : List String) (args : List V)
    (hl : args.length = syms.length) :
    (Bind.bindPositional syms args).map (·.1) = Bind.params syms ∧ (Bind.bindPositional syms args).map (·.2) = args ∧
    (Bind.params syms).Pairwise (fun a b => ¬ b < a) ∧ (Bind.params syms).Perm syms :=
  positional_binds_in_name_order syms args hl

end Kingdon.C12

/-
  C07 — reflection check (d = 4): the two Hitzer identities x*num(x) = scalar = num(x)*x, as polynomial identities in the 16
  symbolic coefficients, decided by kernel evaluation of the model on polynomial normal forms (`decide +kernel`).
-/
import Kingdon.Model.HitzerCheck
namespace Kingdon.C07
open Kingdon

set_option maxRecDepth 100000 in
theorem hitzer_check_sig_zppm : hitzerCheck (Cfg.default [0, 1, 1, -1] (Cfg.defaultStart [0, 1, 1, -1])) = true := by decide +kernel

end Kingdon.C07

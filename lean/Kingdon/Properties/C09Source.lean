/-
  C09 / C10 stated about the *translated source*: `OperatorDict.__getitem__`, `UnaryOperatorDict.__getitem__`,
  `Registry.__getitem__` and `UnaryOperatorDict.__call__` of the current operator_dict.py, as state transformers on
  (operator_dict, numspace), refine the abstract protocol the property theorems are about.
-/
import Kingdon.Properties.C09
import Kingdon.Lemmas.SourceOpDict
import Kingdon.Lemmas.SourceFuncNames
namespace Kingdon.C09
open Kingdon Kingdon.OD Kingdon.SrcEq

/-- one `__getitem__` of the source is one step of the abstract protocol: it returns the function generated for exactly
    (this operator, these ordered key tuples); a raising generation raises and leaves `operator_dict` and `numspace`
    exactly as they were (so the next call retries on an unpolluted state) -/
theorem source_getitem_is_protocol_step (canon : List Nat) (genFails : FuncId → Bool) (w : Bool) (op : Nat)
    (ko : KeysIn → List Nat) (s : Py.ODState KeysIn (List Nat) FuncId Name) (S : OD.State) (h : Rel op ko s S) (k : KeysIn) :
    let r := OD.getitem canon genFails S ⟨op, k⟩
    (r.2 = true → ∃ s', Py.runMethod (Src.operatordict_getitem (envOf canon genFails w op ko) k) s = (.ok (ko k, ⟨op, k⟩), s') ∧
        Rel op ko s' r.1) ∧
    (r.2 = false → ∃ e, Py.runMethod (Src.operatordict_getitem (envOf canon genFails w op ko) k) s = (.error e, s)) :=
  operatordict_getitem_refines canon genFails w op ko s S h k

/-- unary operators and registered functions use the same protocol (their `__getitem__` translate to the same term) -/
theorem source_getitem_variants_agree (env : Py.ODEnv KeysIn (List Nat) FuncId Name (List FuncId)) (k : KeysIn) :
    Src.unaryoperatordict_getitem env k = Src.operatordict_getitem env k ∧
    Src.registry_getitem env k = Src.operatordict_getitem env k :=
  ⟨unary_getitem_eq env k, registry_getitem_eq env k⟩

/-- **history independence at the source level**: from any python state related to a reachable model state, a call
    with numeric operands is served - directly, or by name through `numspace` when the algebra has a wrapper - by the
    function generated for exactly its own operator and ordered key tuple -/
theorem source_call_served_by_own_function (canon : List Nat) (hc : canon.Nodup) (w : Bool) (op : Nat)
    (ko : KeysIn → List Nat) (s : Py.ODState KeysIn (List Nat) FuncId Name) (hist : List FuncId)
    (h : Rel op ko s (run canon (fun _ => false) w init hist).1) (k : KeysIn) (vals : List FuncId) :
    ∃ s', Py.runMethod (Src.unaryoperatordict_call (envOf canon (fun _ => false) w op ko) ⟨k, false, vals⟩) s
        = (.ok (ko k, ⟨op, k⟩ :: vals), s') := by
  have hinv := reachable_inv canon hc (fun _ => false) w hist
  obtain ⟨s', hs', _⟩ := (unary_call_refines canon (fun _ => false) w op ko s _ h k vals).1 ⟨op, k⟩
    (by
      have := OD.history_independent canon hc (fun _ => false) w [⟨op, k⟩] _ hinv (by intro f _; rfl)
      simp only [List.map, run] at this
      simpa using congrArg List.head? this)
  exact ⟨s', hs'⟩

/-- **function names are unique as strings** (what fix ace2c46 established, now about the strings the source builds):
    `MultiVector.type_name` of the current source renders the model's type name, and the name `do_codegen` assembles,
    `<codegen.__name__>_<type name>_x_<type name>…`, determines the ordered key tuples of all operands — two different
    generated functions of one operator never share a slot of `Algebra.numspace` -/
theorem source_type_name_is_model (c : Cfg) (hb : c.basis ≠ []) (ks : List Nat) :
    Src.type_name (algOf c) (ks.map Int.ofNat) = .ok (typeNameStr (typeName c.canonKeys ks)) :=
  type_name_eq_partial c hb ks

theorem source_function_names_unique (canon : List Nat) (hc : canon.Nodup) (codegenName : List Char)
    (K K' : List (List Nat))
    (h : funcNameStr codegenName (K.map fun ks => typeNameStr (typeName canon ks)) =
         funcNameStr codegenName (K'.map fun ks => typeNameStr (typeName canon ks))) :
    K = K' :=
  source_names_unique canon hc codegenName K K' h

/-- non-vacuity: the translated python on the key tuples (1,2,4) and (2,1,4) of the 3-D Euclidean algebra -/
example : (Src.type_name (algOf (Cfg.default [1, 1, 1] 1)) [2, 1, 4]).toOption = some "14_o2_1_4".toList := by decide +kernel

end Kingdon.C09

/-
  C04 — sum, difference, negation, involutions and grade selection act blade-wise.
-/
import Kingdon.Lemmas.Linear
import Kingdon.Lemmas.Keys
import Kingdon.Lemmas.MiscLemmas
import Kingdon.Lemmas.CfgAlgebra
namespace Kingdon.C04
open Finsupp
variable {α : Type} [CommRing α]

theorem add_bladewise (x y : MV α) : den (add x y) = den x + den y := add_den x y
theorem sub_bladewise (x y : MV α) : den (sub x y) = den x - den y := sub_den x y
theorem neg_bladewise (x : MV α) : den (neg x) = - den x := neg_den x

/-- reverse / involute / conjugate multiply each blade by the sign of its grade mod 4 -/
theorem involutions_bladewise (gs : List Nat) (x : MV α) :
    den (involutions gs x) = lin (involSign gs) (den x) := involutions_den gs x

/-- each involution is an involution -/
theorem involution_involutive (gs : List Nat) (x : MV α) : involutions gs (involutions gs x) = x :=
  involutions_involutive gs x

/-- reverse multiplies grade k by (-1)^(k(k-1)/2) -/
theorem reverse_sign (k : Nat) : involSign [2, 3] k = (-1 : Int) ^ (popcount k * (popcount k - 1) / 2) :=
  involSign_reverse k
/-- grade involution multiplies grade k by (-1)^k -/
theorem involute_sign (k : Nat) : involSign [1, 3] k = (-1 : Int) ^ (popcount k) := involSign_involute k
/-- Clifford conjugation multiplies grade k by (-1)^(k(k+1)/2) -/
theorem conjugate_sign (k : Nat) : involSign [1, 2] k = (-1 : Int) ^ (popcount k * (popcount k + 1) / 2) :=
  involSign_conjugate k

/-- reverse is an anti-automorphism of the geometric product, in every admissible configuration -/
theorem reverse_is_antiautomorphism (c : Cfg) (h : c.admissible = true) (a b : ℕ →₀ α)
    (ha : InRange c a) (hb : InRange c b) :
    lin (involSign [2, 3]) (clMulS c.computeSign a b) =
      clMulS c.computeSign (lin (involSign [2, 3]) b) (lin (involSign [2, 3]) a) :=
  reverse_antiaut c (Cfg.adm_of_admissible c h) a b ha hb

theorem conjugate_is_antiautomorphism (c : Cfg) (h : c.admissible = true) (a b : ℕ →₀ α)
    (ha : InRange c a) (hb : InRange c b) :
    lin (involSign [1, 2]) (clMulS c.computeSign a b) =
      clMulS c.computeSign (lin (involSign [1, 2]) b) (lin (involSign [1, 2]) a) :=
  conjugate_antiaut c (Cfg.adm_of_admissible c h) a b ha hb

theorem involute_is_automorphism (c : Cfg) (h : c.admissible = true) (a b : ℕ →₀ α)
    (ha : InRange c a) (hb : InRange c b) :
    lin (involSign [1, 3]) (clMulS c.computeSign a b) =
      clMulS c.computeSign (lin (involSign [1, 3]) a) (lin (involSign [1, 3]) b) :=
  involute_aut c (Cfg.adm_of_admissible c h) a b ha hb

/-- **a.grade(..) returns exactly the stored coefficients of the requested grades**: every returned pair is a stored
    pair of a requested grade, and as an element the result is the grade projection -/
theorem grade_selection_exact (c : Cfg) (h : c.admissible = true) (gs : List Nat) (hgs : gs.Nodup) (x : MV α)
    (hk : (keysOf x).Nodup) (hr : ∀ k ∈ keysOf x, k < 2 ^ c.d) :
    (∀ kv ∈ gradeSel c gs x, kv ∈ x ∧ popcount kv.1 ∈ gs) ∧
    den (gradeSel c gs x) = (den x).filter (fun k => popcount k ∈ gs) :=
  ⟨fun kv hm => gradeSel_subset c (Cfg.adm_of_admissible c h) gs x kv hm,
   gradeSel_den c (Cfg.adm_of_admissible c h) (binOf_injective_of_admissible c h) gs hgs x hk hr⟩

/-- the grade sets (mod 4) the three involutions negate, extracted by probing the real codegen functions -/
theorem involution_grade_sets_extracted :
    Gen.invertGrades = [("reverse", [2, 3]), ("involute", [1, 3]), ("conjugate", [1, 2])] := involution_grade_sets

end Kingdon.C04

/-
  C04 — sum, difference, negation, involutions and grade selection act blade-wise.
-/
import Kingdon.Lemmas.Linear
namespace Kingdon.C04
open Finsupp
variable {α : Type} [CommRing α]

theorem add_bladewise (x y : MV α) : den (add x y) = den x + den y := add_den x y
theorem sub_bladewise (x y : MV α) : den (sub x y) = den x - den y := sub_den x y
theorem neg_bladewise (x : MV α) : den (neg x) = - den x := neg_den x

/-- reverse / involute / conjugate multiply each blade by the sign of its grade mod 4 -/
theorem involutions_bladewise (gs : List Nat) (x : MV α) :
    den (involutions gs x) = lin (involSign gs) (den x) := involutions_den gs x

/-- each involution is an involution -/
theorem involution_involutive (gs : List Nat) (x : MV α) : involutions gs (involutions gs x) = x :=
  involutions_involutive gs x

end Kingdon.C04

/-
  C15 stated about the *translated source*: the coefficient accessors `MultiVector.__getattr__`, `asfullmv`, `grade` of the
  current multivector.py.
-/
import Kingdon.Properties.C15
import Kingdon.Lemmas.SourceAccessors
namespace Kingdon.C15
open Kingdon Kingdon.SrcEq

/-- **attribute access with any spelling, in the source**: the python `__getattr__` returns the model's coefficient for every
    spelling over single hex digits (also the labels 14 = `e`, 15 = `f`) — the stored coefficient for the canonical spelling, its negative for an odd permutation, 0 for
    an absent blade and for a spelling that is no blade of the algebra — and never raises -/
theorem source_getattr_is_model {α : Type} [Neg α] [Zero α] (c : Cfg) (h : c.admissible = true)
    (ks : List Nat) (vs : List α) (hlen : ks.length = vs.length) (sp : List Nat) (hsp : ∀ l ∈ sp, l < 16) :
    Src.mv_getattr (algOf c) (ks.map Int.ofNat) vs (pyName sp) = .ok (Con.getattr c (ks, vs) sp) :=
  mv_getattr_eq c (Cfg.adm_of_admissible c h) (vecs16_of_admissible c h) ks vs hlen sp hsp

/-- `asfullmv` in the source: every blade of the algebra, absent ones as 0, in canonical or binary order -/
theorem source_asfullmv_is_model {α : Type} [Neg α] [Zero α] (c : Cfg) (h : c.admissible = true)
    (x : MV α) (canonical : Bool) :
    Src.mv_asfullmv (algOf c) ((x.map (·.1)).map Int.ofNat) (x.map (·.2)) canonical =
      .ok (((asfullmv c canonical x).map (·.1)).map Int.ofNat, (asfullmv c canonical x).map (·.2)) :=
  mv_asfullmv_eq c h x canonical

/-- `grade(*gs)` in the source: the stored coefficients of the requested grades in canonical order -/
theorem source_grade_is_model {α : Type} [Neg α] [Zero α] (c : Cfg) (h : c.admissible = true)
    (x : MV α) (gs : List Nat) (hgs : gs.Pairwise (· < ·)) (hd : ∀ g ∈ gs, g ≤ c.d) :
    Src.mv_grade (algOf c) ((x.map (·.1)).map Int.ofNat) (x.map (·.2)) (gs.map Int.ofNat) =
      .ok (((gradeSel c gs x).map (·.1)).map Int.ofNat, (gradeSel c gs x).map (·.2)) :=
  mv_grade_eq c h x gs hgs hd

/-- non-vacuity: `x.e31` of 7 e13 + 2 e1 in the 3-D Euclidean algebra is -7, and `x.e9` (no blade of the algebra) is 0 -/
example : (Src.mv_getattr (algOf (Cfg.default [1, 1, 1] 1)) [5, 1] [(7 : Int), 2] "e31".toList).toOption = some (-7) ∧
    (Src.mv_getattr (algOf (Cfg.default [1, 1, 1] 1)) [5, 1] [(7 : Int), 2] "e9".toList).toOption = some 0 := by decide +kernel

end Kingdon.C15

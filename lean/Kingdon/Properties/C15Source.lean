/-
  C15 stated about the *translated source*: the coefficient accessors `MultiVector.__getattr__`, `asfullmv`, `grade` of the
  current multivector.py.
-/
import Kingdon.Properties.C15
import Kingdon.Lemmas.SourceAccessors
import Kingdon.Lemmas.SourceKeywords
import Kingdon.Lemmas.ConstructLemmas
namespace Kingdon.C15
open Kingdon Kingdon.SrcEq

/-- **attribute access with any spelling, in the source**: the python `__getattr__` returns the model's coefficient for every
    spelling over single hex digits (also the labels 14 = `e`, 15 = `f`) — the stored coefficient for the canonical spelling, its negative for an odd permutation, 0 for
    an absent blade and for a spelling that is no blade of the algebra — and never raises -/
theorem source_getattr_is_model {α : Type} [Neg α] [Zero α] (c : Cfg) (h : c.admissible = true)
    (ks : List Nat) (vs : List α) (hlen : ks.length = vs.length) (sp : List Nat) (hsp : ∀ l ∈ sp, l < 16) :
    Src.mv_getattr (algOf c) (ks.map Int.ofNat) vs (pyName sp) = .ok (Con.getattr c (ks, vs) sp) :=
  mv_getattr_eq c (Cfg.adm_of_admissible c h) (vecs16_of_admissible c h) ks vs hlen sp hsp

/-- `asfullmv` in the source: every blade of the algebra, absent ones as 0, in canonical or binary order -/
theorem source_asfullmv_is_model {α : Type} [Neg α] [Zero α] (c : Cfg) (h : c.admissible = true)
    (x : MV α) (canonical : Bool) :
    Src.mv_asfullmv (algOf c) ((x.map (·.1)).map Int.ofNat) (x.map (·.2)) canonical =
      .ok (((asfullmv c canonical x).map (·.1)).map Int.ofNat, (asfullmv c canonical x).map (·.2)) :=
  mv_asfullmv_eq c h x canonical

/-- `grade(*gs)` in the source: the stored coefficients of the requested grades in canonical order -/
theorem source_grade_is_model {α : Type} [Neg α] [Zero α] (c : Cfg) (h : c.admissible = true)
    (x : MV α) (gs : List Nat) (hgs : gs.Pairwise (· < ·)) (hd : ∀ g ∈ gs, g ≤ c.d) :
    Src.mv_grade (algOf c) ((x.map (·.1)).map Int.ofNat) (x.map (·.2)) (gs.map Int.ofNat) =
      .ok (((gradeSel c gs x).map (·.1)).map Int.ofNat, (gradeSel c gs x).map (·.2)) :=
  mv_grade_eq c h x gs hgs hd

/-- non-vacuity: `x.e31` of 7 e13 + 2 e1 in the 3-D Euclidean algebra is -7, and `x.e9` (no blade of the algebra) is 0 -/
example : (Src.mv_getattr (algOf (Cfg.default [1, 1, 1] 1)) [5, 1] [(7 : Int), 2] "e31".toList).toOption = some (-7) ∧
    (Src.mv_getattr (algOf (Cfg.default [1, 1, 1] 1)) [5, 1] [(7 : Int), 2] "e9".toList).toOption = some 0 := by decide +kernel

/-- **keyword blades, from the source**: the keyword branch of `MultiVector.__new__` as translated from the python text is the
    model's `keywordBranch` — same result, `ValueError` exactly where the model refuses -/
theorem source_keyword_branch_is_model {α : Type} [Neg α] (c : Cfg) (h : c.admissible = true) (items : List (List Nat × α))
    (hd : (items.map (·.1)).Nodup) (h16 : ∀ p ∈ items, ∀ l ∈ p.1, l < 16) :
    Src.mv_new_keywords (algOf c) (castItems items) =
      match Con.keywordBranch c items with
      | .ok (ks, vs) => .ok (keyNames ks, vs)
      | .error _ => .error "ValueError" :=
  mv_new_keywords_eq c h items hd h16

/-- **nothing dropped, nothing negated**: if every keyword is some spelling of a basis blade and no blade is named twice, the
    python keyword branch returns, and what it returns are exactly the supplied items under their canonical names, each value
    negated exactly when its spelling is an odd permutation of the canonical one (`Con.canonItem`) -/
theorem source_keyword_blades_kept {α : Type} [Neg α] (c : Cfg) (h : c.admissible = true) (items : List (List Nat × α)) (hne : items ≠ [])
    (hsp : ∀ it ∈ items, ∃ n ∈ c.basis, it.1.Perm n) (hdist : (items.map fun it => c.binOf it.1).Nodup) :
    ∃ sel : List (List Nat × α), sel ≠ [] ∧
      Src.mv_new_keywords (algOf c) (castItems items) = .ok (sel.map (fun p => pyName p.1), sel.map (·.2)) ∧
      (∀ p, p ∈ sel ↔ p ∈ items.map (Con.canonItem c)) := by
  have hadm := Cfg.adm_of_admissible c h
  obtain ⟨sel, hsne, hkb, hmem⟩ := Con.keywordBranch_spec c hadm items hne hsp hdist
  have hd : (items.map (·.1)).Nodup := by
    have e : items.map (fun it => c.binOf it.1) = (items.map (·.1)).map (fun n => c.binOf n) := by
      rw [List.map_map]; rfl
    rw [e] at hdist
    exact List.Nodup.of_map _ hdist
  have h16 : ∀ p ∈ items, ∀ l ∈ p.1, l < 16 := by
    intro p hp l hl
    obtain ⟨n, hn, hperm⟩ := hsp p hp
    exact vecs16_of_admissible c h l (hadm.names_letters n hn l (hperm.mem_iff.mp hl))
  refine ⟨sel, hsne, ?_, hmem⟩
  rw [mv_new_keywords_eq c h items hd h16, hkb]
  simp [keyNames, List.map_map, Function.comp_def]

end Kingdon.C15

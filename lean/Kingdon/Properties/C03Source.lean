/-
  C03 stated about the *translated source*: `codegen_op/ip/lc/rc/sp/cp/acp` of the current codegen.py.
-/
import Kingdon.Properties.C03
import Kingdon.Lemmas.SourceProducts
namespace Kingdon.C03
open Kingdon Kingdon.SrcEq Finsupp
variable {α : Type} [CommRing α] (c : Cfg) (h : c.admissible = true)
include h

/-- a ^ b in the source: the grade r+s parts -/
theorem source_op_refines (x y : MV α) :
    ∃ r : MV α, Src.codegen_op (algOf c) (castMV x) (castMV y) = .ok (castMV r) ∧
      den r = bilin (gradedTable c.computeSign fun r s g => g == r + s) (· ^^^ ·) (den x) (den y) :=
  ⟨op c x y, codegen_op_eq c x y, op_refines c (table_hypotheses_hold c h).1 x y⟩

/-- a | b in the source: the grade |r-s| parts -/
theorem source_ip_refines (x y : MV α) :
    ∃ r : MV α, Src.codegen_ip (algOf c) (castMV x) (castMV y) Py.abs = .ok (castMV r) ∧
      den r = bilin (gradedTable c.computeSign fun r s g => g + r == s || g + s == r) (· ^^^ ·) (den x) (den y) :=
  ⟨ip c x y, codegen_ip_eq c x y, ip_refines c (table_hypotheses_hold c h).1 x y⟩

/-- a.lc(b) in the source: the grade s-r parts -/
theorem source_lc_refines (x y : MV α) :
    ∃ r : MV α, Src.codegen_lc (algOf c) (castMV x) (castMV y) = .ok (castMV r) ∧
      den r = bilin (gradedTable c.computeSign fun r s g => g + r == s) (· ^^^ ·) (den x) (den y) :=
  ⟨lc c x y, codegen_lc_eq c x y, lc_refines c (table_hypotheses_hold c h).1 x y⟩

/-- a.rc(b) in the source: the grade r-s parts -/
theorem source_rc_refines (x y : MV α) :
    ∃ r : MV α, Src.codegen_rc (algOf c) (castMV x) (castMV y) = .ok (castMV r) ∧
      den r = bilin (gradedTable c.computeSign fun r s g => g + s == r) (· ^^^ ·) (den x) (den y) :=
  ⟨rc c x y, codegen_rc_eq c x y, rc_refines c (table_hypotheses_hold c h).1 x y⟩

/-- a.sp(b) in the source: the grade 0 part -/
theorem source_sp_refines (x y : MV α) :
    ∃ r : MV α, Src.codegen_sp (algOf c) (castMV x) (castMV y) = .ok (castMV r) ∧
      den r = bilin (gradedTable c.computeSign fun _ _ g => g == 0) (· ^^^ ·) (den x) (den y) :=
  ⟨sp c x y, codegen_sp_eq c x y, sp_refines c (table_hypotheses_hold c h).1 x y⟩

/-- 2 a.cp(b) = ab - ba and 2 a.acp(b) = ab + ba in the source -/
theorem source_cp_acp (x y : MV α) :
    ∃ r s : MV α, Src.codegen_cp (algOf c) (castMV x) (castMV y) = .ok (castMV r) ∧
      Src.codegen_acp (algOf c) (castMV x) (castMV y) = .ok (castMV s) ∧
      den r + den r = clMulS c.computeSign (den x) (den y) - clMulS c.computeSign (den y) (den x) ∧
      den s + den s = clMulS c.computeSign (den x) (den y) + clMulS c.computeSign (den y) (den x) :=
  ⟨cp c x y, acp c x y, codegen_cp_eq c x y, codegen_acp_eq c x y,
   two_cp c (table_hypotheses_hold c h).1 (table_hypotheses_hold c h).2 x y,
   two_acp c (table_hypotheses_hold c h).1 (table_hypotheses_hold c h).2 x y⟩

end Kingdon.C03

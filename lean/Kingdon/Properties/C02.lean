/-
  C02 — the geometric product of sparse multivectors equals the bilinear extension.
-/
import Kingdon.Lemmas.GpDen
import Kingdon.Lemmas.Keys
import Kingdon.Lemmas.Products
import Kingdon.Lemmas.CfgAlgebra
namespace Kingdon.C02
open Finsupp
variable {α : Type} [CommRing α]

/-- Refinement theorem for `codegen_product`: for all key tuples in any order (with repetitions or empty)
    and all values of any commutative ring, the accumulated dictionary denotes the bilinear extension of
    the (filtered, sign-collapsed) blade table: no term omitted, duplicated or misattributed. -/
theorem codegen_product_refines (signf : Nat → Nat → Int) (keyout : Nat → Nat → Nat)
    (filt : Nat → Nat → Nat → Bool) (x y : List (Nat × α)) :
    den (codegenProduct signf keyout filt x y) =
      bilin (effSign signf keyout filt) keyout (den x) (den y) :=
  codegenProduct_den signf keyout filt x y

/-- `codegen_gp` over the canonical table is the Clifford product. -/
theorem gp_is_clifford_product (sig : List Int) (h : SigOK sig) (x y : List (Nat × α)) :
    den (codegenProduct (csign sig) (· ^^^ ·) noFilter x y) = clMul sig (den x) (den y) :=
  gp_den_csign sig h x y

/-- The specification product is associative for every cocycle table. -/
theorem clifford_product_assoc {s : Nat → Nat → Int} (hs : IsCocycle s) (a b c : ℕ →₀ α) :
    clMulS s (clMulS s a b) c = clMulS s a (clMulS s b c) :=
  clMulS_assoc hs a b c

/-- **C02 for the model of the real algebra** (default or custom basis): `a*b` denotes the bilinear extension
    of the stored sign table, for all key tuples in any order and all values of any commutative ring. -/
theorem gp_refines (c : Cfg) (hr : TableRange c.computeSign) (x y : MV α) :
    den (gp c x y) = clMulS c.computeSign (den x) (den y) :=
  gp_den c hr x y

/-- C02 for every admissible configuration, with the product proved associative on multivectors of the algebra -/
theorem gp_refines_admissible (c : Cfg) (h : c.admissible = true) (x y : MV α) :
    den (gp c x y) = clMulS c.computeSign (den x) (den y) :=
  gp_den c (Cfg.tableRange_of_adm c (Cfg.adm_of_admissible c h)) x y

theorem product_associative (c : Cfg) (h : c.admissible = true) (a b d : ℕ →₀ α)
    (ha : InRange c a) (hb : InRange c b) (hd : InRange c d) :
    clMulS c.computeSign (clMulS c.computeSign a b) d = clMulS c.computeSign a (clMulS c.computeSign b d) :=
  clMulS_assoc_cfg c (Cfg.adm_of_admissible c h) a b d ha hb hd

/-- **every blade that can receive a non-zero coefficient is present**: a blade is stored in the result exactly if
    some pair of stored input blades contributes a term to it (non-zero table sign, accepted by the filter); no blade
    is stored twice; a non-zero coefficient only ever sits on a stored blade -/
theorem result_blades_exact (signf : Nat → Nat → Int) (keyout : Nat → Nat → Nat) (filt : Nat → Nat → Nat → Bool)
    (x y : MV α) (k : Nat) :
    (k ∈ keysOf (codegenProduct signf keyout filt x y) ↔
      ∃ p ∈ x, ∃ q ∈ y, signf p.1 q.1 ≠ 0 ∧ filt p.1 q.1 (keyout p.1 q.1) = true ∧ keyout p.1 q.1 = k) ∧
    (keysOf (codegenProduct signf keyout filt x y)).Nodup :=
  ⟨mem_keys_codegenProduct signf keyout filt x y k, codegenProduct_keys_nodup signf keyout filt x y⟩

theorem nonzero_coefficient_is_stored (x : MV α) (k : Nat) (h : (den x) k ≠ 0) : k ∈ keysOf x :=
  den_ne_zero_mem_keys x k h

/-- the canonical re-sorting of `do_codegen` keeps exactly the produced blades with their coefficients -/
theorem canonical_resorting_exact (c : Cfg) (h : c.admissible = true) (x : MV α) (hk : (keysOf x).Nodup)
    (hr : ∀ k ∈ keysOf x, k < 2 ^ c.d) :
    den (sortCanon c x) = den x ∧ keysOf (sortCanon c x) = c.canonKeys.filter (· ∈ keysOf x) :=
  ⟨sortCanon_den c (Cfg.adm_of_admissible c h) (binOf_injective_of_admissible c h) x hk hr, sortCanon_keys c x⟩

/-- non-vacuity of `SigOK`: 3DPGA -/
example : SigOK [0, 1, 1, 1] := by intro s hs; simp at hs; rcases hs with rfl | rfl <;> simp

end Kingdon.C02

/-
  C02 — the geometric product of sparse multivectors equals the bilinear extension.
-/
import Kingdon.Lemmas.GpDen
import Kingdon.Lemmas.Products
import Kingdon.Lemmas.CfgAlgebra
namespace Kingdon.C02
open Finsupp
variable {α : Type} [CommRing α]

/-- Refinement theorem for `codegen_product`: for all key tuples in any order (with repetitions or empty)
    and all values of any commutative ring, the accumulated dictionary denotes the bilinear extension of
    the (filtered, sign-collapsed) blade table: no term omitted, duplicated or misattributed. -/
theorem codegen_product_refines (signf : Nat → Nat → Int) (keyout : Nat → Nat → Nat)
    (filt : Nat → Nat → Nat → Bool) (x y : List (Nat × α)) :
    den (codegenProduct signf keyout filt x y) =
      bilin (effSign signf keyout filt) keyout (den x) (den y) :=
  codegenProduct_den signf keyout filt x y

/-- `codegen_gp` over the canonical table is the Clifford product. -/
theorem gp_is_clifford_product (sig : List Int) (h : SigOK sig) (x y : List (Nat × α)) :
    den (codegenProduct (csign sig) (· ^^^ ·) noFilter x y) = clMul sig (den x) (den y) :=
  gp_den_csign sig h x y

/-- The specification product is associative for every cocycle table. -/
theorem clifford_product_assoc {s : Nat → Nat → Int} (hs : IsCocycle s) (a b c : ℕ →₀ α) :
    clMulS s (clMulS s a b) c = clMulS s a (clMulS s b c) :=
  clMulS_assoc hs a b c

/-- **C02 for the model of the real algebra** (default or custom basis): `a*b` denotes the bilinear extension
    of the stored sign table, for all key tuples in any order and all values of any commutative ring. -/
theorem gp_refines (c : Cfg) (hr : TableRange c.computeSign) (x y : MV α) :
    den (gp c x y) = clMulS c.computeSign (den x) (den y) :=
  gp_den c hr x y

/-- C02 for every admissible configuration, with the product proved associative on multivectors of the algebra -/
theorem gp_refines_admissible (c : Cfg) (h : c.admissible = true) (x y : MV α) :
    den (gp c x y) = clMulS c.computeSign (den x) (den y) :=
  gp_den c (Cfg.tableRange_of_adm c (Cfg.adm_of_admissible c h)) x y

theorem product_associative (c : Cfg) (h : c.admissible = true) (a b d : ℕ →₀ α)
    (ha : InRange c a) (hb : InRange c b) (hd : InRange c d) :
    clMulS c.computeSign (clMulS c.computeSign a b) d = clMulS c.computeSign a (clMulS c.computeSign b d) :=
  clMulS_assoc_cfg c (Cfg.adm_of_admissible c h) a b d ha hb hd

/-- non-vacuity of `SigOK`: 3DPGA -/
example : SigOK [0, 1, 1, 1] := by intro s hs; simp at hs; rcases hs with rfl | rfl <;> simp

end Kingdon.C02

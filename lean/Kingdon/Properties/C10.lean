/-
  C10 — code is generated at most once per operator and key pattern.
-/
import Kingdon.Lemmas.OpDictLemmas
namespace Kingdon.C10
open Kingdon.OD

/-- In every sequential history — any operators, ordered key patterns, failing generations, with or without a
    wrapper — every (operator, ordered key pattern) is generated at most once.  Coefficient values and their
    types do not occur in the protocol state at all: the cache key is a function of the key tuples only. -/
theorem generated_at_most_once (canon : List Nat) (hc : canon.Nodup) (genFails : FuncId → Bool) (w : Bool)
    (h : List FuncId) (f : FuncId) : (run canon genFails w init h).1.gens.count f ≤ 1 :=
  generate_at_most_once canon hc genFails w h f

/-- A call whose pattern is already cached changes nothing (no generation, no compilation, no rebinding). -/
theorem cached_call_is_free (canon : List Nat) (genFails : FuncId → Bool) (w : Bool) (s : State)
    (f : FuncId) (hf : f ∈ s.cache) : (call canon genFails w s f).1 = s :=
  cached_call_generates_nothing canon genFails w s f hf

/-- non-vacuity: a history that repeats a pattern and interleaves a permuted one -/
example : (run [0, 1, 2, 3] (fun _ => false) true init
    [⟨0, [[1, 2], [3]]⟩, ⟨0, [[2, 1], [3]]⟩, ⟨0, [[1, 2], [3]]⟩]).1.gens.length = 2 := by decide

end Kingdon.C10

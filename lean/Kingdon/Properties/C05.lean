/-
  C05 — duality maps invert each other and define the regressive product.
-/
import Kingdon.Lemmas.Linear
import Kingdon.Lemmas.MiscLemmas
import Kingdon.Lemmas.Duality
namespace Kingdon.C05
open Finsupp
variable {α : Type} [CommRing α]

/-- undual(dual(x)) = x for Hodge duality, for every stored layout with keys inside the algebra -/
theorem unhodge_hodge_id (c : Cfg) (x : MV α) (hk : ∀ p ∈ x, p.1 ≤ c.pss) : unhodge c (hodge c x) = x :=
  unhodge_hodge c x hk

theorem hodge_unhodge_id (c : Cfg) (x : MV α) (hk : ∀ p ∈ x, p.1 ≤ c.pss) : hodge c (unhodge c x) = x :=
  hodge_unhodge c x hk

/-- every basis blade E satisfies E ^ hodge(E) = pseudoscalar -/
theorem blade_wedge_its_hodge_dual (c : Cfg) (h : c.admissible = true) (I : Nat) (hI : I < 2 ^ c.d) :
    den (op c [(I, (1 : α))] (hodge c [(I, (1 : α))])) = single c.pss 1 :=
  blade_wedge_hodge c (Cfg.adm_of_admissible c h) I hI

/-- polarity raises ZeroDivisionError exactly when the metric is degenerate; unpolarity never raises -/
theorem polarity_raises_iff_degenerate (c : Cfg) (h : c.admissible = true) (x : MV α) :
    polarityGen c false x = none ↔ (0 : Int) ∈ c.signature :=
  polarity_raises_iff c (Cfg.adm_of_admissible c h) x

/-- polarity(x) = x * pss⁻¹ (pss⁻¹ = pss² • pss, pss² = ±1) -/
theorem polarity_is_mul_inverse_pss (c : Cfg) (h : c.admissible = true) (x y : MV α)
    (hx : polarityGen c false x = some y) :
    den y = clMulS c.computeSign (den x) (single c.pss ((c.computeSign c.pss c.pss : Int) : α)) :=
  polarity_den c (Cfg.adm_of_admissible c h) x y hx

theorem unpolarity_polarity_id (c : Cfg) (h : c.admissible = true) (x y z : MV α) (hx : ∀ p ∈ x, p.1 < 2 ^ c.d)
    (h1 : polarityGen c false x = some y) (h2 : polarityGen c true y = some z) : den z = den x :=
  unpolarity_polarity c (Cfg.adm_of_admissible c h) x y z hx h1 h2

theorem polarity_unpolarity_id (c : Cfg) (h : c.admissible = true) (x y z : MV α) (hx : ∀ p ∈ x, p.1 < 2 ^ c.d)
    (h1 : polarityGen c true x = some y) (h2 : polarityGen c false y = some z) : den z = den x :=
  polarity_unpolarity c (Cfg.adm_of_admissible c h) x y z hx h1 h2

/-- a & b = unhodge(hodge(a) ^ hodge(b)) for all operands and storage patterns -/
theorem regressive_is_dual_of_outer (c : Cfg) (h : c.admissible = true) (x y : MV α)
    (hx : ∀ p ∈ x, p.1 < 2 ^ c.d) (hy : ∀ p ∈ y, p.1 < 2 ^ c.d) :
    den (rp c x y) = den (unhodge c (op c (hodge c x) (hodge c y))) :=
  rp_den c (Cfg.adm_of_admissible c h) x y hx hy

/-- the pseudoscalar is the identity of the regressive product -/
theorem pss_is_regressive_identity (c : Cfg) (h : c.admissible = true) (y : MV α) (hy : ∀ p ∈ y, p.1 < 2 ^ c.d) :
    den (rp c [(c.pss, (1 : α))] y) = den y ∧ den (rp c y [(c.pss, (1 : α))]) = den y :=
  ⟨rp_pss_left c (Cfg.adm_of_admissible c h) y hy, rp_pss_right c (Cfg.adm_of_admissible c h) y hy⟩

/-- dual()/undual() select polarity for non-degenerate metrics (r = 0), Hodge duality when exactly one generator is
    null (r = 1) and raise otherwise (table re-extracted from the source on every run) -/
theorem dual_selects_kind :
    (Gen.dualDispatch.filter (·.1 == "mv")) =
      [("mv", "dual", 0, "polarity"), ("mv", "undual", 0, "unpolarity"), ("mv", "dual", 1, "hodge"),
       ("mv", "undual", 1, "unhodge"), ("mv", "dual", 2, "raises:Exception"), ("mv", "undual", 2, "raises:Exception")] :=
  dual_kind_selection

/-- non-vacuity: a permuted sparse 3DPGA multivector has its keys inside the algebra -/
example : ∀ p ∈ ([(9, (2 : Int)), (3, 5), (15, 1)] : MV Int), p.1 ≤ (Cfg.default [0, 1, 1, 1] 0).pss := by decide

end Kingdon.C05

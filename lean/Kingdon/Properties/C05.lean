/-
  C05 — duality maps invert each other and define the regressive product.
-/
import Kingdon.Lemmas.Linear
namespace Kingdon.C05
variable {α : Type} [CommRing α]

/-- undual(dual(x)) = x for Hodge duality, for every stored layout with keys inside the algebra -/
theorem unhodge_hodge_id (c : Cfg) (x : MV α) (hk : ∀ p ∈ x, p.1 ≤ c.pss) : unhodge c (hodge c x) = x :=
  unhodge_hodge c x hk

theorem hodge_unhodge_id (c : Cfg) (x : MV α) (hk : ∀ p ∈ x, p.1 ≤ c.pss) : hodge c (unhodge c x) = x :=
  hodge_unhodge c x hk

/-- non-vacuity: a permuted sparse 3DPGA multivector has its keys inside the algebra -/
example : ∀ p ∈ ([(9, (2 : Int)), (3, 5), (15, 1)] : MV Int), p.1 ≤ (Cfg.default [0, 1, 1, 1] 0).pss := by decide

end Kingdon.C05

/-
  C10 stated about the *translated source*: the generation log of `OperatorDict.__getitem__` (the completed
  `do_codegen` / `do_compile` calls) along histories of lookups.
-/
import Kingdon.Properties.C10
import Kingdon.Lemmas.SourceOpDictHistory
namespace Kingdon.C10
open Kingdon Kingdon.OD Kingdon.SrcEq

/-- **at most one generation per key pattern, at the source level**: along every history of lookups on a fresh operator
    dictionary - repeated patterns, generations that raise and are retried, with or without a wrapper - no key pattern
    is generated twice -/
theorem source_generated_at_most_once (canon : List Nat) (genFails : FuncId → Bool) (w : Bool) (op : Nat)
    (ko : KeysIn → List Nat) (ks : List KeysIn) :
    (srcHistory (envOf canon genFails w op ko) ⟨[], [], []⟩ ks).gens.Nodup :=
  source_gens_nodup canon genFails w op ko ks

/-- a lookup of a cached pattern is free: the python returns the cached pair and leaves `operator_dict`, `numspace` and the
    generation log exactly as they were -/
theorem source_cached_lookup_free (canon : List Nat) (genFails : FuncId → Bool) (w : Bool) (op : Nat)
    (ko : KeysIn → List Nat) (s : Py.ODState KeysIn (List Nat) FuncId Name) (S : OD.State) (h : Rel op ko s S)
    (k : KeysIn) (hk : Py.dictHas s.operator_dict k = true) :
    Py.runMethod (Src.operatordict_getitem (envOf canon genFails w op ko) k) s = (.ok (ko k, ⟨op, k⟩), s) :=
  source_cached_lookup_is_free canon genFails w op ko s S h k hk

/-- the same protocol serves unary operators and registered functions -/
theorem source_same_protocol_everywhere (env : Py.ODEnv KeysIn (List Nat) FuncId Name (List FuncId)) (k : KeysIn) :
    Src.unaryoperatordict_getitem env k = Src.operatordict_getitem env k ∧
    Src.registry_getitem env k = Src.operatordict_getitem env k :=
  ⟨unary_getitem_eq env k, registry_getitem_eq env k⟩

/-- non-vacuity: the translated python on the history [p, q, p] generates twice -/
example : (srcHistory (envOf [0, 1, 2, 3] (fun _ => false) true 0 (fun _ => []))
    ⟨[], [], []⟩ [[[1, 2], [3]], [[2, 1], [3]], [[1, 2], [3]]]).gens.length = 2 := by decide +kernel

end Kingdon.C10

/-
  C09 — results depend only on the operands, never on earlier operations.
  Statements about the abstract get-or-generate protocol of the operator dictionaries (Model/OpDict.lean);
  atomicity of single dict operations under the GIL is an assumption.
-/
import Kingdon.Lemmas.OpDictLemmas
namespace Kingdon.C09
open Kingdon.OD

/-- Generated function names determine the operator and the ordered key tuples, so two different generated
    functions never share a slot of `Algebra.numspace` (this is what the `fix:` commit ace2c46 established). -/
theorem names_are_unique (canon : List Nat) (hc : canon.Nodup) (f g : FuncId)
    (h : name canon f = name canon g) : f = g :=
  name_injective canon hc f g h

/-- From every reachable state — whatever operators, key patterns, key orders or failing calls ran before, with
    or without a wrapper — each call is served by the function generated for exactly its own operator and
    ordered key tuple, or raises if its own generation raises. -/
theorem history_independent (canon : List Nat) (hc : canon.Nodup) (genFails : FuncId → Bool) (w : Bool)
    (h : List FuncId) (s : State) (hs : Inv canon s) (hfail : ∀ f ∈ s.cache, genFails f = false) :
    (run canon genFails w s h).2 = h.map (fun f => if genFails f then none else some f) :=
  OD.history_independent canon hc genFails w h s hs hfail

/-- the invariant holds in every state reachable from a fresh algebra -/
theorem reachable_inv (canon : List Nat) (hc : canon.Nodup) (genFails : FuncId → Bool) (w : Bool)
    (h : List FuncId) : Inv canon (run canon genFails w init h).1 :=
  inv_run canon hc genFails w h init (inv_init canon)

/-- A call whose generation raises leaves the shared state unchanged. -/
theorem failing_call_preserves_state (canon : List Nat) (genFails : FuncId → Bool) (w : Bool) (s : State)
    (f : FuncId) (hf : f ∉ s.cache) (hg : genFails f = true) :
    call canon genFails w s f = (s, none) :=
  OD.failing_call_preserves_state canon genFails w s f hf hg

/-- Under every interleaving of the atomic steps of any number of threads calling operators on one shared
    algebra, every completed call was served by its own function. -/
theorem interleaving_correct (canon : List Nat) (hc : canon.Nodup) (w : Bool) (fs : List FuncId)
    (sched : List Nat) (t : Thread) (r : Option FuncId)
    (ht : t ∈ (runSchedule canon w init (fs.map fun f => ⟨f, .start⟩) sched).2) (hr : t.pc = .done r) :
    r = some t.f :=
  OD.interleaving_correct canon hc w fs sched t r ht hr

/-- non-vacuity: two threads racing on permuted key tuples of the same blades, with a wrapper -/
example : ((runSchedule [0, 1, 2, 3] true init
    [⟨⟨0, [[1, 2], [3]]⟩, .start⟩, ⟨⟨0, [[2, 1], [3]]⟩, .start⟩] [0, 1, 0, 1, 1, 0, 0, 1]).2.map (·.pc)) =
    [.done (some ⟨0, [[1, 2], [3]]⟩), .done (some ⟨0, [[2, 1], [3]]⟩)] := by decide

end Kingdon.C09

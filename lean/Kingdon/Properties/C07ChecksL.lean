/-
  C07 — reflection check (d = 4, kingdon's named 3DPGA basis: custom spellings e31, e032, e013, e021 and generator order e1 e2 e3 e0): the two Hitzer identities x*num(x) = scalar = num(x)*x, as polynomial identities in the 16
  symbolic coefficients, decided by kernel evaluation of the model on polynomial normal forms (`decide +kernel`).
-/
import Kingdon.Model.HitzerCheck
namespace Kingdon.C07
open Kingdon

set_option maxRecDepth 100000 in
theorem hitzer_check_3dpga_named : hitzerCheck (Cfg.custom [0, 1, 1, 1] [[], [1], [2], [3], [0], [0, 1], [0, 2], [0, 3], [1, 2], [3, 1], [2, 3], [0, 3, 2], [0, 1, 3], [0, 2, 1], [1, 2, 3], [0, 1, 2, 3]]) = true := by decide +kernel

end Kingdon.C07

/-
  C02 stated about the *translated source*: what `codegen_gp` / `codegen_product` of the current codegen.py compute.
-/
import Kingdon.Properties.C02
import Kingdon.Lemmas.SourceProducts
namespace Kingdon.C02
open Kingdon Kingdon.SrcEq Finsupp
variable {α : Type} [CommRing α]

/-- **C02 about the source**: for every admissible algebra, all key tuples in any order (repeated keys, empty
    operands) and all coefficients of a commutative ring, the python `codegen_gp` of the current source returns
    (without raising) a dictionary that denotes the bilinear extension of the sign table. -/
theorem source_gp_refines (c : Cfg) (h : c.admissible = true) (x y : MV α) :
    ∃ r : MV α, Src.codegen_gp (algOf c) (castMV x) (castMV y) = .ok (castMV r) ∧
      den r = clMulS c.computeSign (den x) (den y) :=
  ⟨gp c x y, codegen_gp_eq c x y, gp_refines_admissible c h x y⟩

/-- the loop of `codegen_product` in the source, for arbitrary sign / key-out / filter functions: no term omitted,
    duplicated or misattributed -/
theorem source_codegen_product_refines (alg : Src.Alg) (signf : Nat → Nat → Int) (keyout : Nat → Nat → Nat)
    (filt : Nat → Nat → Nat → Bool) (x y : MV α) :
    ∃ r : MV α,
      Src.codegen_product alg (castMV x) (castMV y)
        (some fun a b k => filt a.toNat b.toNat k.toNat) (some fun p => signf p.1.toNat p.2.toNat)
        (fun a b => Int.ofNat (keyout a.toNat b.toNat)) = .ok (castMV r) ∧
      den r = bilin (effSign signf keyout filt) keyout (den x) (den y) :=
  ⟨codegenProduct signf keyout filt x y,
   codegen_product_eq alg signf keyout filt _ _ _ x y (fun _ _ _ _ => rfl) (fun _ _ _ _ => rfl) (fun _ _ _ _ => rfl),
   codegen_product_refines signf keyout filt x y⟩

/-- non-vacuity: the translated python on (2 e1 + 3 e2) * (5 e1) in the Euclidean plane -/
example : Src.codegen_gp (algOf (Cfg.default [1, 1] 1)) [(1, (2 : Int)), (2, 3)] [(1, 5)] = .ok [(0, 10), (3, -15)] := by
  decide +kernel

end Kingdon.C02

/-
  Consequences of the twist theorem at the level of multivectors (finitely supported coefficient functions):
  table symmetry (C03 cp/acp), anti-automorphisms (C04), duality (C05), the relabelling isomorphism (C14).
-/
import Kingdon.Lemmas.CfgSign
import Kingdon.Lemmas.Products
import Kingdon.Lemmas.Linear
import Kingdon.Lemmas.Reverse
namespace Kingdon
open Finsupp
namespace Cfg

theorem tableRange_of_adm (c : Cfg) (h : Adm c) : TableRange c.computeSign := by
  sorry

/-- `e_J e_I = ± e_I e_J` for the stored table, for all keys (also outside the algebra, where the model's
    table is trivially 1) -/
theorem tableSymm_of_adm (c : Cfg) (h : Adm c) : TableSymm c.computeSign := by
  sorry

/-- disjoint blades never multiply to zero -/
theorem computeSign_disjoint (c : Cfg) (h : Adm c) (I J : Nat) (hI : I < 2 ^ c.d) (hJ : J < 2 ^ c.d)
    (hd : I &&& J = 0) : c.computeSign I J = 1 ∨ c.computeSign I J = -1 := by
  sorry

/-- the pseudoscalar squares to zero exactly for degenerate metrics -/
theorem pss_sq_zero_iff (c : Cfg) (h : Adm c) : c.computeSign c.pss c.pss = 0 ↔ (0 : Int) ∈ c.signature := by
  sorry

/-- in a default basis every name is ascending, so all orientations are +1 -/
theorem epsK_default (sig : List Int) (start : Nat) (I : Nat) (hI : I < 2 ^ sig.length)
    (h : Adm (Cfg.default sig start)) : (Cfg.default sig start).epsK I = 1 := by
  sorry

end Cfg

/-! ### sign rules of the involutions (C04) -/

theorem involSign_reverse (k : Nat) :
    involSign [2, 3] k = (-1 : Int) ^ (popcount k * (popcount k - 1) / 2) := by
  sorry

theorem involSign_involute (k : Nat) : involSign [1, 3] k = (-1 : Int) ^ (popcount k) := by
  sorry

theorem involSign_conjugate (k : Nat) :
    involSign [1, 2] k = (-1 : Int) ^ (popcount k * (popcount k + 1) / 2) := by
  sorry

noncomputable section
variable {α : Type} [CommRing α]

/-- all stored blades lie inside the algebra -/
def InRange (c : Cfg) (a : ℕ →₀ α) : Prop := ∀ k ∈ a.support, k < 2 ^ c.d

theorem inRange_den (c : Cfg) (x : MV α) (hx : ∀ p ∈ x, p.1 < 2 ^ c.d) : InRange c (den x) := by
  sorry

theorem inRange_clMulS (c : Cfg) (a b : ℕ →₀ α) (ha : InRange c a) (hb : InRange c b) :
    InRange c (clMulS c.computeSign a b) := by
  sorry

/-- associativity of the geometric product of the real algebra's model -/
theorem clMulS_assoc_cfg (c : Cfg) (h : Cfg.Adm c) (a b d : ℕ →₀ α)
    (ha : InRange c a) (hb : InRange c b) (hd : InRange c d) :
    clMulS c.computeSign (clMulS c.computeSign a b) d = clMulS c.computeSign a (clMulS c.computeSign b d) := by
  sorry

/-- C04: reversion is an anti-automorphism of the geometric product -/
theorem reverse_antiaut (c : Cfg) (h : Cfg.Adm c) (a b : ℕ →₀ α) (ha : InRange c a) (hb : InRange c b) :
    lin (involSign [2, 3]) (clMulS c.computeSign a b) =
      clMulS c.computeSign (lin (involSign [2, 3]) b) (lin (involSign [2, 3]) a) := by
  sorry

/-- C04: Clifford conjugation is an anti-automorphism -/
theorem conjugate_antiaut (c : Cfg) (h : Cfg.Adm c) (a b : ℕ →₀ α) (ha : InRange c a) (hb : InRange c b) :
    lin (involSign [1, 2]) (clMulS c.computeSign a b) =
      clMulS c.computeSign (lin (involSign [1, 2]) b) (lin (involSign [1, 2]) a) := by
  sorry

/-- C04: grade involution is an automorphism -/
theorem involute_aut (c : Cfg) (h : Cfg.Adm c) (a b : ℕ →₀ α) (ha : InRange c a) (hb : InRange c b) :
    lin (involSign [1, 3]) (clMulS c.computeSign a b) =
      clMulS c.computeSign (lin (involSign [1, 3]) a) (lin (involSign [1, 3]) b) := by
  sorry

/-- C14: the relabelling map `e_K^custom ↦ ε_K • e_K` is a homomorphism onto the default-basis algebra of the
    bit-ordered signature -/
theorem relabel_hom (c : Cfg) (h : Cfg.Adm c) (a b : ℕ →₀ α) (ha : InRange c a) (hb : InRange c b) :
    lin c.epsK (clMulS c.computeSign a b) = clMul c.sigBits (lin c.epsK a) (lin c.epsK b) := by
  sorry

/-- C14: the relabelling map is its own inverse on multivectors of the algebra -/
theorem relabel_involutive (c : Cfg) (h : Cfg.Adm c) (a : ℕ →₀ α) (ha : InRange c a) :
    lin c.epsK (lin c.epsK a) = a := by
  sorry

end
end Kingdon

/-
  C05: duality maps and the regressive product at the level of denotations.
-/
import Kingdon.Lemmas.CfgAlgebra
namespace Kingdon
open Finsupp
noncomputable section
variable {α : Type} [CommRing α]

/-! ### duality (C05) -/

/-- every basis blade E satisfies E ^ hodge(E) = pseudoscalar -/
theorem blade_wedge_hodge (c : Cfg) (h : Cfg.Adm c) (I : Nat) (hI : I < 2 ^ c.d) :
    den (op c [(I, (1 : α))] (hodge c [(I, (1 : α))])) = single c.pss 1 := by
  sorry

/-- polarity raises ZeroDivisionError exactly when the metric is degenerate -/
theorem polarity_raises_iff (c : Cfg) (h : Cfg.Adm c) (x : MV α) :
    polarityGen c false x = none ↔ (0 : Int) ∈ c.signature := by
  sorry

theorem unpolarity_never_raises (c : Cfg) (x : MV α) : (polarityGen c true x).isSome = true := by
  sorry

/-- polarity(x) = x * pss⁻¹ with pss⁻¹ = (pss²)·pss, pss² = ±1 -/
theorem polarity_den (c : Cfg) (h : Cfg.Adm c) (x y : MV α) (hx : polarityGen c false x = some y) :
    den y = clMulS c.computeSign (den x) (single c.pss ((c.computeSign c.pss c.pss : Int) : α)) := by
  sorry

/-- unpolarity(polarity(x)) = x when the pseudoscalar is invertible -/
theorem unpolarity_polarity (c : Cfg) (h : Cfg.Adm c) (x y z : MV α) (hx : ∀ p ∈ x, p.1 < 2 ^ c.d)
    (h1 : polarityGen c false x = some y) (h2 : polarityGen c true y = some z) : den z = den x := by
  sorry

theorem polarity_unpolarity (c : Cfg) (h : Cfg.Adm c) (x y z : MV α) (hx : ∀ p ∈ x, p.1 < 2 ^ c.d)
    (h1 : polarityGen c true x = some y) (h2 : polarityGen c false y = some z) : den z = den x := by
  sorry

/-- the regressive product is the dual of the outer product of the duals -/
theorem rp_den (c : Cfg) (h : Cfg.Adm c) (x y : MV α)
    (hx : ∀ p ∈ x, p.1 < 2 ^ c.d) (hy : ∀ p ∈ y, p.1 < 2 ^ c.d) :
    den (rp c x y) = den (unhodge c (op c (hodge c x) (hodge c y))) := by
  sorry

/-- the pseudoscalar is the identity of the regressive product -/
theorem rp_pss_left (c : Cfg) (h : Cfg.Adm c) (y : MV α) (hy : ∀ p ∈ y, p.1 < 2 ^ c.d) :
    den (rp c [(c.pss, (1 : α))] y) = den y := by
  sorry

theorem rp_pss_right (c : Cfg) (h : Cfg.Adm c) (x : MV α) (hx : ∀ p ∈ x, p.1 < 2 ^ c.d) :
    den (rp c x [(c.pss, (1 : α))]) = den x := by
  sorry

end
end Kingdon

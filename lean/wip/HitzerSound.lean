/-
  C07: soundness of the reflection.  If `hitzerCheck c = true` (a finite computation on polynomial normal forms,
  discharged by `decide +kernel` per configuration in Properties/C07*.lean) then for EVERY commutative ring and EVERY
  operand of the algebra (dense or sparse, any storage) x * num(x) and num(x) * x are scalars, so that
  num(x) / denom(x) is a two-sided inverse whenever the denominator is a unit.
-/
import Kingdon.Model.HitzerCheck
import Kingdon.Lemmas.Naturality
import Kingdon.Lemmas.ConstructLemmas
namespace Kingdon
open Finsupp

section polyeval
variable {α : Type} [CommRing α] (ρ : Nat → α)

/-- value of an executable normal-form polynomial under a valuation of its variables -/
def Poly.eval (p : Poly) : α := (p.toList.map fun mc => ((mc.2 : Int) : α) * (mc.1.map ρ).prod).sum

theorem Poly.eval_add (p q : Poly) : Poly.eval ρ (p + q) = Poly.eval ρ p + Poly.eval ρ q := by
  sorry
theorem Poly.eval_neg (p : Poly) : Poly.eval ρ (-p) = - Poly.eval ρ p := by
  sorry
theorem Poly.eval_mul (p q : Poly) : Poly.eval ρ (p * q) = Poly.eval ρ p * Poly.eval ρ q := by
  sorry
theorem Poly.eval_sub (p q : Poly) : Poly.eval ρ (p - q) = Poly.eval ρ p - Poly.eval ρ q := by
  sorry
theorem Poly.eval_zero : Poly.eval ρ (0 : Poly) = 0 := by
  sorry
theorem Poly.eval_one : Poly.eval ρ (1 : Poly) = 1 := by
  sorry
theorem Poly.eval_var (i : Nat) : Poly.eval ρ (Poly.var i) = ρ i := by
  sorry
theorem Poly.eval_isZero (p : Poly) (h : p.isZero = true) : Poly.eval ρ p = 0 := by
  sorry
end polyeval

variable {α : Type} [CommRing α]

/-- the dense multivector with coefficient `v k` on blade `k` -/
def denseVal (c : Cfg) (v : Nat → α) : MV α := (List.range (2 ^ c.d)).map fun k => (k, v k)

theorem mapV_denseSym (c : Cfg) (ρ : Nat → α) : mapV (Poly.eval ρ) (denseSym c) = denseVal c ρ := by
  sorry

/-- the numerator construction commutes with evaluating the polynomial coefficients -/
theorem hitzerNum_eval (c : Cfg) (ρ : Nat → α) :
    (hitzerNum c (denseSym c)).map (mapV (Poly.eval ρ)) = hitzerNum c (denseVal c ρ) := by
  sorry

/-- **lifting**: from the polynomial check to every valuation in every commutative ring -/
theorem hitzer_dense_of_check (c : Cfg) (hc : hitzerCheck c = true) (ρ : Nat → α) :
    ∃ num D D', hitzerNum c (denseVal c ρ) = some num ∧
      den (gp c (denseVal c ρ) num) = single 0 D ∧ den (gp c num (denseVal c ρ)) = single 0 D' := by
  sorry

/-- the numerator respects denotations: operands denoting the same element (with duplicate-free keys inside the
    algebra) have numerators denoting the same element -/
theorem hitzerNum_den_congr (c : Cfg) (h : Cfg.Adm c) (x x' num num' : MV α)
    (hk : (x.map (·.1)).Nodup) (hk' : (x'.map (·.1)).Nodup)
    (hr : ∀ p ∈ x, p.1 < 2 ^ c.d) (hr' : ∀ p ∈ x', p.1 < 2 ^ c.d)
    (hd : den x = den x') (hn : hitzerNum c x = some num) (hn' : hitzerNum c x' = some num') :
    den num = den num' := by
  sorry

/-- **C07 for every operand**: for an admissible configuration that passes the check, any stored operand with
    duplicate-free keys inside the algebra: x * num and num * x are scalars -/
theorem hitzer_spec (c : Cfg) (h : Cfg.Adm c) (hc : hitzerCheck c = true) (x : MV α)
    (hk : (x.map (·.1)).Nodup) (hr : ∀ p ∈ x, p.1 < 2 ^ c.d) :
    ∃ num D D', hitzerNum c x = some num ∧
      clMulS c.computeSign (den x) (den num) = single 0 D ∧
      clMulS c.computeSign (den num) (den x) = single 0 D' := by
  sorry

/-- the two scalars coincide whenever one of them is a unit: then `D⁻¹ • num` is a two-sided inverse -/
theorem hitzer_two_sided (c : Cfg) (h : Cfg.Adm c) (X N : ℕ →₀ α) (D D' : α) (u : α)
    (hX : InRange c X) (hN : InRange c N)
    (h1 : clMulS c.computeSign X N = single 0 D) (h2 : clMulS c.computeSign N X = single 0 D')
    (hu : D * u = 1) :
    clMulS c.computeSign X (N.mapRange (· * u) (by simp)) = single 0 1 ∧
    clMulS c.computeSign (N.mapRange (· * u) (by simp)) X = single 0 1 ∧
    D' = D := by
  sorry

/-- the denominator the code uses, `(x.sp(num)).e`, is that scalar -/
theorem hitzerDenom_eq (c : Cfg) (h : Cfg.Adm c) (x num : MV α) (D : α)
    (hn : hitzerNum c x = some num) (h1 : den (gp c x num) = single 0 D) :
    hitzerDenom c x = some D := by
  sorry

end Kingdon

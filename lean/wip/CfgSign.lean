/-
  C01/C14 at the level of the algebra configuration: the sign `Algebra._compute_sign` stores for two
  blades equals the canonical Clifford cocycle of the bit-ordered metric, twisted by the orientations
  of the three blade names involved.  All clauses of C01 follow.
-/
import Kingdon.Lemmas.Names
namespace Kingdon
namespace Cfg

/-- signature entries are 1, -1 or 0 -/
def SigRange (sig : List Int) : Prop := ∀ s ∈ sig, s = 1 ∨ s = -1 ∨ s = 0

/-- Prop form of the facts `admissible` checks -/
structure Adm (c : Cfg) : Prop where
  vecs_len : c.vecs.length = c.d
  vecs_nodup : c.vecs.Nodup
  vecs_range : ∀ v ∈ c.vecs, c.start ≤ v ∧ v < c.start + c.d
  names_nodup : ∀ n ∈ c.basis, n.Nodup
  names_letters : ∀ n ∈ c.basis, ∀ l ∈ n, l ∈ c.vecs
  spelled : ∀ I, I < 2 ^ c.d → ∃ n ∈ c.basis, c.binOf n = I
  sig_range : SigRange c.signature

theorem adm_of_admissible (c : Cfg) (h : c.admissible = true) : Adm c := by
  sorry

/-- orientation of the name stored for blade `I`, relative to ascending bit order -/
def epsK (c : Cfg) (I : Nat) : Int := eps c.sigBits (c.wordOf (c.nameOf I))

/-- `_swap_blades` commutes with an injective relabelling of the letters -/
theorem swapBlades_map (f : Nat → Nat) (a b t : List Nat)
    (hf : ∀ x y, x ∈ a ++ b ++ t → y ∈ a ++ b ++ t → f x = f y → x = y) :
    swapBlades (a.map f) (b.map f) (t.map f) =
      ((swapBlades a b t).1, (swapBlades a b t).2.1.map f, (swapBlades a b t).2.2.map f) := by
  sorry

theorem nameOf_mem (c : Cfg) (h : Adm c) (I : Nat) (hI : I < 2 ^ c.d) :
    c.nameOf I ∈ c.basis ∧ c.binOf (c.nameOf I) = I := by
  sorry

theorem binOf_eq_bitsOf (c : Cfg) (n : List Nat) : c.binOf n = bitsOf (c.wordOf n) := by
  sorry

/-- the model of `_compute_sign` on labels equals the word-level algorithm on bit positions -/
theorem computeSign_eq_word (c : Cfg) (h : Adm c) (I J : Nat) (hI : I < 2 ^ c.d) (hJ : J < 2 ^ c.d) :
    c.computeSign I J =
      computeSignW c.sigBits (c.wordOf (c.nameOf I)) (c.wordOf (c.nameOf J)) (c.wordOf (c.nameOf (I ^^^ J))) := by
  sorry

theorem epsK_sq (c : Cfg) (h : Adm c) (I : Nat) (hI : I < 2 ^ c.d) : c.epsK I = 1 ∨ c.epsK I = -1 := by
  sorry

/-- **The twist theorem**: for every admissible configuration (any dimension, signature ordering, start
    index, generator order, blade spelling) the stored sign is the canonical cocycle twisted by name
    orientations. -/
theorem computeSign_twist (c : Cfg) (h : Adm c) (I J : Nat) (hI : I < 2 ^ c.d) (hJ : J < 2 ^ c.d) :
    c.computeSign I J = c.epsK I * c.epsK J * c.epsK (I ^^^ J) * csign c.sigBits I J := by
  sorry

/-- clause 1: each basis vector squares to its signature entry -/
theorem gen_square (c : Cfg) (h : Adm c) (j : Nat) (hj : j < c.d) :
    c.computeSign (2 ^ j) (2 ^ j) = c.metric (c.vecs[j]!) := by
  sorry

/-- clause 2: distinct basis vectors anticommute (and their product is not zero) -/
theorem gen_anticommute (c : Cfg) (h : Adm c) (j k : Nat) (hj : j < c.d) (hk : k < c.d) (hjk : j ≠ k) :
    c.computeSign (2 ^ j) (2 ^ k) = - c.computeSign (2 ^ k) (2 ^ j) ∧
    (c.computeSign (2 ^ j) (2 ^ k) = 1 ∨ c.computeSign (2 ^ j) (2 ^ k) = -1) := by
  sorry

/-- clause 3: blade multiplication is associative -/
theorem computeSign_cocycle (c : Cfg) (h : Adm c) (I J L : Nat)
    (hI : I < 2 ^ c.d) (hJ : J < 2 ^ c.d) (hL : L < 2 ^ c.d) :
    c.computeSign I J * c.computeSign (I ^^^ J) L = c.computeSign J L * c.computeSign I (J ^^^ L) := by
  sorry

/-- left-to-right product of the generators named by the letters of a word, computed with the
    stored table: `(((e_a e_b) e_c) ...)` as (coefficient, blade) -/
def prodWord (c : Cfg) (w : List Nat) : Int × Nat :=
  w.foldl (fun acc l => (acc.1 * c.computeSign acc.2 (2 ^ c.vecs.idxOf l), acc.2 ^^^ 2 ^ c.vecs.idxOf l)) (1, 0)

/-- clause 4: a blade named e_ij..k equals the ordered product e_i e_j .. e_k -/
theorem named_blade_is_product (c : Cfg) (h : Adm c) (K : Nat) (hK : K < 2 ^ c.d) :
    c.prodWord (c.nameOf K) = (1, K) := by
  sorry

/-- the values of the table are 1, -1 or 0 -/
theorem computeSign_range (c : Cfg) (hs : SigRange c.signature) (I J : Nat) :
    c.computeSign I J = 1 ∨ c.computeSign I J = -1 ∨ c.computeSign I J = 0 := by
  sorry

/-- non-canonical spellings: `_blade2canon` returns a name of the basis that is a permutation of the
    spelling, and the swap count it reports is the parity relating the two ordered products -/
theorem blade2canon_sound (c : Cfg) (h : Adm c) (sp n : List Nat) (hn : n ∈ c.basis) (hp : sp.Perm n) :
    ∃ canon swaps, c.blade2canon sp = some (canon, swaps) ∧ canon ∈ c.basis ∧ canon.Perm sp ∧
      evalWord c.sigBits (c.wordOf sp) = SB.smul ((-1) ^ swaps) (evalWord c.sigBits (c.wordOf canon)) := by
  sorry

end Cfg
end Kingdon

/-
  C15: construction and coefficient access round-trip, on the model of `MultiVector.__new__` (Model/Construct.lean).
-/
import Kingdon.Model.Construct
import Kingdon.Lemmas.CfgSign
import Kingdon.Lemmas.Products
import Mathlib.Algebra.Group.Defs
namespace Kingdon.Con
open Kingdon

variable {V : Type}

/-- coefficient stored for blade `k` (first occurrence), absent = 0 -/
def coeff [Zero V] (mv : List Nat × List V) (k : Nat) : V :=
  match (mv.1.zip mv.2).find? (·.1 == k) with
  | none => 0
  | some p => p.2

/-- the form "key sequence + value sequence" -/
def kvForm (ks : List Nat) (vs : List V) : Form V :=
  { values := .list vs, keys := some (ks.map KeyIn.int), name := none, grades := none, items := [] }

/-- with Adm, the grade-g keys are exactly the keys of popcount g -/
theorem mem_indicesForGrade (c : Cfg) (h : Cfg.Adm c) (g k : Nat) :
    k ∈ c.indicesForGrade g ↔ (k < 2 ^ c.d ∧ popcount k = g) := by
  sorry

/-- key/value sequences (integer keys inside the algebra, equal lengths) are stored verbatim -/
theorem construct_kv [Neg V] (c : Cfg) (h : Cfg.Adm c) (mkSym : String → List Nat → V) (ks : List Nat) (vs : List V)
    (hk : ∀ k ∈ ks, k < 2 ^ c.d) (hne : ks ≠ []) (hl : ks.length = vs.length) :
    construct c false mkSym (kvForm ks vs) = .ok (ks, vs) := by
  sorry

/-- reading back with any spelling of a blade: the coefficient of the canonical blade, negated iff the swap count
    reported for the spelling is odd (`Cfg.blade2canon_sound` says that this count is the parity relating the
    ordered products of the two spellings) -/
theorem getattr_spelling [Neg V] [Zero V] (c : Cfg) (h : Cfg.Adm c) (mv : List Nat × List V) (sp n : List Nat)
    (hn : n ∈ c.basis) (hp : sp.Perm n) :
    ∃ canon swaps, c.blade2canon sp = some (canon, swaps) ∧ canon ∈ c.basis ∧ canon.Perm sp ∧
      getattr c mv sp = (if swaps % 2 = 0 then coeff mv (c.binOf canon) else - coeff mv (c.binOf canon)) := by
  sorry

/-- a canonical spelling reads the stored coefficient itself; a blade that is not stored reads 0 -/
theorem getattr_canonical [Neg V] [Zero V] (c : Cfg) (mv : List Nat × List V) (n : List Nat) (hn : n ∈ c.basis) :
    getattr c mv n = coeff mv (c.binOf n) := by
  sorry

/-- **keyword blades round-trip**: if every keyword is a spelling (any permutation) of a basis blade and no
    blade is named twice, construction succeeds and reading each blade back *with the spelling that was used*
    returns exactly the value supplied — nothing dropped, nothing negated -/
theorem keyword_roundtrip [InvolutiveNeg V] [Zero V] (c : Cfg) (h : Cfg.Adm c) (mkSym : String → List Nat → V)
    (items : List (List Nat × V)) (hne : items ≠ [])
    (hsp : ∀ it ∈ items, ∃ n ∈ c.basis, it.1.Perm n)
    (hdist : (items.map fun it => c.binOf it.1).Nodup) :
    ∃ mv, construct c false mkSym { values := .none, keys := none, name := none, grades := none, items := items } = .ok mv ∧
      (∀ it ∈ items, getattr c mv it.1 = it.2) ∧
      (∀ k, k ∈ mv.1 ↔ ∃ it ∈ items, c.binOf it.1 = k) := by
  sorry

/-- a keyword naming a generator outside the algebra raises -/
theorem keyword_unknown_raises [Neg V] (c : Cfg) (h : Cfg.Adm c) (mkSym : String → List Nat → V)
    (items : List (List Nat × V)) (it : List Nat × V) (hit : it ∈ items) (l : Nat) (hl : l ∈ it.1) (hv : l ∉ c.vecs) :
    ∀ mv, construct c false mkSym { values := .none, keys := none, name := none, grades := none, items := items } ≠ .ok mv := by
  sorry

/-- length mismatch between keys and values raises (TypeError in the code) -/
theorem length_mismatch_raises [Neg V] (c : Cfg) (graded : Bool) (mkSym : String → List Nat → V) (ks : List Nat) (vs : List V)
    (gs : Option (List Int)) (hne : ks ≠ []) (hl : ks.length ≠ vs.length) (hv : vs ≠ []) :
    ∀ mv, construct c graded mkSym { values := .list vs, keys := some (ks.map KeyIn.int), name := none, grades := gs, items := [] } ≠ .ok mv := by
  sorry

/-- keys outside the declared grades raise -/
theorem keys_outside_grades_raise [Neg V] (c : Cfg) (h : Cfg.Adm c) (graded : Bool) (mkSym : String → List Nat → V)
    (ks : List Nat) (vs : List V) (gs : List Int) (k : Nat) (hk : k ∈ ks) (hg : (popcount k : Int) ∉ gs) :
    ∀ mv, construct c graded mkSym { values := .list vs, keys := some (ks.map KeyIn.int), name := none, grades := some gs, items := [] } ≠ .ok mv := by
  sorry

/-- invalid grades (negative or above d) raise -/
theorem invalid_grades_raise [Neg V] (c : Cfg) (graded : Bool) (mkSym : String → List Nat → V) (f : Form V)
    (gs : List Int) (hg : f.grades = some gs) (g : Int) (hmem : g ∈ gs) (hbad : g < 0 ∨ (c.d : Int) < g)
    (hit : f.items = [] ∨ f.keys.isSome ∨ (match f.values with | .none => false | _ => true)) :
    ∀ mv, construct c graded mkSym f ≠ .ok mv := by
  sorry

/-- in graded mode a key sequence that is not the complete key tuple of its grades raises -/
theorem graded_incomplete_raises [Neg V] (c : Cfg) (mkSym : String → List Nat → V) (ks : List Nat) (vs : List V)
    (hne : ks ≠ []) (hinc : ∀ gs, c.indicesForGrades gs ≠ ks) :
    ∀ mv, construct c true mkSym (kvForm ks vs) ≠ .ok mv := by
  sorry

end Kingdon.Con

import Kingdon.Driver
def main : IO Unit := driverMain

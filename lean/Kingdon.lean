import Kingdon.Model.Blade
import Kingdon.Model.Poly
import Kingdon.Model.Codegen
import Kingdon.Driver
import Kingdon.Lemmas.Names
import Kingdon.Lemmas.Bits
import Kingdon.Lemmas.Reverse
import Kingdon.Lemmas.ClAlg
